(* C04 — executable model of error handling in falcon.App / falcon.asgi.App:
   add_error_handler, _find_error_handler, _handle_exception, the default handlers,
   _compose_status_response / _compose_error_response, app_helpers.default_serialize_error,
   HTTPError.to_dict, and the render window at the tail of __call__ (falcon/app.py,
   falcon/asgi/app.py).

   Exception classes are data: a class is a number, an exception object carries the
   linearised MRO of its class (CPython's C3 linearisation is an input) and its public
   attributes.  JSON/XML encoders are not modelled: a body is a *descriptor* (which
   dictionary is encoded in which format); the harness decodes the real body. *)
From Coq Require Import ZArith NArith List Bool String.
From Falcon.lib Require Import PyStr.
From Falcon.gen Require Import ConstsC04.
From Falcon.C03 Require Model.
From Falcon.C12 Require Json.
Import ListNotations.
Open Scope N_scope.

(* ---- classes *)
Definition cls := nat.
Definition c_object : cls := 0%nat.
Definition c_BaseException : cls := 1%nat.
Definition c_Exception : cls := 2%nat.
Definition c_HTTPError : cls := 3%nat.
Definition c_HTTPStatus : cls := 4%nat.

(* ---- handlers and the registry (App._error_handlers: a dict keyed by class) *)
Inductive hid :=
| HPython          (* App._python_error_handler *)
| HHTTPError       (* App._http_error_handler *)
| HHTTPStatus      (* App._http_status_handler *)
| HCustom (n : nat).

Definition registry := list (cls * hid).

Fixpoint rget (r : registry) (c : cls) : option hid :=
  match r with
  | [] => None
  | (c', h) :: tl => if Nat.eqb c c' then Some h else rget tl c
  end.

Fixpoint rset (r : registry) (c : cls) (h : hid) : registry :=
  match r with
  | [] => [(c, h)]
  | (c', h') :: tl => if Nat.eqb c c' then (c', h) :: tl else (c', h') :: rset tl c h
  end.

(* App.__init__ *)
Definition init_registry : registry :=
  rset (rset (rset [] c_Exception HPython) c_HTTPError HHTTPError) c_HTTPStatus HHTTPStatus.

(* add_error_handler(exception, handler): `for exc in exception_tuple:` — each entry says
   whether it is a BaseException subclass; the first that is not raises TypeError *after*
   the earlier ones were registered *)
Fixpoint add_loop (r : registry) (l : list (cls * bool)) (h : hid) : registry * bool :=
  match l with
  | [] => (r, true)
  | (c, isx) :: tl => if isx then add_loop (rset r c h) tl h else (r, false)
  end.

Definition registration := (list (cls * bool) * hid)%type.

Fixpoint replay (r : registry) (hist : list registration) : registry :=
  match hist with
  | [] => r
  | (l, h) :: tl => replay (fst (add_loop r l h)) tl
  end.

(* _find_error_handler: `for exc in type(ex).__mro__[:-1]` *)
Fixpoint find_loop (r : registry) (l : list cls) : option hid :=
  match l with
  | [] => None
  | c :: tl => match rget r c with Some h => Some h | None => find_loop r tl end
  end.

Definition find_error_handler (r : registry) (mro : list cls) : option hid :=
  find_loop r (removelast mro).

(* ---- exception objects *)
Record link := { l_text : str; l_href : str; l_rel : str }.

Definition hpairs := list (str * str).

(* HTTPError.code: documented as an int; whatever the application passes is kept as is and
   json.dumps / str() are applied to it - ints and strs are modelled *)
Inductive ecode := CodeInt (z : Z) | CodeStr (s : str).

Record herr := {                   (* falcon.HTTPError instance attributes *)
  e_status : N;                    (* status_code *)
  e_title : str;
  e_desc : option str;
  e_code : option ecode;
  e_link : option link;
  e_headers : option hpairs
}.

Record hstat := {                  (* falcon.HTTPStatus instance attributes *)
  s_status : N;
  s_text : option str;
  s_headers : option hpairs
}.

Inductive payload := PError (e : herr) | PStatus (s : hstat) | PNone.

Record exc := { x_mro : list cls; x_payload : payload }.

(* HTTPError.to_dict *)
Record errdict := { d_title : str; d_desc : option str; d_code : option ecode; d_link : option link }.

Definition to_dict (e : herr) : errdict :=
  {| d_title := e_title e; d_desc := e_desc e; d_code := e_code e; d_link := e_link e |}.

(* ---- the response *)
Inductive data :=
| DRaw (b : list N)
| DJson (d : errdict)      (* HTTPError.to_json(handler) *)
| DXml (d : errdict).      (* HTTPError._to_xml() *)

Inductive media :=
| MErr (d : errdict)       (* resp.media = exception.to_dict() *)
| MApp (tag : N).          (* something the application assigned (opaque) *)

Definition headers := list (str * str).   (* keyed by lower-cased name *)

Fixpoint hget (h : headers) (k : str) : option str :=
  match h with
  | [] => None
  | (k', v) :: tl => if str_eqb k k' then Some v else hget tl k
  end.

Fixpoint hset (h : headers) (k v : str) : headers :=
  match h with
  | [] => [(k, v)]
  | (k', v') :: tl => if str_eqb k k' then (k', v) :: tl else (k', v') :: hset tl k v
  end.

Record resp := {
  r_status : N;
  r_headers : headers;
  r_text : option str;
  r_data : option data;
  r_media : option media;
  r_rendered : option media    (* Response._media_rendered: the media whose serialization is
                                  cached by an earlier render_body(); None = _UNSET *)
}.

Definition with_status (r : resp) (s : N) : resp :=
  {| r_status := s; r_headers := r_headers r; r_text := r_text r; r_data := r_data r;
     r_media := r_media r;
     r_rendered := r_rendered r |}.
Definition with_headers (r : resp) (h : headers) : resp :=
  {| r_status := r_status r; r_headers := h; r_text := r_text r; r_data := r_data r;
     r_media := r_media r;
     r_rendered := r_rendered r |}.
Definition with_text (r : resp) (t : option str) : resp :=
  {| r_status := r_status r; r_headers := r_headers r; r_text := t; r_data := r_data r;
     r_media := r_media r;
     r_rendered := r_rendered r |}.
Definition with_data (r : resp) (d : option data) : resp :=
  {| r_status := r_status r; r_headers := r_headers r; r_text := r_text r; r_data := d;
     r_media := r_media r;
     r_rendered := r_rendered r |}.
Definition with_media (r : resp) (m : option media) : resp :=
  {| r_status := r_status r; r_headers := r_headers r; r_text := r_text r; r_data := r_data r;
     r_media := m;
     r_rendered := None |}.   (* the media setter invalidates the render cache *)

Definition s_content_type : str := Eval vm_compute in lit "content-type".
Definition s_vary : str := Eval vm_compute in lit "vary".
Definition s_Accept : str := Eval vm_compute in lit "Accept".
Definition s_plus_json : str := Eval vm_compute in lit "+json".
Definition s_plus_xml : str := Eval vm_compute in lit "+xml".
Definition s_comma_sp : str := Eval vm_compute in lit ", ".

(* Response.set_headers: name.lower(); overwrite *)
Fixpoint set_headers (h : headers) (l : hpairs) : headers :=
  match l with
  | [] => h
  | (k, v) :: tl => set_headers (hset h (lower k) v) tl
  end.

(* Response.append_header (not set-cookie) *)
Definition append_header (h : headers) (k v : str) : headers :=
  match hget h (lower k) with
  | Some old => hset h (lower k) (old ++ s_comma_sp ++ v)
  | None => hset h (lower k) v
  end.

(* ---- content negotiation inputs of default_serialize_error, fixed per request *)
Record ncfg := {
  n_xml : bool;                  (* resp.options.xml_error_serialization *)
  n_preferred : option str;      (* ORACLE: req.client_prefers(predefined + media_handlers) *)
  n_accept : str;                (* req.accept *)
  n_resolvable : list str        (* ORACLE: types t with media_handlers._resolve(t, JSON, False)[0] *)
}.

(* app_helpers.default_serialize_error *)
Definition serialize_error (n : ncfg) (r : resp) (e : herr) : resp :=
  let preferred :=
    match n_preferred n with
    | Some p => Some p
    | None =>
      let accept := lower (n_accept n) in
      if contains accept s_plus_json then Some MEDIA_JSON
      else if contains accept s_plus_xml then Some MEDIA_XML
      else None
    end in
  let r1 :=
    match preferred with
    | None => r
    | Some p =>
      let r' :=
        if str_eqb p MEDIA_JSON then with_data r (Some (DJson (to_dict e)))
        else if mem p (n_resolvable n) then with_media r (Some (MErr (to_dict e)))
        else if n_xml n then with_data r (Some (DXml (to_dict e)))
        else r in
      with_headers r' (hset (r_headers r') s_content_type p)
    end in
  with_headers r1 (append_header (r_headers r1) s_vary s_Accept).

(* App._compose_error_response *)
Definition compose_error (n : ncfg) (r : resp) (e : herr) : resp :=
  let r1 := with_status r (e_status e) in
  let r2 := match e_headers e with
            | Some l => with_headers r1 (set_headers (r_headers r1) l)
            | None => r1
            end in
  serialize_error n r2 e.

(* App._compose_status_response *)
Definition compose_status (r : resp) (s : hstat) : resp :=
  let r1 := with_status r (s_status s) in
  let r2 := match s_headers s with
            | Some l => with_headers r1 (set_headers (r_headers r1) l)
            | None => r1
            end in
  with_text r2 (s_text s).

Definition internal_error : herr :=
  {| e_status := internal_error_status; e_title := internal_error_title; e_desc := None;
     e_code := None; e_link := None; e_headers := None |}.

(* ---- application error handlers are scripts *)
Record writes := {
  w_status : option N;
  w_text : option str;
  w_data : option (list N);
  w_media : option N;
  w_headers : hpairs;
  w_render : bool           (* then resp.render_body() is called (a middleware or the responder
                               peeking at the body) *)
}.

(* an early Response.render_body(): when it is the media that gets rendered, its
   serialization is cached (and the content type defaulted) *)
Definition early_render (r : resp) : resp :=
  match r_text r, r_data r, r_media r, r_rendered r with
  | None, None, Some m, None =>
    let h := match hget (r_headers r) s_content_type with
             | None | Some [] => hset (r_headers r) s_content_type MEDIA_JSON
             | _ => r_headers r
             end in
    {| r_status := r_status r; r_headers := h; r_text := None; r_data := None;
       r_media := Some m; r_rendered := Some m |}
  | _, _, _, _ => r
  end.

Definition apply_writes (w : writes) (r : resp) : resp :=
  let r1 := match w_status w with Some s => with_status r s | None => r end in
  let r2 := match w_text w with Some t => with_text r1 (Some t) | None => r1 end in
  let r3 := match w_data w with Some d => with_data r2 (Some (DRaw d)) | None => r2 end in
  let r4 := match w_media w with Some m => with_media r3 (Some (MApp m)) | None => r3 end in
  let r5 := with_headers r4 (set_headers (r_headers r4) (w_headers w)) in
  if w_render w then early_render r5 else r5.

Inductive hend :=
| HEReturn
| HERaiseError (e : herr)
| HERaiseStatus (s : hstat)
| HERaiseOther.

Record hscript := { h_writes : writes; h_end : hend }.

Definition no_writes : writes :=
  {| w_status := None; w_text := None; w_data := None; w_media := None; w_headers := []; w_render := false |}.

Record env := {
  v_reg : registry;
  v_scripts : list hscript;          (* script of HCustom n = nth n *)
  v_ncfg : ncfg
}.

Definition script_of (v : env) (n : nat) : hscript :=
  nth n (v_scripts v) {| h_writes := no_writes; h_end := HEReturn |}.

Inductive houtcome :=
| Handled          (* _handle_exception returned True *)
| NotHandled       (* returned False: the caller re-raises *)
| HandlerRaised.   (* the handler raised something that is not HTTPError/HTTPStatus *)

(* `resp.text = resp.data = resp.media = None` *)
Definition clear (r : resp) : resp := with_media (with_data (with_text r None) None) None.

(* which handler ran is observable (the harness's handlers record their id) *)
Definition handle_exception (v : env) (r : resp) (x : exc) : houtcome * option hid * resp :=
  let h := find_error_handler (v_reg v) (x_mro x) in
  let r0 := clear r in
  match h with
  | None => (NotHandled, None, r0)
  | Some HPython => (Handled, h, compose_error (v_ncfg v) r0 internal_error)
  | Some HHTTPError =>
    match x_payload x with
    | PError e => (Handled, h, compose_error (v_ncfg v) r0 e)
    | _ => (HandlerRaised, h, r0)     (* AttributeError inside the handler; excluded by wf *)
    end
  | Some HHTTPStatus =>
    match x_payload x with
    | PStatus s => (Handled, h, compose_status r0 s)
    | _ => (HandlerRaised, h, r0)
    end
  | Some (HCustom n) =>
    let sc := script_of v n in
    let r1 := apply_writes (h_writes sc) r0 in
    match h_end sc with
    | HEReturn => (Handled, h, r1)
    | HERaiseStatus s => (Handled, h, compose_status r1 s)        (* except HTTPStatus *)
    | HERaiseError e => (Handled, h, compose_error (v_ncfg v) r1 e)   (* except HTTPError *)
    | HERaiseOther => (HandlerRaised, h, r1)
    end
  end.

(* ---- the error body is ENCODED while the error response is composed: to_json() ends with
   str.encode() (strict UTF-8: UnicodeEncodeError on a lone surrogate); _to_xml() goes through
   ElementTree's writer whose error handler is xmlcharrefreplace (never raises).  An exception
   raised there is raised inside / after the error handler and leaves _handle_exception. *)
Definition str_scalarb (s : str) : bool := forallb Falcon.C12.Json.scalar s.

Definition link_scalarb (l : link) : bool :=
  str_scalarb (l_text l) && str_scalarb (l_href l) && str_scalarb (l_rel l).

Definition dict_scalarb (d : errdict) : bool :=
  str_scalarb (d_title d)
  && match d_desc d with Some x => str_scalarb x | None => true end
  && match d_code d with Some (CodeStr x) => str_scalarb x | _ => true end
  && match d_link d with Some l => link_scalarb l | None => true end.

(* does composing the response for e raise UnicodeEncodeError? only the JSON branch can *)
Definition encode_ok (n : ncfg) (e : herr) : bool :=
  let preferred :=
    match n_preferred n with
    | Some p => Some p
    | None =>
      let accept := lower (n_accept n) in
      if contains accept s_plus_json then Some MEDIA_JSON
      else if contains accept s_plus_xml then Some MEDIA_XML
      else None
    end in
  match preferred with
  | Some p => if str_eqb p MEDIA_JSON then dict_scalarb (to_dict e) else true
  | None => true
  end.

(* the HTTPError (if any) whose response _handle_exception composes for x *)
Definition composed_error (v : env) (x : exc) : option herr :=
  match find_error_handler (v_reg v) (x_mro x) with
  | Some HPython => Some internal_error
  | Some HHTTPError => match x_payload x with PError e => Some e | _ => None end
  | Some (HCustom n) => match h_end (script_of v n) with HERaiseError e => Some e | _ => None end
  | _ => None
  end.

(* _handle_exception including that failure *)
Definition handle_exception_enc (v : env) (r : resp) (x : exc) : houtcome * option hid * resp :=
  match handle_exception v r x with
  | (Handled, h, r') =>
    match composed_error v x with
    | Some e => if encode_ok (v_ncfg v) e then (Handled, h, r') else (HandlerRaised, h, r')
    | None => (Handled, h, r')
    end
  | other => other
  end.

(* ---- rendering (Response.render_body precedence; C05 covers framing) *)
Inductive body :=
| BNone
| BText (t : str)
| BData (d : data)
| BMedia (m : media).

(* What rendering resp.media raises, if anything (ORACLE tables, from the live handlers):
   the content type does not resolve to a media handler (checked first), or the handler
   cannot serialize the application's object. *)
Record mfail := {
  bad_ctypes : list (str * exc);    (* media_handlers._resolve(content_type) raises *)
  bad_tags : list (N * exc)         (* handler.serialize(application object) raises *)
}.

Fixpoint assoc_str (l : list (str * exc)) (k : str) : option exc :=
  match l with
  | [] => None
  | (k', x) :: tl => if str_eqb k k' then Some x else assoc_str tl k
  end.

Fixpoint assoc_N (l : list (N * exc)) (k : N) : option exc :=
  match l with
  | [] => None
  | (k', x) :: tl => if N.eqb k k' then Some x else assoc_N tl k
  end.

Definition media_fails (mf : mfail) (r : resp) (m : media) : option exc :=
  match match hget (r_headers r) s_content_type with
        | Some ct => assoc_str (bad_ctypes mf) ct
        | None => None
        end with
  | Some x => Some x
  | None => match m with
            | MApp tag => assoc_N (bad_tags mf) tag
            | MErr _ => None
            end
  end.

Definition render (mf : mfail) (r : resp) : body + exc :=
  match r_text r with
  | Some t => inl (BText t)
  | None =>
    match r_data r with
    | Some d => inl (BData d)
    | None =>
      match r_media r with
      | Some m =>
        match r_rendered r with
        | Some c => inl (BMedia c)            (* the cached serialization is sent *)
        | None => match media_fails mf r m with
                  | Some x => inr x
                  | None => inl (BMedia m)
                  end
        end
      | None => inl BNone
      end
    end
  end.

(* `except Exception as ex:` catches instances of classes that have Exception in their MRO *)
Definition catchable (x : exc) : bool := existsb (Nat.eqb c_Exception) (x_mro x).

Inductive result :=
| Response (status : N) (h : headers) (b : body)
| Escaped.                                         (* an exception reached the server *)

(* The tail of __call__:  try: body = render  except Exception: handle; req_succeeded=False.
   [fixed] = with fixes/C04-render-error-body.patch: the response composed by the error
   handler is rendered (once more; if that fails too the body stays empty). *)
Definition finish (fixed : bool) (v : env) (mf : mfail) (r : resp)
  : result * list (option hid) :=
  match render mf r with
  | inl b => (Response (r_status r) (r_headers r) b, [])
  | inr x =>
    if negb (catchable x) then (Escaped, []) else
    match handle_exception_enc v r x with
    | (Handled, h, r') =>
      if fixed then
        match render mf r' with
        | inl b => (Response (r_status r') (r_headers r') b, [h])
        | inr _ => (Response (r_status r') (r_headers r') BNone, [h])
        end
      else (Response (r_status r') (r_headers r') BNone, [h])
    | (_, h, _) => (Escaped, [h])
    end
  end.

(* One request in which the application wrote [w] and then (optionally) raised [x] from a
   middleware method, hook or responder; returns the result and the handlers that ran. *)
Definition request (fixed : bool) (v : env) (mf : mfail)
           (r0 : resp) (w : writes) (raised : option exc) : result * list (option hid) :=
  let r := apply_writes w r0 in
  match raised with
  | None => finish fixed v mf r
  | Some x =>
    if negb (catchable x) then (Escaped, []) else
    match handle_exception_enc v r x with
    | (Handled, h, r') =>
      let '(res, hs) := finish fixed v mf r' in (res, h :: hs)
    | (_, h, _) => (Escaped, [h])
    end
  end.

(* ---- link with C03: which scripted C03 action is "raise exception object x" *)
Definition derive_action (v : env) (x : exc) : Falcon.C03.Model.action :=
  if negb (catchable x) then Falcon.C03.Model.RaiseUnhandled else
  match find_error_handler (v_reg v) (x_mro x) with
  | None => Falcon.C03.Model.RaiseUnhandled
  | Some (HCustom n) =>
    match h_end (script_of v n) with
    | HEReturn => Falcon.C03.Model.RaiseApp Falcon.C03.Model.HReturn
    | HERaiseError _ | HERaiseStatus _ => Falcon.C03.Model.RaiseApp Falcon.C03.Model.HRaiseHTTP
    | HERaiseOther => Falcon.C03.Model.RaiseApp Falcon.C03.Model.HRaiseOther
    end
  | Some HPython => Falcon.C03.Model.RaiseHTTP
  | Some HHTTPError =>
    match x_payload x with PError _ => Falcon.C03.Model.RaiseHTTP
                      | _ => Falcon.C03.Model.RaiseApp Falcon.C03.Model.HRaiseOther end
  | Some HHTTPStatus =>
    match x_payload x with PStatus _ => Falcon.C03.Model.RaiseHTTP
                      | _ => Falcon.C03.Model.RaiseApp Falcon.C03.Model.HRaiseOther end
  end.

(* ---- one app instance over time: add_error_handler calls interleaved with requests whose
   exceptions are looked up.  _find_error_handler only READS the registry: a lookup leaves
   the state unchanged (in particular nothing is memoised under the concrete class). *)
Inductive op :=
| OReg (r : registration)        (* app.add_error_handler(classes, handler) *)
| OLookup (mro : list cls).      (* a request raises an object with this MRO *)

Definition lookup (r : registry) (mro : list cls) : option hid * registry :=
  (find_error_handler r mro, r).

Fixpoint run_ops (r : registry) (ops : list op) : list (option hid) :=
  match ops with
  | [] => []
  | OReg (l, h) :: tl => run_ops (fst (add_loop r l h)) tl
  | OLookup mro :: tl => let '(h, r') := lookup r mro in h :: run_ops r' tl
  end.

(* ---- falcon/errors.py: the header-bearing HTTPError subclasses build their `headers` from
   their own constructor arguments: `headers = _load_headers(headers)` (a fresh dict when the
   caller passed none) then `headers[NAME] = value`.  Python dict: case-sensitive keys. *)
Fixpoint pset (l : hpairs) (k v : str) : hpairs :=
  match l with
  | [] => [(k, v)]
  | (k', v') :: tl => if str_eqb k k' then (k', v) :: tl else (k', v') :: pset tl k v
  end.

Definition load_headers (h : option hpairs) : hpairs :=
  match h with None => [] | Some l => l end.

Fixpoint join_comma (l : list str) : str :=
  match l with
  | [] => []
  | [x] => x
  | x :: tl => x ++ s_comma_sp ++ join_comma tl
  end.

Definition s_Allow : str := Eval vm_compute in lit "Allow".
Definition s_WWW_Authenticate : str := Eval vm_compute in lit "WWW-Authenticate".
Definition s_Retry_After : str := Eval vm_compute in lit "Retry-After".
Definition s_Content_Range : str := Eval vm_compute in lit "Content-Range".
Definition s_bytes_star : str := Eval vm_compute in lit "bytes */".

Inductive ector :=
| CMethodNotAllowed (allowed : list str)        (* HTTPMethodNotAllowed(allowed_methods) *)
| CUnauthorized (challenges : list str)         (* HTTPUnauthorized(challenges=...); [] = falsy *)
| CRetryAfter (retry_after : option str)        (* 413 / 429 / 503 (retry_after=...), str() of it *)
| CRange (resource_length : str)                (* HTTPRangeNotSatisfiable(n), str(n) *)
| CPlain.                                       (* any other HTTPError: headers passed through *)

Definition ctor_headers (c : ector) (h : option hpairs) : option hpairs :=
  match c with
  | CMethodNotAllowed allowed => Some (pset (load_headers h) s_Allow (join_comma allowed))
  | CUnauthorized [] => h
  | CUnauthorized ch => Some (pset (load_headers h) s_WWW_Authenticate (join_comma ch))
  | CRetryAfter None => h
  | CRetryAfter (Some v) => Some (pset (load_headers h) s_Retry_After v)
  | CRange n => Some (pset (load_headers h) s_Content_Range (s_bytes_star ++ n))
  | CPlain => h
  end.

Definition with_ctor (c : ector) (e : herr) : herr :=
  {| e_status := e_status e; e_title := e_title e; e_desc := e_desc e; e_code := e_code e;
     e_link := e_link e; e_headers := ctor_headers c (e_headers e) |}.
