From Coq Require Import ZArith NArith List Bool.
From Coq Require Import ExtrOcamlBasic.
From Falcon.lib Require Import Wire PyStr.
From Falcon.C03 Require Model.
From Falcon.C12 Require Json.
From Falcon.C04 Require Import Model Spec Body.
Import ListNotations.
Open Scope Z_scope.

Definition d_hid (v : val) : hid :=
  let t := dZ (nth_val 0 v) in
  if t =? 0 then HPython else if t =? 1 then HHTTPError else if t =? 2 then HHTTPStatus
  else HCustom (dnat (nth_val 1 v)).
Definition v_hid (h : hid) : val :=
  match h with
  | HPython => L [I 0; I 0] | HHTTPError => L [I 1; I 0] | HHTTPStatus => L [I 2; I 0]
  | HCustom n => L [I 3; vnat n]
  end.

Definition d_pairs (v : val) : hpairs := dlist (fun p => (dstr (nth_val 0 p), dstr (nth_val 1 p))) v.
Definition v_pairs (h : headers) : val := vlist (vpair vstr vstr) h.

Definition dec_link (v : val) : link :=
  {| l_text := dstr (nth_val 0 v); l_href := dstr (nth_val 1 v); l_rel := dstr (nth_val 2 v) |}.
Definition v_link (l : link) : val := L [vstr (l_text l); vstr (l_href l); vstr (l_rel l)].

Definition d_herr (v : val) : herr :=
  {| e_status := dN (nth_val 0 v); e_title := dstr (nth_val 1 v);
     e_desc := dopt dstr (nth_val 2 v); e_code := dopt (fun c => if dZ (nth_val 0 c) =? 0 then CodeInt (dZ (nth_val 1 c)) else CodeStr (dstr (nth_val 1 c))) (nth_val 3 v);
     e_link := dopt dec_link (nth_val 4 v); e_headers := dopt d_pairs (nth_val 5 v) |}.

Definition d_hstat (v : val) : hstat :=
  {| s_status := dN (nth_val 0 v); s_text := dopt dstr (nth_val 1 v);
     s_headers := dopt d_pairs (nth_val 2 v) |}.

Definition d_ector (v : val) : ector :=
  let t := dZ (nth_val 0 v) in
  if t =? 0 then CMethodNotAllowed (dlist dstr (nth_val 1 v))
  else if t =? 1 then CUnauthorized (dlist dstr (nth_val 1 v))
  else if t =? 2 then CRetryAfter (dopt dstr (nth_val 1 v))
  else if t =? 3 then CRange (dstr (nth_val 1 v))
  else CPlain.

(* payload tag 3: an HTTPError described by its constructor: [3; ctor; herr with the headers=
   argument in the headers slot] - the error's headers are computed by the model *)
Definition d_payload (v : val) : payload :=
  let t := dZ (nth_val 0 v) in
  if t =? 0 then PError (d_herr (nth_val 1 v))
  else if t =? 1 then PStatus (d_hstat (nth_val 1 v))
  else if t =? 3 then PError (with_ctor (d_ector (nth_val 1 v)) (d_herr (nth_val 2 v)))
  else PNone.

Definition d_exc (v : val) : exc :=
  {| x_mro := dlist dnat (nth_val 0 v); x_payload := d_payload (nth_val 1 v) |}.

Definition d_writes (v : val) : writes :=
  {| w_status := dopt dN (nth_val 0 v); w_text := dopt dstr (nth_val 1 v);
     w_data := dopt dstr (nth_val 2 v); w_media := dopt dN (nth_val 3 v);
     w_headers := d_pairs (nth_val 4 v); w_render := dbool (nth_val 5 v) |}.

Definition d_hend (v : val) : hend :=
  let t := dZ (nth_val 0 v) in
  if t =? 0 then HEReturn else if t =? 1 then HERaiseError (d_herr (nth_val 1 v))
  else if t =? 2 then HERaiseStatus (d_hstat (nth_val 1 v)) else HERaiseOther.

Definition d_script (v : val) : hscript :=
  {| h_writes := d_writes (nth_val 0 v); h_end := d_hend (nth_val 1 v) |}.

Definition d_ncfg (v : val) : ncfg :=
  {| n_xml := dbool (nth_val 0 v); n_preferred := dopt dstr (nth_val 1 v);
     n_accept := dstr (nth_val 2 v); n_resolvable := dlist dstr (nth_val 3 v) |}.

Definition d_hist (v : val) : list registration :=
  dlist (fun e => (dlist (fun c => (dnat (nth_val 0 c), dbool (nth_val 1 c))) (nth_val 0 e),
                   d_hid (nth_val 1 e))) v.

Definition d_mfail (v : val) : mfail :=
  {| bad_ctypes := dlist (fun p => (dstr (nth_val 0 p), d_exc (nth_val 1 p))) (nth_val 0 v);
     bad_tags := dlist (fun p => (dN (nth_val 0 p), d_exc (nth_val 1 p))) (nth_val 1 v) |}.

Definition v_errdict (d : errdict) : val :=
  L [vstr (d_title d); vopt vstr (d_desc d); vopt (fun c => match c with CodeInt z => L [I 0; I z] | CodeStr x => L [I 1; vstr x] end) (d_code d); vopt v_link (d_link d)].

Definition v_data (d : data) : val :=
  match d with
  | DRaw b => L [I 0; vstr b]
  | DJson e => L [I 1; v_errdict e;
                  match json_body e with Json.SBytes b => L [vstr b] | _ => L [] end]
  | DXml e => L [I 2; v_errdict e; L [vstr (xml_body e)]]
  end.
Definition v_media (m : media) : val :=
  match m with MErr e => L [I 0; v_errdict e] | MApp t => L [I 1; vN t] end.
Definition v_body (b : body) : val :=
  match b with
  | BNone => L [I 0] | BText t => L [I 1; vstr t] | BData d => L [I 2; v_data d]
  | BMedia m => L [I 3; v_media m]
  end.
Definition v_result (r : result) : val :=
  match r with
  | Escaped => L [I 0]
  | Response s h b => L [I 1; vN s; v_pairs h; v_body b]
  end.

Definition v_c03_action (a : Falcon.C03.Model.action) : val :=
  I (match a with
     | Falcon.C03.Model.Return => 0 | Falcon.C03.Model.Complete => 1
     | Falcon.C03.Model.RaiseHTTP => 2
     | Falcon.C03.Model.RaiseApp Falcon.C03.Model.HReturn => 3
     | Falcon.C03.Model.RaiseApp Falcon.C03.Model.HRaiseHTTP => 4
     | Falcon.C03.Model.RaiseApp Falcon.C03.Model.HRaiseOther => 5
     | Falcon.C03.Model.RaiseUnhandled => 6 end).

Definition resp0 : resp :=
  {| r_status := 200%N; r_headers := []; r_text := None; r_data := None; r_media := None; r_rendered := None |}.

(* ops: 0 one request:  [0; fixed; hist; scripts; ncfg; media_fails; writes; raised?]
        1 registry:     [1; hist; mro]  -> handler by the dict model / by the history spec,
                                           and whether every registration call succeeded
        2 oracle:       [2; hist; scripts; exc; obs_handler?; escaped; status] *)
Definition run (v : val) : val :=
  match v with
  | L [I 0; fixed; hist; scripts; ncfg; mf; w; raised] =>
    let reg := replay init_registry (d_hist hist) in
    let env := {| v_reg := reg; v_scripts := dlist d_script scripts; v_ncfg := d_ncfg ncfg |} in
    let '(res, hs) := request (dbool fixed) env (d_mfail mf) resp0 (d_writes w)
                              (dopt d_exc raised) in
    L [I 1; v_result res; vlist (vopt v_hid) hs;
       vopt (fun x => v_c03_action (derive_action env (d_exc x))) (dopt (fun x => x) raised)]
  | L [I 1; hist; mro] =>
    let reg := replay init_registry (d_hist hist) in
    L [I 1; vopt v_hid (find_error_handler reg (dlist dnat mro));
       vopt v_hid (spec_handler (d_hist hist) (dlist dnat mro))]
  | L [I 3; hist; ops] =>
    (* one app over time: [0; registration] | [1; mro] *)
    let d_op (o : val) : op :=
      if dZ (nth_val 0 o) =? 0
      then match d_hist (L [nth_val 1 o]) with r :: _ => OReg r | [] => OLookup [] end
      else OLookup (dlist dnat (nth_val 1 o)) in
    let ops' := dlist d_op ops in
    L [I 1; vlist (vopt v_hid) (run_ops (replay init_registry (d_hist hist)) ops');
       vlist (vopt v_hid) (spec_ops (d_hist hist) ops')]
  | L [I 4; text] =>
    (* the XML reader on a decoded body *)
    match read_xml (dstr text) with
    | None => L [I 0]
    | Some x => L [I 1; vstr (x_title x); vopt vstr (x_desc x); vopt vstr (x_code x);
                   vopt v_link (x_link x)]
    end
  | L [I 2; hist; scripts; x; oh; esc; st] =>
    L [I 1; vlist vnat (oracle (d_hist hist) (dlist d_script scripts) (d_exc x)
                               (dopt d_hid oh) (dbool esc) (dN st))]
  | _ => L [I (-1)]
  end.

Extraction "C04/model.ml" run.
