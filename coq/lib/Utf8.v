(* UTF-8 as CPython implements it: [encode] = str.encode() on scalar code points (Python raises
   UnicodeEncodeError on lone surrogates; callers test [scalar] first), [decode_replace] =
   bytes.decode('utf-8', 'replace') — CPython's stringlib utf8_decode, branch by branch, with one
   U+FFFD per maximal invalid subpart.  Tied to CPython by harness/c10.py (exhaustive short byte
   strings + every code point). *)
From Coq Require Import ZArith NArith List Bool Lia ZifyBool ZifyN.
Import ListNotations.
Open Scope N_scope.
#[local] Ltac Zify.zify_post_hook ::= Z.div_mod_to_equations.

(* a code point that str.encode() accepts: <= 0x10FFFF and not a surrogate *)
Definition scalar (c : N) : bool := (c <? 55296) || ((57343 <? c) && (c <? 1114112)).

Definition encode_cp (c : N) : list N :=
  if c <? 128 then [c]
  else if c <? 2048 then [192 + c / 64; 128 + c mod 64]
  else if c <? 65536 then [224 + c / 4096; 128 + (c / 64) mod 64; 128 + c mod 64]
  else [240 + c / 262144; 128 + (c / 4096) mod 64; 128 + (c / 64) mod 64; 128 + c mod 64].

Definition encode (s : list N) : list N := flat_map encode_cp s.

(* continuation byte 0x80..0xBF *)
Definition cont (b : N) : bool := (128 <=? b) && (b <? 192).
Definition rep : N := 65533.

(* second byte constraints: E0 A0..BF, ED 80..9F; F0 90..BF, F4 80..8F *)
Definition second3_ok (b0 b1 : N) : bool :=
  if b0 =? 224 then 160 <=? b1 else if b0 =? 237 then b1 <? 160 else true.
Definition second4_ok (b0 b1 : N) : bool :=
  if b0 =? 240 then 144 <=? b1 else if b0 =? 244 then b1 <? 144 else true.

Definition cp2 (b0 b1 : N) : N := (b0 - 192) * 64 + (b1 - 128).
Definition cp3 (b0 b1 b2 : N) : N := (b0 - 224) * 4096 + (b1 - 128) * 64 + (b2 - 128).
Definition cp4 (b0 b1 b2 b3 : N) : N :=
  (b0 - 240) * 262144 + (b1 - 128) * 4096 + (b2 - 128) * 64 + (b3 - 128).

Fixpoint decode_replace (s : list N) : list N :=
  match s with
  | [] => []
  | b0 :: t0 =>
    if b0 <? 128 then b0 :: decode_replace t0
    else if b0 <? 194 then rep :: decode_replace t0          (* InvalidStart: 80..C1 *)
    else if b0 <? 224 then
      match t0 with
      | [] => [rep]                                           (* unexpected end of data *)
      | b1 :: t1 =>
        if cont b1 then cp2 b0 b1 :: decode_replace t1
        else rep :: decode_replace t0                         (* InvalidContinuation1 *)
      end
    else if b0 <? 240 then
      match t0 with
      | [] => [rep]
      | b1 :: t1 =>
        if cont b1 && second3_ok b0 b1 then
          match t1 with
          | [] => [rep]
          | b2 :: t2 =>
            if cont b2 then cp3 b0 b1 b2 :: decode_replace t2
            else rep :: decode_replace t1                     (* InvalidContinuation2 *)
          end
        else rep :: decode_replace t0
      end
    else if b0 <? 245 then
      match t0 with
      | [] => [rep]
      | b1 :: t1 =>
        if cont b1 && second4_ok b0 b1 then
          match t1 with
          | [] => [rep]
          | b2 :: t2 =>
            if cont b2 then
              match t2 with
              | [] => [rep]
              | b3 :: t3 =>
                if cont b3 then cp4 b0 b1 b2 b3 :: decode_replace t3
                else rep :: decode_replace t2                 (* InvalidContinuation3 *)
              end
            else rep :: decode_replace t1
          end
        else rep :: decode_replace t0
      end
    else rep :: decode_replace t0                             (* InvalidStart: F5..FF *)
  end.

(* ------------------------------------------------------------------ facts *)

Ltac ifres :=
  repeat match goal with
  | |- context [if ?b then _ else _] =>
    first [ replace b with true by (unfold cont, second3_ok, second4_ok; lia)
          | replace b with false by (unfold cont, second3_ok, second4_ok; lia) ];
    cbn [decode_replace app]
  end.

Lemma encode_cp_ascii c : c < 128 -> encode_cp c = [c].
Proof. intro H. unfold encode_cp. replace (c <? 128) with true by lia. reflexivity. Qed.

Lemma encode_cp_high c : 128 <= c -> Forall (fun b => 128 <= b) (encode_cp c).
Proof.
  intro H. unfold encode_cp.
  destruct (c <? 128) eqn:E1; [lia|].
  destruct (c <? 2048) eqn:E2; [|destruct (c <? 65536) eqn:E3];
    repeat constructor; lia.
Qed.

Lemma encode_cp_bytes c : c < 1114112 -> Forall (fun b => b < 256) (encode_cp c).
Proof.
  intro H. unfold encode_cp.
  destruct (c <? 128) eqn:E1; [|destruct (c <? 2048) eqn:E2; [|destruct (c <? 65536) eqn:E3]];
    repeat constructor; lia.
Qed.

Lemma encode_cp_nonempty c : encode_cp c <> [].
Proof.
  unfold encode_cp.
  destruct (c <? 128); [|destruct (c <? 2048); [|destruct (c <? 65536)]]; discriminate.
Qed.

Lemma scalar_lt c : scalar c = true -> c < 1114112.
Proof. unfold scalar. lia. Qed.

Lemma second3_false_cases b0 b1 :
  second3_ok b0 b1 = false -> (b0 = 224 /\ b1 < 160) \/ (b0 = 237 /\ 160 <= b1).
Proof.
  unfold second3_ok. destruct (b0 =? 224) eqn:E1; [lia|]. destruct (b0 =? 237) eqn:E2; [lia|discriminate].
Qed.

(* the per-code-point lemma: decoding what encode_cp wrote returns the code point and
   resumes exactly after it *)
Lemma decode_encode_cp c rest :
  scalar c = true -> decode_replace (encode_cp c ++ rest) = c :: decode_replace rest.
Proof.
  intro Hs. unfold scalar in Hs. unfold encode_cp.
  destruct (c <? 128) eqn:E1.
  { cbn [decode_replace app]. rewrite E1. reflexivity. }
  destruct (c <? 2048) eqn:E2.
  { cbn [decode_replace app]. ifres. f_equal. unfold cp2. lia. }
  destruct (c <? 65536) eqn:E3.
  { cbn [decode_replace app].
    replace (224 + c / 4096 <? 128) with false by lia.
    replace (224 + c / 4096 <? 194) with false by lia.
    replace (224 + c / 4096 <? 224) with false by lia.
    replace (224 + c / 4096 <? 240) with true by lia.
    cbn [decode_replace app].
    assert (Hc : cont (128 + (c / 64) mod 64) = true) by (unfold cont; lia).
    assert (H2 : second3_ok (224 + c / 4096) (128 + (c / 64) mod 64) = true).
    { destruct (second3_ok (224 + c / 4096) (128 + (c / 64) mod 64)) eqn:E; [reflexivity|].
      apply second3_false_cases in E. lia. }
    rewrite Hc, H2. cbn [andb].
    replace (cont (128 + c mod 64)) with true by (unfold cont; lia).
    f_equal. unfold cp3. lia. }
  cbn [decode_replace app].
  replace (240 + c / 262144 <? 128) with false by lia.
  replace (240 + c / 262144 <? 194) with false by lia.
  replace (240 + c / 262144 <? 224) with false by lia.
  replace (240 + c / 262144 <? 240) with false by lia.
  replace (240 + c / 262144 <? 245) with true by lia.
  assert (Hc : cont (128 + (c / 4096) mod 64) = true) by (unfold cont; lia).
  assert (H2 : second4_ok (240 + c / 262144) (128 + (c / 4096) mod 64) = true).
  { unfold second4_ok.
    destruct (240 + c / 262144 =? 240) eqn:Ea; [lia|].
    destruct (240 + c / 262144 =? 244) eqn:Eb; [lia|reflexivity]. }
  rewrite Hc, H2. cbn [andb].
  replace (cont (128 + (c / 64) mod 64)) with true by (unfold cont; lia).
  replace (cont (128 + c mod 64)) with true by (unfold cont; lia).
  f_equal. unfold cp4. lia.
Qed.

Theorem decode_encode_app s rest :
  forallb scalar s = true -> decode_replace (encode s ++ rest) = s ++ decode_replace rest.
Proof.
  induction s as [|c s IH]; intro H; [reflexivity|].
  cbn [forallb] in H. apply andb_true_iff in H as [Hc Hs].
  unfold encode in *. cbn [flat_map]. rewrite <- app_assoc.
  rewrite decode_encode_cp by exact Hc. cbn [app]. f_equal. apply IH. exact Hs.
Qed.

Theorem decode_encode s : forallb scalar s = true -> decode_replace (encode s) = s.
Proof.
  intro H. rewrite <- (app_nil_r (encode s)). rewrite decode_encode_app by exact H.
  cbn [decode_replace]. apply app_nil_r.
Qed.

Lemma encode_app a b : encode (a ++ b) = encode a ++ encode b.
Proof. unfold encode. apply flat_map_app. Qed.

Lemma encode_ascii s : Forall (fun c => c < 128) s -> encode s = s.
Proof.
  induction 1 as [|c s Hc _ IH]; [reflexivity|].
  unfold encode in *. cbn [flat_map]. rewrite encode_cp_ascii by exact Hc. rewrite IH. reflexivity.
Qed.

Lemma encode_bytes s : forallb scalar s = true -> Forall (fun b => b < 256) (encode s).
Proof.
  induction s as [|c s IH]; intro H; [constructor|].
  cbn [forallb] in H. apply andb_true_iff in H as [Hc Hs].
  unfold encode in *. cbn [flat_map]. apply Forall_app. split.
  - apply encode_cp_bytes, scalar_lt, Hc.
  - apply IH, Hs.
Qed.

(* an ASCII byte [a] occurs in the encoding exactly where the code point [a] occurs *)
Lemma encode_cp_In_ascii a c : a < 128 -> In a (encode_cp c) -> c = a.
Proof.
  intros Ha Hin. destruct (N.ltb_spec c 128) as [L|L].
  - rewrite encode_cp_ascii in Hin by exact L. destruct Hin as [->|[]]. reflexivity.
  - pose proof (encode_cp_high c L) as F. rewrite Forall_forall in F. apply F in Hin. lia.
Qed.

(* the decoder only ever produces code points a Python str can hold *)
Lemma decode_replace_scalar bs :
  Forall (fun b => b < 256) bs -> forallb scalar (decode_replace bs) = true.
Proof.
  remember (length bs) as n eqn:Hn. revert bs Hn.
  induction n as [n IH] using lt_wf_ind. intros bs Hn Hb.
  destruct bs as [|b0 t0]; [reflexivity|].
  assert (IH' : forall l, (length l < n)%nat -> Forall (fun b => b < 256) l ->
                          forallb scalar (decode_replace l) = true).
  { intros l Hl Fl. exact (IH (length l) Hl l eq_refl Fl). }
  inversion Hb as [|? ? Hb0 Ht0]; subst. cbn [length] in *.
  assert (Hrep : scalar rep = true) by reflexivity.
  cbn [decode_replace].
  destruct (b0 <? 128) eqn:E1.
  { cbn [forallb]. rewrite IH' by (auto; lia). unfold scalar. lia. }
  destruct (b0 <? 194) eqn:E2.
  { cbn [forallb]. rewrite IH' by (auto; lia). reflexivity. }
  destruct (b0 <? 224) eqn:E3.
  { destruct t0 as [|b1 t1]; [reflexivity|].
    inversion Ht0 as [|? ? Hb1 Ht1]; subst. cbn [length] in *.
    destruct (cont b1) eqn:C1; cbn [forallb].
    - rewrite IH' by (auto; lia). unfold scalar, cp2, cont in *. lia.
    - rewrite IH' by (auto; cbn [length]; lia). reflexivity. }
  destruct (b0 <? 240) eqn:E4.
  { destruct t0 as [|b1 t1]; [reflexivity|].
    inversion Ht0 as [|? ? Hb1 Ht1]; subst. cbn [length] in *.
    destruct (cont b1 && second3_ok b0 b1) eqn:C1.
    - destruct t1 as [|b2 t2]; [reflexivity|].
      inversion Ht1 as [|? ? Hb2 Ht2]; subst. cbn [length] in *.
      destruct (cont b2) eqn:C2; cbn [forallb].
      + rewrite IH' by (auto; lia). apply andb_true_iff in C1 as [C1 S1].
        unfold scalar, cp3, cont, second3_ok in *.
        destruct (b0 =? 224) eqn:Ea; [lia|]. destruct (b0 =? 237) eqn:Eb; lia.
      + rewrite IH' by (auto; cbn [length]; lia). reflexivity.
    - cbn [forallb]. rewrite IH' by (auto; cbn [length]; lia). reflexivity. }
  destruct (b0 <? 245) eqn:E5.
  { destruct t0 as [|b1 t1]; [reflexivity|].
    inversion Ht0 as [|? ? Hb1 Ht1]; subst. cbn [length] in *.
    destruct (cont b1 && second4_ok b0 b1) eqn:C1.
    - destruct t1 as [|b2 t2]; [reflexivity|].
      inversion Ht1 as [|? ? Hb2 Ht2]; subst. cbn [length] in *.
      destruct (cont b2) eqn:C2.
      + destruct t2 as [|b3 t3]; [reflexivity|].
        inversion Ht2 as [|? ? Hb3 Ht3]; subst. cbn [length] in *.
        destruct (cont b3) eqn:C3; cbn [forallb].
        * rewrite IH' by (auto; lia). apply andb_true_iff in C1 as [C1 S1].
          unfold scalar, cp4, cont, second4_ok in *.
          destruct (b0 =? 240) eqn:Ea; [lia|]. destruct (b0 =? 244) eqn:Eb; lia.
        * rewrite IH' by (auto; cbn [length]; lia). reflexivity.
      + cbn [forallb]. rewrite IH' by (auto; cbn [length]; lia). reflexivity.
    - cbn [forallb]. rewrite IH' by (auto; cbn [length]; lia). reflexivity. }
  cbn [forallb]. rewrite IH' by (auto; lia). reflexivity.
Qed.
