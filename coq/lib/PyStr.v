(* Python str / bytes as lists of code points (N), with the handful of str methods the
   models use.  Each function is exercised against CPython through the correspondence runs of the properties that use it. *)
From Coq Require Import ZArith NArith List Bool Ascii String Lia.
Import ListNotations.
Open Scope N_scope.

Definition str := list N.

Definition lit (s : string) : str := map N_of_ascii (list_ascii_of_string s).

Fixpoint str_eqb (a b : str) : bool :=
  match a, b with
  | [], [] => true
  | x :: a', y :: b' => N.eqb x y && str_eqb a' b'
  | _, _ => false
  end.

Lemma str_eqb_eq a b : str_eqb a b = true <-> a = b.
Proof.
  revert b; induction a as [|x a IH]; intros [|y b]; simpl; split; intro H;
    try reflexivity; try discriminate.
  - apply andb_true_iff in H as [H1 H2]. apply N.eqb_eq in H1. apply IH in H2. congruence.
  - injection H as -> ->. rewrite N.eqb_refl. simpl. apply IH. reflexivity.
Qed.

Lemma str_eqb_refl a : str_eqb a a = true.
Proof. apply str_eqb_eq. reflexivity. Qed.

Lemma str_eqb_neq a b : str_eqb a b = false <-> a <> b.
Proof.
  split.
  - intros H E. apply str_eqb_eq in E. congruence.
  - intro H. destruct (str_eqb a b) eqn:E; [apply str_eqb_eq in E; contradiction | reflexivity].
Qed.

Lemma str_eqb_sym a b : str_eqb a b = str_eqb b a.
Proof.
  destruct (str_eqb a b) eqn:E.
  - apply str_eqb_eq in E. subst. symmetry. apply str_eqb_refl.
  - symmetry. apply str_eqb_neq. apply str_eqb_neq in E. congruence.
Qed.

Definition mem (s : str) (l : list str) : bool := existsb (str_eqb s) l.

Lemma mem_In s l : mem s l = true <-> In s l.
Proof.
  unfold mem. rewrite existsb_exists. split.
  - intros [x [Hx E]]. apply str_eqb_eq in E. subst. exact Hx.
  - intro H. exists s. split; [exact H | apply str_eqb_refl].
Qed.

Definition char_in (c : N) (set : str) : bool := existsb (N.eqb c) set.

Lemma char_in_In c set : char_in c set = true <-> In c set.
Proof.
  unfold char_in. rewrite existsb_exists. split.
  - intros [x [Hx E]]. apply N.eqb_eq in E. subst. exact Hx.
  - intro H. exists c. split; [exact H | apply N.eqb_refl].
Qed.

(* s.startswith(p) *)
Fixpoint startswith (s p : str) : bool :=
  match p, s with
  | [], _ => true
  | y :: p', x :: s' => N.eqb x y && startswith s' p'
  | _ :: _, [] => false
  end.

Lemma startswith_app s p : startswith s p = true <-> exists r, s = p ++ r.
Proof.
  revert s; induction p as [|y p IH]; intros s; simpl.
  - split; [intros _; exists s; reflexivity | intros _; destruct s; reflexivity].
  - destruct s as [|x s]; simpl; [split; [discriminate | intros [r Hr]; discriminate]|].
    rewrite andb_true_iff, N.eqb_eq, IH. split.
    + intros [-> [r ->]]. exists r. reflexivity.
    + intros [r Hr]. injection Hr as -> ->. split; [reflexivity | exists r; reflexivity].
Qed.

(* x in s  (substring test) *)
Fixpoint contains (s p : str) : bool :=
  startswith s p || match s with [] => false | _ :: s' => contains s' p end.

(* s.split(sep) for a single-character separator *)
Fixpoint split_chr (sep : N) (s : str) : list str :=
  match s with
  | [] => [[]]
  | c :: tl =>
    if N.eqb c sep then [] :: split_chr sep tl
    else match split_chr sep tl with
         | [] => [[c]]    (* unreachable: split never returns [] *)
         | h :: t => (c :: h) :: t
         end
  end.

Lemma split_chr_nonempty sep s : split_chr sep s <> [].
Proof.
  induction s as [|c tl IH]; simpl; [discriminate|].
  destruct (N.eqb c sep); [discriminate|].
  destruct (split_chr sep tl); discriminate.
Qed.

(* sep.join(parts) for a single-character separator *)
Fixpoint join_chr (sep : N) (l : list str) : str :=
  match l with
  | [] => []
  | [x] => x
  | x :: tl => x ++ sep :: join_chr sep tl
  end.

Lemma join_split_chr sep s : join_chr sep (split_chr sep s) = s.
Proof.
  induction s as [|c tl IH]; simpl; [reflexivity|].
  destruct (N.eqb c sep) eqn:E.
  - apply N.eqb_eq in E. subst. pose proof (split_chr_nonempty sep tl) as Hne.
    destruct (split_chr sep tl) as [|h t] eqn:S; [contradiction|].
    simpl in *. rewrite IH. reflexivity.
  - pose proof (split_chr_nonempty sep tl) as Hne.
    destruct (split_chr sep tl) as [|h t] eqn:S; [contradiction|].
    destruct t; simpl in *; rewrite <- IH; reflexivity.
Qed.

(* s.partition(c): (before, found?, after) *)
Fixpoint partition_chr (sep : N) (s : str) : str * bool * str :=
  match s with
  | [] => ([], false, [])
  | c :: tl =>
    if N.eqb c sep then ([], true, tl)
    else let '(a, f, b) := partition_chr sep tl in (c :: a, f, b)
  end.

(* s.replace(chr a, chr b) *)
Definition replace_chr (a b : N) (s : str) : str :=
  map (fun c => if N.eqb c a then b else c) s.

(* s.rstrip(chars) / lstrip / strip *)
Fixpoint lstrip_set (set : str) (s : str) : str :=
  match s with
  | c :: tl => if char_in c set then lstrip_set set tl else s
  | [] => []
  end.
Definition rstrip_set (set : str) (s : str) : str := rev (lstrip_set set (rev s)).
Definition strip_set (set : str) (s : str) : str := rstrip_set set (lstrip_set set s).

(* ASCII lower() / upper() — exact for code points < 128; the models only apply it to
   header names / tokens, and the harness never sends non-ASCII there *)
Definition lower_chr (c : N) : N := if (65 <=? c) && (c <=? 90) then c + 32 else c.
Definition upper_chr (c : N) : N := if (97 <=? c) && (c <=? 122) then c - 32 else c.
Definition lower (s : str) : str := map lower_chr s.
Definition upper (s : str) : str := map upper_chr s.

Lemma lower_idem s : lower (lower s) = lower s.
Proof.
  unfold lower. rewrite map_map. apply map_ext. intro c. unfold lower_chr.
  destruct ((65 <=? c) && (c <=? 90)) eqn:E; [|rewrite E; reflexivity].
  apply andb_true_iff in E as [E1 E2]. apply N.leb_le in E1, E2.
  destruct ((65 <=? c + 32) && (c + 32 <=? 90)) eqn:E'; [|reflexivity].
  apply andb_true_iff in E' as [_ E4]. apply N.leb_le in E4. lia.
Qed.

Definition isdigit (c : N) : bool := (48 <=? c) && (c <=? 57).
