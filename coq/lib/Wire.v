(* Wire format shared by every executable model: nested lists of integers.
   The harness sends one [val] per case and reads one [val] back. *)
From Coq Require Import ZArith List.
Import ListNotations.
Open Scope Z_scope.

Inductive val : Type :=
| I (z : Z)
| L (l : list val).

Definition vbool (b : bool) : val := I (if b then 1 else 0).
Definition vN (n : N) : val := I (Z.of_N n).
Definition vnat (n : nat) : val := I (Z.of_nat n).
Definition vstr (s : list N) : val := L (map vN s).
Definition vopt {A} (f : A -> val) (o : option A) : val :=
  match o with None => L [] | Some a => L [f a] end.
Definition vlist {A} (f : A -> val) (l : list A) : val := L (map f l).
Definition vpair {A B} (f : A -> val) (g : B -> val) (p : A * B) : val :=
  L [f (fst p); g (snd p)].

(* decoders are total: a malformed wire value decodes to a default; the harness
   only ever sends well-formed values and the drivers echo a tag on mismatch *)
Definition dZ (v : val) : Z := match v with I z => z | L _ => 0 end.
Definition dN (v : val) : N := Z.to_N (dZ v).
Definition dnat (v : val) : nat := Z.to_nat (dZ v).
Definition dbool (v : val) : bool := negb (Z.eqb (dZ v) 0).
Definition dlist {A} (f : val -> A) (v : val) : list A :=
  match v with L l => map f l | I _ => [] end.
Definition dstr (v : val) : list N := dlist dN v.
Definition dopt {A} (f : val -> A) (v : val) : option A :=
  match v with L (x :: _) => Some (f x) | _ => None end.
Definition nth_val (n : nat) (v : val) : val :=
  match v with L l => nth n l (I 0) | I _ => I 0 end.
