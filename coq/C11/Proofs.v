From Coq Require Import ZArith NArith QArith List Bool String.
From Falcon.lib Require Import PyStr.
From Falcon.C11 Require Import Model Spec.
Import ListNotations.
