(* C11 — lemmas live in ProofsNeg (negotiation) and ProofsCache (Handlers). *)
From Falcon.C11 Require Export ProofsNeg ProofsCache.
