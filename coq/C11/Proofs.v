(* C11 — lemmas live in ProofsNeg (negotiation), ProofsCache (Handlers) and ProofsSplit
   (splitting of the range list). *)
From Falcon.C11 Require Export ProofsNeg ProofsCache ProofsSplit.
