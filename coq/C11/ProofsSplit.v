(* C11 — the quote-aware splitting of the media-range list (_split_media_ranges). *)
From Coq Require Import ZArith NArith QArith List Bool String Lia.
From Falcon.lib Require Import PyStr.
From Falcon.gen Require Import ConstsC11.
From Falcon.C11 Require Import Model Spec.
Import ListNotations.
Local Open Scope N_scope.
Local Arguments str_eqb : simpl never.

Definition prepend (r : str) (l : list str) : list str :=
  match l with h :: t => (r ++ h) :: t | [] => [r] end.

(* without a DQUOTE the scanner IS header.split(','): the fast path is a pure optimisation *)
Lemma split_quoted_plain s : forall cur,
  char_in dq s = false -> split_quoted s cur false false = Some (prepend (rev cur) (split_chr comma s)).
Proof.
  induction s as [|c tl IH]; intros cur H; cbn [split_quoted split_chr].
  - cbn [prepend]. rewrite app_nil_r. reflexivity.
  - unfold char_in in H. cbn [existsb] in H. apply orb_false_iff in H as [H1 H2].
    rewrite (N.eqb_sym c dq), H1. destruct (c =? comma) eqn:E.
    + rewrite (IH [] H2). cbn [rev app prepend]. rewrite app_nil_r.
      pose proof (split_chr_nonempty comma tl) as NE.
      destruct (split_chr comma tl) as [|h t]; [contradiction|]. reflexivity.
    + rewrite (IH (c :: cur) H2). pose proof (split_chr_nonempty comma tl) as NE.
      destruct (split_chr comma tl) as [|h t]; [contradiction|]. cbn [prepend rev].
      rewrite <- app_assoc. reflexivity.
Qed.

Theorem split_without_quote f h :
  char_in dq h = false ->
  split_media_ranges f h = split_chr comma h /\
  split_quoted h [] false false = Some (split_chr comma h).
Proof.
  intro H. split.
  - unfold split_media_ranges. rewrite H. destruct f; reflexivity.
  - rewrite (split_quoted_plain h [] H). cbn [rev]. pose proof (split_chr_nonempty comma h) as NE.
    destruct (split_chr comma h); [contradiction|]. reflexivity.
Qed.

(* a well-formed quoted-string body (RFC 9110 5.6.4): no bare DQUOTE, every backslash followed by
   a character; [e] = the previous character was an unconsumed backslash *)
Fixpoint body_ok (e : bool) (b : str) : bool :=
  match b with
  | [] => negb e
  | c :: tl => if e then body_ok false tl
               else if c =? bsl then body_ok true tl
               else if c =? dq then false else body_ok false tl
  end.
Definition qs_body_ok := body_ok false.

Definition plain (s : str) : bool := negb (char_in dq s) && negb (char_in comma s).

Lemma split_quoted_through_plain s : forall rest cur,
  plain s = true -> split_quoted (s ++ rest) cur false false = split_quoted rest (rev s ++ cur) false false.
Proof.
  induction s as [|c tl IH]; intros rest cur H; [reflexivity|].
  unfold plain, char_in in H. cbn [existsb] in H.
  apply andb_true_iff in H as [H1 H2]. apply negb_true_iff in H1, H2.
  apply orb_false_iff in H1 as [D1 D2]. apply orb_false_iff in H2 as [C1 C2].
  cbn [app split_quoted]. rewrite (N.eqb_sym c dq), D1, (N.eqb_sym c comma), C1.
  rewrite IH; [cbn [rev]; rewrite <- app_assoc; reflexivity|].
  unfold plain, char_in. rewrite D2, C2. reflexivity.
Qed.

Lemma split_quoted_through_body b : forall e rest cur,
  body_ok e b = true ->
  split_quoted (b ++ dq :: rest) cur true e = split_quoted rest (dq :: rev b ++ cur) false false.
Proof.
  induction b as [|c tl IH]; intros e rest cur H; cbn [body_ok] in H.
  - destruct e; [discriminate|]. cbn [app split_quoted]. change (dq =? bsl) with false.
    rewrite N.eqb_refl. reflexivity.
  - cbn [app split_quoted]. destruct e.
    + rewrite (IH false rest (c :: cur) H). cbn [rev]. rewrite <- app_assoc. reflexivity.
    + destruct (c =? bsl) eqn:B.
      * rewrite (IH true rest (c :: cur) H). cbn [rev]. rewrite <- app_assoc. reflexivity.
      * destruct (c =? dq) eqn:D; [discriminate|].
        rewrite (IH false rest (c :: cur) H). cbn [rev]. rewrite <- app_assoc. reflexivity.
Qed.

(* a member containing a well-formed quoted string is never split, whatever the string holds *)
Theorem quoted_string_never_split pre body post :
  plain pre = true -> qs_body_ok body = true -> plain post = true ->
  split_media_ranges true (pre ++ dq :: body ++ dq :: post) = [pre ++ dq :: body ++ dq :: post].
Proof.
  intros P B Q. unfold split_media_ranges.
  assert (HQ : char_in dq (pre ++ dq :: body ++ dq :: post) = true).
  { unfold char_in. rewrite existsb_app. cbn [existsb]. rewrite N.eqb_refl. apply orb_true_r. }
  rewrite HQ. cbn [negb].
  rewrite (split_quoted_through_plain pre _ [] P). cbn [split_quoted]. rewrite N.eqb_refl.
  rewrite (split_quoted_through_body body false post _ B).
  replace post with (post ++ []) at 1 by apply app_nil_r.
  rewrite (split_quoted_through_plain post [] _ Q). cbn [split_quoted].
  f_equal. f_equal.
  repeat (rewrite ?rev_app_distr, ?rev_involutive; cbn [rev app]).
  repeat rewrite <- app_assoc. cbn [app]. reflexivity.
Qed.

(* the code as found: a comma inside a quoted parameter value splits the range *)
Theorem quoted_comma_splits_refuted_before_fix :
  exists pre body post, plain pre = true /\ qs_body_ok body = true /\ plain post = true /\
    split_media_ranges false (pre ++ dq :: body ++ dq :: post) <> [pre ++ dq :: body ++ dq :: post].
Proof.
  exists (lit "multipart/form-data; boundary="), (lit "ab,cd"), [].
  repeat split; try reflexivity. vm_compute. discriminate.
Qed.

(* ... which made a multipart body with such a boundary unresolvable (C13's finding) *)
Theorem quoted_boundary_resolves_only_after_fix :
  let d := [(lit "multipart/form-data", 1%N)] in
  let ct := Some (lit "multipart/form-data; boundary=""ab,cd""") in
  resolve_uncached {| c_fixed := false; c_oracle := None |} d (ct, lit "application/json", true) = R415 /\
  resolve_uncached {| c_fixed := true; c_oracle := None |} d (ct, lit "application/json", true) = RHandler 1%N.
Proof. vm_compute. split; reflexivity. Qed.

(* an unterminated quote falls back to the plain split *)
Theorem unterminated_quote_plain_split h :
  split_quoted h [] false false = None -> split_media_ranges true h = split_chr comma h.
Proof.
  intro H. unfold split_media_ranges. rewrite H. destruct (negb (char_in dq h)); reflexivity.
Qed.
