(* C11 — property theorems only. *)
From Coq Require Import ZArith NArith QArith List Bool String.
From Falcon.lib Require Import PyStr.
From Falcon.gen Require Import ConstsC11.
From Falcon.C11 Require Import Model Spec Proofs.
Import ListNotations.
Local Open Scope nat_scope.

(* ---- quality = q of a most specific matching range (exact type over wildcard, exact subtype
   over wildcard, exact parameter names, number of matching parameters, then q), or 0 *)
Theorem C11_quality_spec : forall t rs, rs <> [] -> quality_rel t rs (quality_ranges t rs).
Proof. exact quality_spec. Qed.
Print Assumptions C11_quality_spec.

Theorem C11_match_score_is_the_rule : forall r t,
  match_score r t =
    if matches r t
    then let '(a, b, c, d) := spec4 r t in {| s1 := a; s2 := b; s3 := c; s4 := d; sq := r_q r |}
    else not_matching.
Proof. exact match_score_spec. Qed.
Print Assumptions C11_match_score_is_the_rule.

Theorem C11_quality_oracle_sound : forall o mt h q,
  quality o mt h = Ok q -> quality_ok o mt h q = 1%N.
Proof. exact quality_oracle_sound. Qed.
Print Assumptions C11_quality_oracle_sound.

(* ---- best_match: maximal, first on ties, and only with a positive quality *)
Theorem C11_best_match_maximal_first : forall o cands h r,
  best_match o cands h = Ok r ->
  exists pairs, Forall2 (fun c p => fst p = c /\ quality o c h = Ok (snd p)) cands pairs /\
                best_rel pairs r.
Proof. exact best_match_spec. Qed.
Print Assumptions C11_best_match_maximal_first.

Theorem C11_best_match_never_zero : forall o cands h m,
  best_match o cands h = Ok (Some m) ->
  In m cands /\ exists q, quality o m h = Ok q /\ (0 < q)%Q.
Proof. exact best_match_never_zero. Qed.
Print Assumptions C11_best_match_never_zero.

Theorem C11_best_oracle_sound : forall pairs r, best_rel pairs r -> best_relb pairs r = true.
Proof. exact best_relb_sound. Qed.
Print Assumptions C11_best_oracle_sound.

(* ---- malformed input: only the documented value errors (ENeedOracle is the model asking for
   CPython's float() on a q string outside the decimal domain; with a total table it cannot occur) *)
Theorem C11_quality_errors_documented : forall o mt h e,
  quality o mt h = Err e ->
  (e = EInvalidMediaType /\ parse_media_type mt = None) \/ e = EInvalidMediaRange \/ e = ENeedOracle.
Proof. exact quality_errors_documented. Qed.
Print Assumptions C11_quality_errors_documented.

Theorem C11_best_match_errors_documented : forall o cands h e,
  best_match o cands h = Err e -> e = EInvalidMediaType \/ e = EInvalidMediaRange \/ e = ENeedOracle.
Proof. exact best_match_errors_documented. Qed.
Print Assumptions C11_best_match_errors_documented.

Theorem C11_client_accepts_total : forall o hdr mt e, client_accepts o hdr mt = Err e -> e = ENeedOracle.
Proof. exact client_accepts_total. Qed.
Print Assumptions C11_client_accepts_total.

Theorem C11_client_prefers_total : forall o hdr cs e, client_prefers o hdr cs = Err e -> e = ENeedOracle.
Proof. exact client_prefers_total. Qed.
Print Assumptions C11_client_prefers_total.

Theorem C11_no_need_with_total_oracle : forall t s,
  (forall x, olookup t x <> None) -> parse_q (Some t) s <> QNeed.
Proof. exact no_need_with_total_oracle. Qed.
Print Assumptions C11_no_need_with_total_oracle.

(* ---- Handlers: for every history (any length, any number of copies) the resolver cache holds
   only what the current data designates ... *)
Theorem C11_cache_coherent : forall o initial fresh ops,
  inv o (fst (run_ops o [new_handlers initial fresh] ops)).
Proof. exact cache_coherent. Qed.
Print Assumptions C11_cache_coherent.

(* ... so a resolution never returns a stale handler *)
Theorem C11_resolve_never_stale : forall o initial fresh ops i k,
  let w := fst (run_ops o [new_handlers initial fresh] ops) in
  snd (step o w i (OResolve k)) =
    OResolved (resolve_uncached o (h_data (nth i w empty_obj)) k).
Proof. exact resolve_never_stale. Qed.
Print Assumptions C11_resolve_never_stale.

Theorem C11_resolve_keeps_data : forall o w i k j,
  inv o w -> i < List.length w ->
  h_data (nth j (fst (step o w i (OResolve k))) empty_obj) = h_data (nth j w empty_obj).
Proof. exact resolve_keeps_data. Qed.
Print Assumptions C11_resolve_keeps_data.

(* ---- copies are independent objects with the same items *)
Theorem C11_copy_independent : forall o w i j x,
  j <> i -> i < List.length w -> j < List.length w ->
  nth j (fst (step o w i x)) empty_obj = nth j w empty_obj.
Proof. exact copy_independent. Qed.
Print Assumptions C11_copy_independent.

Theorem C11_copy_same_items_partial : forall d fresh,
  d <> [] -> NoDup (dkeys d) -> h_data (new_handlers d fresh) = d.
Proof. exact copy_same_items. Qed.
Print Assumptions C11_copy_same_items_partial.

(* the excluded case, stated: `Handlers(initial)` does `initial or {defaults}`, so the copy of an
   EMPTY mapping holds the three default handlers *)
Theorem C11_copy_of_empty_gets_defaults : forall fresh,
  List.length fresh = List.length default_handler_keys ->
  dkeys (h_data (new_handlers [] fresh)) = default_handler_keys.
Proof. exact copy_of_empty_gets_defaults. Qed.
Print Assumptions C11_copy_of_empty_gets_defaults.

(* ---- the list of media ranges is split at commas OUTSIDE quoted strings
   (fixes/C13-quoted-comma-media-ranges.patch; c_fixed := false is header.split(',') as found) *)
Theorem C11_split_without_quote : forall f h,
  char_in dq h = false ->
  split_media_ranges f h = split_chr comma h /\
  split_quoted h [] false false = Some (split_chr comma h).
Proof. exact split_without_quote. Qed.
Print Assumptions C11_split_without_quote.

Theorem C11_quoted_string_never_split : forall pre body post,
  plain pre = true -> qs_body_ok body = true -> plain post = true ->
  split_media_ranges true (pre ++ dq :: body ++ dq :: post) = [pre ++ dq :: body ++ dq :: post].
Proof. exact quoted_string_never_split. Qed.
Print Assumptions C11_quoted_string_never_split.

Theorem C11_unterminated_quote_plain_split : forall h,
  split_quoted h [] false false = None -> split_media_ranges true h = split_chr comma h.
Proof. exact unterminated_quote_plain_split. Qed.
Print Assumptions C11_unterminated_quote_plain_split.

Theorem C11_quoted_comma_splits_refuted_before_fix :
  exists pre body post, plain pre = true /\ qs_body_ok body = true /\ plain post = true /\
    split_media_ranges false (pre ++ dq :: body ++ dq :: post) <> [pre ++ dq :: body ++ dq :: post].
Proof. exact quoted_comma_splits_refuted_before_fix. Qed.
Print Assumptions C11_quoted_comma_splits_refuted_before_fix.

Theorem C11_quoted_boundary_resolves_only_after_fix :
  let d := [(lit "multipart/form-data", 1%N)] in
  let ct := Some (lit "multipart/form-data; boundary=""ab,cd""") in
  resolve_uncached {| c_fixed := false; c_oracle := None |} d (ct, lit "application/json", true) = R415 /\
  resolve_uncached {| c_fixed := true; c_oracle := None |} d (ct, lit "application/json", true) = RHandler 1%N.
Proof. exact quoted_boundary_resolves_only_after_fix. Qed.
Print Assumptions C11_quoted_boundary_resolves_only_after_fix.

Example C11_split_examples :
  split_media_ranges true (lit "a/b;k=""x,y"", c/d") = [lit "a/b;k=""x,y"""; lit " c/d"] /\
  split_media_ranges true (lit "a/b;k=""x\"",y"", c/d") = [lit "a/b;k=""x\"",y"""; lit " c/d"] /\
  split_media_ranges true (lit "a/b;k=""x\\"", c/d") = [lit "a/b;k=""x\\"""; lit " c/d"] /\
  split_media_ranges true (lit "a/b;k=""x, c/d") = [lit "a/b;k=""x"; lit " c/d"] /\
  quality cfg0 (lit "c/d") (lit "a/b;k=""x,y"";q=0.2, c/d;q=0.5") = Ok (5 # 10).
Proof. vm_compute. repeat split; reflexivity. Qed.

(* ---- non-vacuity and documented corner cases *)
Example C11_specificity_example :
  (* text/html;level=1 beats text/html beats text/* beats */* , whatever the order and the q *)
  let h := lit "*/*;q=0.9, text/*;q=0.1, text/html;level=1;q=0.4, text/html;q=0.7" in
  quality cfg0 (lit "text/html;level=1") h = Ok (4 # 10) /\
  quality cfg0 (lit "text/html") h = Ok (7 # 10) /\
  quality cfg0 (lit "text/plain") h = Ok (1 # 10) /\
  quality cfg0 (lit "image/png") h = Ok (9 # 10) /\
  best_match cfg0 [lit "text/plain"; lit "image/png"; lit "text/html"] h = Ok (Some (lit "image/png")) /\
  best_match cfg0 [lit "a/b"] (lit "a/b;q=0") = Ok None /\
  quality cfg0 (lit "a/b") (lit "a/b;q=1.5") = Err EInvalidMediaRange /\
  quality cfg0 (lit "ab") (lit "a/b") = Err EInvalidMediaType /\
  quality cfg0 (lit "a/b") (lit "a/b;q=1e-1") = Err ENeedOracle.
Proof. vm_compute. repeat split; reflexivity. Qed.

(* float() on decimal literals, as exact rationals *)
Example C11_float_decimal_model :
  py_float_dec (lit "0.125") = Some (125 # 1000) /\ py_float_dec (lit " +.5 ") = Some (5 # 10) /\
  py_float_dec (lit "1.") = Some (1 # 1) /\ py_float_dec (lit "-0") = Some (0 # 1) /\
  py_float_dec (lit "1e0") = None /\ py_float_dec (lit "0_1") = None /\
  py_float_dec (lit "0.1234567890123456") = None.
Proof. vm_compute. repeat split; reflexivity. Qed.

(* matching is by exact (case-sensitive) comparison of type and subtype, as `quality` documents
   ("the types must either match exactly, or as wildcard"): an upper-case content type does not
   resolve with the default mapping.  Observation, judged outside C11's statement (see notes). *)
Example C11_matching_is_case_sensitive :
  let d := [(lit "application/json", 1%N)] in
  quality cfg0 (lit "APPLICATION/JSON") (lit "application/json") = Ok (0 # 1) /\
  resolve_uncached cfg0 d (Some (lit "APPLICATION/JSON"), lit "application/json", true) = R415 /\
  resolve_uncached cfg0 d (Some (lit "application/json; charset=UTF-8"), lit "text/plain", true) = RHandler 1%N.
Proof. vm_compute. repeat split; reflexivity. Qed.

Example C11_cache_history_nontrivial :
  let ops := [(0, OResolve (Some (lit "text/plain; charset=utf-8"), lit "application/json", true));
              (0, OSet (lit "text/plain; charset=utf-8") 2%N);
              (0, OResolve (Some (lit "text/plain; charset=utf-8"), lit "application/json", true));
              (0, OCopy [7%N; 8%N; 9%N]); (1, ODel (lit "text/plain; charset=utf-8"));
              (1, OResolve (Some (lit "text/plain; charset=utf-8"), lit "application/json", false));
              (0, OResolve (Some (lit "text/plain; charset=utf-8"), lit "application/json", true))] in
  snd (run_ops cfg0 [new_handlers [(lit "text/*", 1%N)] []] ops) =
    [OResolved (RHandler 1%N); ONone; OResolved (RHandler 2%N); OCopied 1; ONone;
     OResolved (RHandler 1%N); OResolved (RHandler 2%N)].
Proof. vm_compute. reflexivity. Qed.
