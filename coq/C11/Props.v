From Coq Require Import ZArith NArith QArith List Bool String.
From Falcon.lib Require Import PyStr.
From Falcon.C11 Require Import Model Spec Proofs.
Import ListNotations.
Theorem C11_tmp : True. Proof. exact I. Qed.
Print Assumptions C11_tmp.
