From Coq Require Import ZArith NArith QArith List Bool String.
From Coq Require Import ExtrOcamlBasic.
From Falcon.lib Require Import Wire PyStr.
From Falcon.C11 Require Import Model Spec.
Import ListNotations.
Open Scope Z_scope.

Definition v_Q (q : Q) : val := L [I (Qnum q); I (Zpos (Qden q))].
Definition d_Q (v : val) : Q :=
  Qmake (dZ (nth_val 0 v)) (match dZ (nth_val 1 v) with Zpos p => p | _ => 1%positive end).

Definition d_oracle (v : val) : oracle :=
  dopt (dlist (fun e => (dstr (nth_val 0 e), dopt d_Q (nth_val 1 e)))) v.

Definition d_cfg (v : val) : cfg :=
  {| c_fixed := dbool (nth_val 0 v); c_oracle := d_oracle (nth_val 1 v) |}.

Definition v_err (e : err) : val :=
  I (match e with EInvalidMediaType => 0 | EInvalidMediaRange => 1 | ENeedOracle => 2 | ECrash => 3 end).
Definition v_res {A} (f : A -> val) (r : res A) : val :=
  match r with Ok a => L [I 0; f a] | Err e => L [I 1; v_err e] end.

Definition v_params (p : params) : val := vlist (vpair vstr vstr) p.

Definition d_ckey (v : val) : ckey :=
  (dopt dstr (nth_val 0 v), dstr (nth_val 1 v), dbool (nth_val 2 v)).

Definition v_rres (r : rres) : val :=
  match r with
  | RHandler h => L [I 0; vN h]
  | RNone => L [I 1]
  | R415 => L [I 2]
  | RNeed => L [I 3]
  end.

Definition d_data (v : val) : hdata := dlist (fun p => (dstr (nth_val 0 p), dN (nth_val 1 p))) v.
Definition v_data (d : hdata) : val := vlist (fun p => L [vstr (fst p); vN (snd p)]) d.

Definition d_op (v : val) : op :=
  match v with
  | L [I 0; k; h] => OSet (dstr k) (dN h)
  | L [I 1; k] => ODel (dstr k)
  | L [I 2; l] => OUpdate (d_data l)
  | L [I 3; k; d] => OPop (dstr k) (dopt dN d)
  | L [I 4] => OClear
  | L [I 5; k; h] => OSetdefault (dstr k) (dN h)
  | L [I 6; f] => OCopy (dlist dN f)
  | L [I 7; k] => OResolve (d_ckey k)
  | L [I 8; k] => OGet (dstr k)
  | _ => OKeys
  end.

Definition v_obs (o : obs) : val :=
  match o with
  | ONone => L [I 0]
  | OKeyError => L [I 1]
  | OHandler h => L [I 2; vopt vN h]
  | OResolved r => L [I 3; v_rres r]
  | OCopied i => L [I 4; vnat i]
  | OKeyList l => L [I 5; vlist vstr l]
  end.

Definition run (v : val) : val :=
  match v with
  | L [I 0; o; mt; h] => v_res v_Q (quality (d_cfg o) (dstr mt) (dstr h))
  | L [I 1; o; cs; h] => v_res (vopt vstr) (best_match (d_cfg o) (dlist dstr cs) (dstr h))
  | L [I 2; o; hdr; mt] => v_res vbool (client_accepts (d_cfg o) (dopt dstr hdr) (dstr mt))
  | L [I 3; o; hdr; cs] => v_res (vopt vstr) (client_prefers (d_cfg o) (dopt dstr hdr) (dlist dstr cs))
  | L [I 4; line] => let '(k, p) := parse_header (dstr line) in L [vstr k; v_params p]
  | L [I 5; o; init; fresh; ops] =>
    let '(w, obs) := run_ops (d_cfg o) [new_handlers (d_data init) (dlist dN fresh)]
                             (dlist (fun p => (dnat (nth_val 0 p), d_op (nth_val 1 p))) ops) in
    L [vlist v_obs obs; vlist (fun h => v_data (h_data h)) w]
  | L [I 6; o; d; k] => v_rres (resolve_uncached (d_cfg o) (d_data d) (d_ckey k))
  | L [I 7; o; mt; h; q] => vN (quality_ok (d_cfg o) (dstr mt) (dstr h) (d_Q q))
  | L [I 8; pairs; r] =>
    vbool (best_relb (dlist (fun p => (dstr (nth_val 0 p), d_Q (nth_val 1 p))) pairs) (dopt dstr r))
  | L [I 9; s] => vopt v_Q (py_float_dec (dstr s))
  | L [I 10; f; h] => vlist vstr (split_media_ranges (dbool f) (dstr h))
  | _ => L [I (-1)]
  end.

Extraction "C11/model.ml" run.
