(* C11 — the documented matching rule as a relation, and the boolean oracles the harness
   evaluates on what the implementation returned. *)
From Coq Require Import ZArith NArith QArith List Bool String.
From Falcon.lib Require Import PyStr.
From Falcon.gen Require Import ConstsC11.
From Falcon.C11 Require Import Model.
Import ListNotations.
Open Scope Z_scope.

(* ---- does a media range match a media type, and how specifically *)
Definition is_star (s : str) : bool := str_eqb s [star].
Definition part_ok (a b : str) : bool := is_star a || is_star b || str_eqb a b.
Definition common (r : mrange) (t : mtype) : list str :=
  filter (fun k => mem k (keys (t_params t))) (keys (r_params r)).
Definition params_ok (r : mrange) (t : mtype) : bool :=
  forallb (fun k => match pget (r_params r) k, pget (t_params t) k with
                    | Some a, Some b => str_eqb a b
                    | _, _ => true
                    end) (common r t).
Definition matches (r : mrange) (t : mtype) : bool :=
  part_ok (r_main r) (t_main t) && part_ok (r_sub r) (t_sub t) && params_ok r t.

(* specificity: (type exact, subtype exact, parameter names exact, # common parameters) *)
Definition spec4 (r : mrange) (t : mtype) : Z * Z * Z * Z :=
  ((if is_star (r_main r) || is_star (t_main t) then 0 else 1)%Z,
   (if is_star (r_sub r) || is_star (t_sub t) then 0 else 1)%Z,
   (if subset (keys (r_params r)) (keys (t_params t)) && subset (keys (t_params t)) (keys (r_params r))
    then 1 else 0)%Z,
   Z.of_nat (List.length (common r t))).

Definition lex4_lt (a b : Z * Z * Z * Z) : Prop :=
  let '(a1, a2, a3, a4) := a in let '(b1, b2, b3, b4) := b in
  (a1 < b1 \/ (a1 = b1 /\ (a2 < b2 \/ (a2 = b2 /\ (a3 < b3 \/ (a3 = b3 /\ a4 < b4))))))%Z.

(* r' is at most as good as r for t: less specific, or equally specific with q' <= q *)
Definition at_most (t : mtype) (r' r : mrange) : Prop :=
  lex4_lt (spec4 r' t) (spec4 r t) \/ (spec4 r' t = spec4 r t /\ (r_q r' <= r_q r)%Q).

(* the value `quality` must return *)
Definition quality_rel (t : mtype) (rs : list mrange) (q : Q) : Prop :=
  (forall r, In r rs -> matches r t = false) /\ (q == 0)%Q \/
  exists r, In r rs /\ matches r t = true /\ (q == r_q r)%Q /\
            forall r', In r' rs -> matches r' t = true -> at_most t r' r.

(* boolean version *)
Definition lex4_ltb (a b : Z * Z * Z * Z) : bool :=
  let '(a1, a2, a3, a4) := a in let '(b1, b2, b3, b4) := b in
  (a1 <? b1) || ((a1 =? b1) && ((a2 <? b2) || ((a2 =? b2) && ((a3 <? b3) || ((a3 =? b3) && (a4 <? b4))))))%Z.
Definition lex4_eqb (a b : Z * Z * Z * Z) : bool :=
  let '(a1, a2, a3, a4) := a in let '(b1, b2, b3, b4) := b in
  ((a1 =? b1) && (a2 =? b2) && (a3 =? b3) && (a4 =? b4))%Z.
Definition at_mostb (t : mtype) (r' r : mrange) : bool :=
  lex4_ltb (spec4 r' t) (spec4 r t) || (lex4_eqb (spec4 r' t) (spec4 r t) && Qle_bool (r_q r') (r_q r)).
Definition quality_relb (t : mtype) (rs : list mrange) (q : Q) : bool :=
  (forallb (fun r => negb (matches r t)) rs && Qeq_bool q 0) ||
  existsb (fun r => matches r t && Qeq_bool q (r_q r) &&
                    forallb (fun r' => negb (matches r' t) || at_mostb t r' r) rs) rs.

(* oracle on an implementation quality value: 1 ok, 0 violated, 2 not applicable (the header or
   the media type does not parse) *)
Definition quality_ok (o : cfg) (media_type header : str) (q : Q) : N :=
  match parse_media_type media_type, parse_media_ranges o header with
  | Some t, Ok rs => if quality_relb t rs q then 1%N else 0%N
  | _, _ => 2%N
  end.

(* ---- best_match: first maximal candidate, only if its quality is positive *)
Definition best_rel (pairs : list (str * Q)) (result : option str) : Prop :=
  match result with
  | None => forall p, In p pairs -> (snd p <= 0)%Q
  | Some m => exists pre q post, pairs = pre ++ (m, q) :: post /\ (0 < q)%Q /\
                                 (forall p, In p pre -> (snd p < q)%Q) /\
                                 (forall p, In p post -> (snd p <= q)%Q)
  end.

Definition best_relb (pairs : list (str * Q)) (result : option str) : bool :=
  match result with
  | None => forallb (fun p => Qle_bool (snd p) 0) pairs
  | Some m =>
    existsb (fun i => match nth_error pairs i with
                      | Some (c, q) =>
                        str_eqb c m && Qlt_bool 0 q
                        && forallb (fun p => Qlt_bool (snd p) q) (firstn i pairs)
                        && forallb (fun p => Qle_bool (snd p) q) (skipn (S i) pairs)
                      | None => false
                      end) (seq 0 (List.length pairs))
  end.
