(* C11 — Handlers: for every history of mapping operations interleaved with resolutions, the
   resolver cache only holds what the CURRENT data designates; copies are independent. *)
From Coq Require Import ZArith NArith QArith List Bool String Lia.
From Falcon.lib Require Import PyStr.
From Falcon.gen Require Import ConstsC11.
From Falcon.C11 Require Import Model Spec.
Import ListNotations.
Local Arguments str_eqb : simpl never.
Local Open Scope nat_scope.

Lemma opt_str_eqb_eq a b : opt_str_eqb a b = true -> a = b.
Proof.
  destruct a, b; cbn; try discriminate; try reflexivity. intro H. apply str_eqb_eq in H. congruence.
Qed.

Lemma ckey_eqb_eq a b : ckey_eqb a b = true -> a = b.
Proof.
  destruct a as [[m1 d1] r1]. destruct b as [[m2 d2] r2]. unfold ckey_eqb. intro H.
  apply andb_true_iff in H as [H H3]. apply andb_true_iff in H as [H1 H2].
  apply opt_str_eqb_eq in H1. apply str_eqb_eq in H2. apply Bool.eqb_prop in H3. congruence.
Qed.

(* every cached entry is what the uncached resolver computes on the current data *)
Definition coherent (o : cfg) (h : hobj) : Prop :=
  Forall (fun kv => snd kv = resolve_uncached o (h_data h) (fst kv)) (h_cache h).
Definition inv (o : cfg) (w : world) : Prop := Forall (coherent o) w.

Lemma lru_get_in c k v : lru_get c k = Some v -> exists k', In (k', v) c /\ k = k'.
Proof.
  induction c as [|[k0 v0] tl IH]; cbn [lru_get]; [discriminate|].
  destruct (ckey_eqb k k0) eqn:E.
  - intro H. injection H as <-. exists k0. split; [left; reflexivity | apply ckey_eqb_eq; exact E].
  - intro H. destruct (IH H) as [k' [Hin Hk]]. exists k'. split; [right; exact Hin | exact Hk].
Qed.

Lemma lru_remove_incl c k x : In x (lru_remove c k) -> In x c.
Proof.
  induction c as [|[k0 v0] tl IH]; cbn [lru_remove]; [tauto|].
  destruct (ckey_eqb k k0); [intro H; right; exact H|].
  intros [<-|H]; [left; reflexivity | right; apply IH; exact H].
Qed.

Lemma firstn_incl {A} n (l : list A) x : In x (firstn n l) -> In x l.
Proof. revert l. induction n as [|n IH]; intros [|y tl]; cbn; try tauto. intros [<-|H]; [left; reflexivity | right; apply IH; exact H]. Qed.

(* the answer is never stale, and the cache stays coherent *)
Lemma resolve_ok o h k : coherent o h ->
  snd (resolve o h k) = resolve_uncached o (h_data h) k /\
  coherent o (fst (resolve o h k)) /\ h_data (fst (resolve o h k)) = h_data h.
Proof.
  intro C. unfold resolve. destruct (lru_get (h_cache h) k) as [v|] eqn:G.
  - destruct (lru_get_in _ _ _ G) as [k' [Hin ->]].
    unfold coherent in C. rewrite Forall_forall in C. pose proof (C _ Hin) as E. cbn [fst snd] in *.
    split; [exact E|]. split; [|reflexivity].
    unfold coherent. cbn [h_cache h_data]. constructor; [exact E|].
    apply Forall_forall. intros x Hx. apply C. eapply lru_remove_incl. exact Hx.
  - assert (K : coherent o {| h_data := h_data h;
                              h_cache := firstn resolver_cache_size
                                           ((k, resolve_uncached o (h_data h) k) :: h_cache h) |}).
    { unfold coherent. cbn [h_cache h_data]. apply Forall_forall. intros x Hx.
      apply firstn_incl in Hx. destruct Hx as [<-|Hx]; [reflexivity|].
      unfold coherent in C. rewrite Forall_forall in C. apply C. exact Hx. }
    destruct (resolve_uncached o (h_data h) k) eqn:R; cbn [fst snd];
      (split; [reflexivity|]; split; [|reflexivity]); first [exact C | exact K].
Qed.

Lemma coherent_empty_cache o d : coherent o {| h_data := d; h_cache := [] |}.
Proof. constructor. Qed.

Lemma h_update_coherent o l : forall h, coherent o h -> coherent o (h_update h l).
Proof.
  induction l as [|kv tl IH]; intros h C; cbn [h_update fold_left]; [exact C|].
  apply IH. apply coherent_empty_cache.
Qed.

Lemma h_clear_coherent o n : forall h, coherent o h -> coherent o (h_clear n h).
Proof.
  induction n as [|n IH]; intros h C; cbn [h_clear]; [exact C|].
  destruct (h_data h) as [|[k v] tl] eqn:D; [exact C|].
  unfold h_del. destruct (dget (h_data h) k); [|exact C]. apply IH. apply coherent_empty_cache.
Qed.

Lemma new_handlers_coherent o d f : coherent o (new_handlers d f).
Proof.
  unfold new_handlers. destruct d; apply h_update_coherent; apply coherent_empty_cache.
Qed.

Lemma inv_upd o w i h : inv o w -> coherent o h -> inv o (upd w i h).
Proof.
  unfold inv, upd. intros W C. apply Forall_app. split.
  - apply Forall_forall. intros x Hx. rewrite Forall_forall in W. apply W. eapply firstn_incl. exact Hx.
  - constructor; [exact C|]. apply Forall_forall. intros x Hx. rewrite Forall_forall in W. apply W.
    clear -Hx. revert w Hx. induction (S i) as [|n IH]; intros [|y tl]; cbn; try tauto.
    intro H. right. apply IH. exact H.
Qed.

Lemma nth_coherent o w i : inv o w -> coherent o (nth i w empty_obj).
Proof.
  intro W. destruct (nth_in_or_default i w empty_obj) as [H| ->].
  - unfold inv in W. rewrite Forall_forall in W. apply W. exact H.
  - constructor.
Qed.

Lemma step_inv o w i x : inv o w -> inv o (fst (step o w i x)).
Proof.
  intro W. pose proof (nth_coherent o w i W) as C. destruct x; cbn [step].
  - cbn [fst]. apply inv_upd; [exact W | apply coherent_empty_cache].
  - unfold h_del. destruct (dget (h_data (nth i w empty_obj)) k); cbn [fst]; [|exact W].
    apply inv_upd; [exact W | apply coherent_empty_cache].
  - cbn [fst]. apply inv_upd; [exact W | apply h_update_coherent; exact C].
  - destruct (dget (h_data (nth i w empty_obj)) k) eqn:D.
    + unfold h_del. rewrite D. cbn [fst]. apply inv_upd; [exact W | apply coherent_empty_cache].
    + destruct default; exact W.
  - cbn [fst]. apply inv_upd; [exact W | apply h_clear_coherent; exact C].
  - destruct (dget (h_data (nth i w empty_obj)) k); cbn [fst]; [exact W|].
    apply inv_upd; [exact W | apply coherent_empty_cache].
  - cbn [fst]. unfold inv. apply Forall_app. split; [exact W|]. constructor; [apply new_handlers_coherent|constructor].
  - destruct (resolve_ok o (nth i w empty_obj) k C) as [_ [C' _]].
    destruct (resolve o (nth i w empty_obj) k) as [h' r]. cbn [fst] in *. apply inv_upd; assumption.
  - destruct (dget (h_data (nth i w empty_obj)) k); exact W.
  - exact W.
Qed.

Lemma run_inv o l : forall w, inv o w -> inv o (fst (run_ops o w l)).
Proof.
  induction l as [|[i x] tl IH]; intros w W; cbn [run_ops]; [exact W|].
  pose proof (step_inv o w i x W) as W1. destruct (step o w i x) as [w1 ob]. cbn [fst] in W1.
  specialize (IH w1 W1). destruct (run_ops o w1 tl) as [w2 obs]. exact IH.
Qed.

(* for ALL histories of set/delete/update/pop/clear/setdefault/copy/resolve over any number of
   copies, starting from Handlers(initial) *)
Theorem cache_coherent o initial fresh ops :
  inv o (fst (run_ops o [new_handlers initial fresh] ops)).
Proof. apply run_inv. constructor; [apply new_handlers_coherent|constructor]. Qed.

(* ... hence a resolution after any history returns what the current data designates *)
Theorem resolve_never_stale o initial fresh ops i k :
  let w := fst (run_ops o [new_handlers initial fresh] ops) in
  snd (step o w i (OResolve k)) =
    OResolved (resolve_uncached o (h_data (nth i w empty_obj)) k).
Proof.
  intro w. cbn [step].
  pose proof (nth_coherent o w i (cache_coherent o initial fresh ops)) as C.
  destruct (resolve_ok o (nth i w empty_obj) k C) as [R _].
  destruct (resolve o (nth i w empty_obj) k) as [h' r]. cbn [snd] in *. rewrite R. reflexivity.
Qed.

Lemma nth_firstn_lt {A} (l : list A) : forall i j d, j < i -> nth j (firstn i l) d = nth j l d.
Proof.
  induction l as [|x tl IH]; intros i j d H; [destruct i; reflexivity|].
  destruct i as [|i]; [lia|]. destruct j as [|j]; [reflexivity|]. cbn [firstn nth]. apply IH. lia.
Qed.

Lemma nth_skipn_add {A} (l : list A) : forall i n d, nth n (skipn i l) d = nth (i + n) l d.
Proof.
  induction l as [|x tl IH]; intros i n d; [destruct i, n; reflexivity|].
  destruct i as [|i]; [reflexivity|]. cbn [skipn plus nth]. apply IH.
Qed.

Lemma nth_upd_other w i j h : j <> i -> i < List.length w -> nth j (upd w i h) empty_obj = nth j w empty_obj.
Proof.
  intros Hne Hi. unfold upd. destruct (Nat.lt_ge_cases j i) as [Hj|Hj].
  - rewrite app_nth1 by (rewrite firstn_length_le by lia; exact Hj). apply nth_firstn_lt. exact Hj.
  - rewrite app_nth2; rewrite firstn_length_le by lia; [|lia].
    destruct (j - i) as [|n] eqn:E; [lia|]. cbn [nth]. rewrite nth_skipn_add. f_equal. lia.
Qed.

Lemma nth_upd_same w i h : i < List.length w -> nth i (upd w i h) empty_obj = h.
Proof.
  intro Hi. unfold upd. rewrite app_nth2; rewrite firstn_length_le by lia; [|lia].
  rewrite Nat.sub_diag. reflexivity.
Qed.

(* a resolution does not change any mapping *)
Theorem resolve_keeps_data o w i k j :
  inv o w -> i < List.length w ->
  h_data (nth j (fst (step o w i (OResolve k))) empty_obj) = h_data (nth j w empty_obj).
Proof.
  intros W Hi. cbn [step]. pose proof (nth_coherent o w i W) as C.
  destruct (resolve_ok o (nth i w empty_obj) k C) as [_ [_ D]].
  destruct (resolve o (nth i w empty_obj) k) as [h' r]. cbn [fst] in *.
  destruct (Nat.eq_dec j i) as [->|Hne].
  - rewrite nth_upd_same by exact Hi. exact D.
  - rewrite nth_upd_other by assumption. reflexivity.
Qed.

(* ---- copies *)
Definition dkeys (d : hdata) : list str := map fst d.

Lemma dset_fresh d k v : ~ In k (dkeys d) -> dset d k v = d ++ [(k, v)].
Proof.
  induction d as [|[k0 v0] tl IH]; intro H; cbn [dset app]; [reflexivity|].
  destruct (str_eqb k k0) eqn:E.
  - apply str_eqb_eq in E. subst. exfalso. apply H. left. reflexivity.
  - rewrite IH; [reflexivity|]. intro H2. apply H. right. exact H2.
Qed.

Lemma h_update_cons h k v tl : h_update h ((k, v) :: tl) = h_update (h_set h k v) tl.
Proof. reflexivity. Qed.

Lemma h_update_fresh l : forall acc c,
  NoDup (dkeys acc ++ dkeys l) ->
  h_data (h_update {| h_data := acc; h_cache := c |} l) = acc ++ l.
Proof.
  induction l as [|[k v] tl IH]; intros acc c N.
  - cbn. rewrite app_nil_r. reflexivity.
  - rewrite h_update_cons. unfold h_set. cbn [h_data].
    assert (Hk : ~ In k (dkeys acc)).
    { cbn [dkeys map fst] in N. apply NoDup_remove_2 in N. intro H. apply N. apply in_or_app. left. exact H. }
    rewrite (dset_fresh acc k v Hk).
    rewrite IH; [rewrite <- app_assoc; reflexivity|].
    unfold dkeys in *. rewrite map_app. cbn [map fst]. rewrite <- app_assoc. exact N.
Qed.

(* a copy of a non-empty mapping holds the same items, with an empty cache of its own *)
Theorem copy_same_items d fresh :
  d <> [] -> NoDup (dkeys d) -> h_data (new_handlers d fresh) = d.
Proof.
  intros NE N. unfold new_handlers. destruct d as [|x tl]; [contradiction|].
  unfold empty_obj. rewrite h_update_fresh; [reflexivity | exact N].
Qed.

(* quirk, stated: a copy of an EMPTY mapping gets the default handlers (`initial or {...}`) *)
Theorem copy_of_empty_gets_defaults fresh :
  List.length fresh = List.length default_handler_keys ->
  dkeys (h_data (new_handlers [] fresh)) = default_handler_keys.
Proof.
  intro L. unfold new_handlers.
  destruct fresh as [|f1 [|f2 [|f3 [|f4 tl]]]]; try discriminate L. vm_compute. reflexivity.
Qed.

(* operations on one object leave every other object untouched *)
Theorem copy_independent o w i j x :
  j <> i -> i < List.length w -> j < List.length w ->
  nth j (fst (step o w i x)) empty_obj = nth j w empty_obj.
Proof.
  intros Hne Hi Hj. destruct x; cbn [step];
    repeat match goal with
           | |- context [match ?e with _ => _ end] => destruct e
           end; cbn [fst]; try reflexivity; try (apply nth_upd_other; assumption).
  apply app_nth1. exact Hj.
Qed.

(* the copy itself is a new object appended to the world; the source is unchanged *)
Theorem copy_appends o w i fresh :
  fst (step o w i (OCopy fresh)) = w ++ [new_handlers (h_data (nth i w empty_obj)) fresh].
Proof. reflexivity. Qed.

(* mapping keys stay distinct *)
Lemma dkeys_dset d k v k' : In k' (dkeys (dset d k v)) <-> k' = k \/ In k' (dkeys d).
Proof.
  induction d as [|[k0 v0] tl IH]; cbn [dset dkeys map In].
  - intuition.
  - destruct (str_eqb k k0) eqn:E; cbn [dkeys map In fst].
    + apply str_eqb_eq in E. subst. intuition.
    + unfold dkeys in IH. rewrite IH. intuition.
Qed.

Lemma nodup_dset d k v : NoDup (dkeys d) -> NoDup (dkeys (dset d k v)).
Proof.
  induction d as [|[k0 v0] tl IH]; cbn [dset dkeys map]; intro N.
  - constructor; [intros []|constructor].
  - inversion N as [|? ? Hn Nt]; subst. destruct (str_eqb k k0) eqn:E; cbn [dkeys map fst].
    + constructor; assumption.
    + constructor; [|apply IH; exact Nt].
      intro H. apply dkeys_dset in H as [H|H]; [|contradiction].
      subst. rewrite str_eqb_refl in E. discriminate.
Qed.
