(* C11 — negotiation: quality is the q of a most specific matching range, best_match is the
   first maximal candidate of positive quality, only documented errors. *)
From Coq Require Import ZArith NArith QArith List Bool String Lia ZifyBool.
From Falcon.lib Require Import PyStr.
From Falcon.gen Require Import ConstsC11.
From Falcon.C11 Require Import Model Spec.
Import ListNotations.
Open Scope Z_scope.
Local Arguments str_eqb : simpl never.

(* the table value the model hard-codes *)
Lemma not_matching_is_the_codes :
  [s1 not_matching; s2 not_matching; s3 not_matching; s4 not_matching] = not_matching4.
Proof. reflexivity. Qed.

(* ---- Q booleans *)
Lemma Qlt_bool_iff a b : Qlt_bool a b = true <-> (a < b)%Q.
Proof.
  unfold Qlt_bool. rewrite negb_true_iff. split.
  - intro H. apply Qnot_le_lt. intro L. apply Qle_bool_iff in L. congruence.
  - intro H. destruct (Qle_bool b a) eqn:E; [|reflexivity].
    apply Qle_bool_iff in E. exfalso. exact (Qlt_not_le _ _ H E).
Qed.

Lemma Qlt_bool_false a b : Qlt_bool a b = false <-> (b <= a)%Q.
Proof.
  unfold Qlt_bool. rewrite negb_false_iff. apply Qle_bool_iff.
Qed.

(* ---- the tuple order *)
Definition score_le (a b : score) : Prop :=
  s1 a < s1 b \/ (s1 a = s1 b /\ (s2 a < s2 b \/ (s2 a = s2 b /\ (s3 a < s3 b \/ (s3 a = s3 b /\
  (s4 a < s4 b \/ (s4 a = s4 b /\ (sq a <= sq b)%Q))))))).

Lemma score_gt_false a b : score_gt a b = false <-> score_le a b.
Proof.
  unfold score_gt, score_le.
  destruct (Z.eqb (s1 a) (s1 b)) eqn:E1; cbn [negb]; [|split; [intro; left; lia | intros [H|[H _]]; lia]].
  destruct (Z.eqb (s2 a) (s2 b)) eqn:E2; cbn [negb];
    [|split; [intro; right; split; [lia|left; lia] | intros [H|[_ [H|[H _]]]]; lia]].
  destruct (Z.eqb (s3 a) (s3 b)) eqn:E3; cbn [negb];
    [|split; [intro; right; split; [lia|right; split; [lia|left; lia]]
             | intros [H|[_ [H|[_ [H|[H _]]]]]]; lia]].
  destruct (Z.eqb (s4 a) (s4 b)) eqn:E4; cbn [negb];
    [|split; [intro; right; split; [lia|right; split; [lia|right; split; [lia|left; lia]]]
             | intros [H|[_ [H|[_ [H|[_ [H|[H _]]]]]]]]; lia]].
  rewrite Qlt_bool_false. split.
  - intro H. right; split; [lia|right; split; [lia|right; split; [lia|right; split; [lia|exact H]]]].
  - intros [H|[_ [H|[_ [H|[_ [H|[_ H]]]]]]]]; try lia. exact H.
Qed.

Lemma score_gt_true a b : score_gt a b = true -> score_le b a.
Proof.
  unfold score_gt, score_le.
  destruct (Z.eqb (s1 a) (s1 b)) eqn:E1; cbn [negb]; [|intro; left; lia].
  destruct (Z.eqb (s2 a) (s2 b)) eqn:E2; cbn [negb]; [|intro; right; split; [lia|left; lia]].
  destruct (Z.eqb (s3 a) (s3 b)) eqn:E3; cbn [negb];
    [|intro; right; split; [lia|right; split; [lia|left; lia]]].
  destruct (Z.eqb (s4 a) (s4 b)) eqn:E4; cbn [negb];
    [|intro; right; split; [lia|right; split; [lia|right; split; [lia|left; lia]]]].
  intro H. apply Qlt_bool_iff in H.
  right; split; [lia|right; split; [lia|right; split; [lia|right; split; [lia|apply Qlt_le_weak; exact H]]]].
Qed.

Lemma score_le_refl a : score_le a a.
Proof. unfold score_le. right; split; [lia|right; split; [lia|right; split; [lia|right; split; [lia|apply Qle_refl]]]]. Qed.

Lemma score_le_trans a b c : score_le a b -> score_le b c -> score_le a c.
Proof.
  unfold score_le.
  intros [H1|[E1 [H2|[E2 [H3|[E3 [H4|[E4 H5]]]]]]]] [G1|[F1 [G2|[F2 [G3|[F3 [G4|[F4 G5]]]]]]]];
    try (left; lia);
    try (right; split; [lia|]; left; lia);
    try (right; split; [lia|]; right; split; [lia|]; left; lia);
    try (right; split; [lia|]; right; split; [lia|]; right; split; [lia|]; left; lia).
  right; split; [lia|]; right; split; [lia|]; right; split; [lia|]; right; split; [lia|].
  eapply Qle_trans; eassumption.
Qed.

Lemma max_score_spec l : forall cur,
  In (max_score cur l) (cur :: l) /\ forall x, In x (cur :: l) -> score_le x (max_score cur l).
Proof.
  induction l as [|x tl IH]; intro cur; cbn [max_score].
  - split; [left; reflexivity|]. intros y [<-|[]]. apply score_le_refl.
  - destruct (IH (if score_gt x cur then x else cur)) as [Hin Hmax].
    destruct (score_gt x cur) eqn:G.
    + split.
      * destruct Hin as [H|H]; [right; left; exact H | right; right; exact H].
      * intros y [<-|[<-|Hy]].
        -- eapply score_le_trans; [apply score_gt_true; exact G | apply Hmax; left; reflexivity].
        -- apply Hmax; left; reflexivity.
        -- apply Hmax; right; exact Hy.
    + split.
      * destruct Hin as [H|H]; [left; exact H | right; right; exact H].
      * intros y [<-|[<-|Hy]].
        -- apply Hmax; left; reflexivity.
        -- eapply score_le_trans; [apply score_gt_false; exact G | apply Hmax; left; reflexivity].
        -- apply Hmax; right; exact Hy.
Qed.

(* ---- match_score computes the documented rule *)
Lemma match_score_spec r t :
  match_score r t =
    if matches r t
    then let '(a, b, c, d) := spec4 r t in {| s1 := a; s2 := b; s3 := c; s4 := d; sq := r_q r |}
    else not_matching.
Proof.
  unfold match_score, matches, part_ok, spec4, params_ok, common, is_star.
  destruct (str_eqb (r_main r) [star]); destruct (str_eqb (t_main t) [star]);
    destruct (str_eqb (r_main r) (t_main t)); cbn [orb negb andb];
    destruct (str_eqb (r_sub r) [star]); destruct (str_eqb (t_sub t) [star]);
    destruct (str_eqb (r_sub r) (t_sub t)); cbn [orb negb andb]; try reflexivity;
    match goal with |- context [forallb ?f ?l] => destruct (forallb f l) end; reflexivity.
Qed.

Lemma spec4_nonneg r t : let '(a, b, c, d) := spec4 r t in 0 <= a /\ 0 <= b /\ 0 <= c /\ 0 <= d.
Proof.
  unfold spec4. repeat match goal with |- context [if ?b then _ else _] => destruct b end; lia.
Qed.

(* quality = q of a most specific matching range, or 0 when nothing matches *)
Theorem quality_spec t rs : rs <> [] -> quality_rel t rs (quality_ranges t rs).
Proof.
  intro NE. unfold quality_ranges. destruct rs as [|r0 rtl]; [contradiction|]. cbn [map].
  destruct (max_score_spec (map (fun r => match_score r t) rtl) (match_score r0 t)) as [Hin Hmax].
  set (m := max_score (match_score r0 t) (map (fun r => match_score r t) rtl)) in *.
  assert (Hin' : exists r, In r (r0 :: rtl) /\ m = match_score r t).
  { destruct Hin as [H|H]; [exists r0; split; [left; reflexivity | symmetry; exact H]|].
    apply in_map_iff in H as [r [E Hr]]. exists r. split; [right; exact Hr | symmetry; exact E]. }
  assert (Hmax' : forall r, In r (r0 :: rtl) -> score_le (match_score r t) m).
  { intros r [<-|Hr]; apply Hmax; [left; reflexivity|]. right. apply in_map_iff. exists r. split; [reflexivity|exact Hr]. }
  destruct Hin' as [rb [Hb Em]].
  rewrite match_score_spec in Em. destruct (matches rb t) eqn:Mb.
  - right. exists rb. split; [exact Hb|]. split; [exact Mb|]. split.
    + rewrite Em. destruct (spec4 rb t) as [[[a b] c] d]. reflexivity.
    + intros r' Hr' Mr'. specialize (Hmax' r' Hr'). rewrite match_score_spec, Mr' in Hmax'.
      rewrite Em in Hmax'. unfold at_most, lex4_lt, score_le in *.
      destruct (spec4 r' t) as [[[a1 a2] a3] a4]. destruct (spec4 rb t) as [[[b1 b2] b3] b4].
      cbn [s1 s2 s3 s4 sq] in Hmax'.
      destruct Hmax' as [H|[E1 [H|[E2 [H|[E3 [H|[E4 H]]]]]]]].
      * left. left. exact H.
      * left. right. split; [exact E1|left; exact H].
      * left. right. split; [exact E1|]. right. split; [exact E2|left; exact H].
      * left. right. split; [exact E1|]. right. split; [exact E2|]. right. split; [exact E3|exact H].
      * right. split; [congruence|exact H].
  - left. split.
    + intros r Hr. destruct (matches r t) eqn:Mr; [|reflexivity]. exfalso.
      specialize (Hmax' r Hr). rewrite match_score_spec, Mr, Em in Hmax'.
      pose proof (spec4_nonneg r t) as NN. destruct (spec4 r t) as [[[a b] c] d].
      unfold score_le, not_matching in Hmax'. cbn [s1 s2 s3 s4 sq] in Hmax'. lia.
    + rewrite Em. reflexivity.
Qed.

(* ---- the boolean oracle accepts every value satisfying the relation *)
Lemma lex4_ltb_iff a b : lex4_ltb a b = true <-> lex4_lt a b.
Proof.
  destruct a as [[[a1 a2] a3] a4]. destruct b as [[[b1 b2] b3] b4]. unfold lex4_ltb, lex4_lt. lia.
Qed.
Lemma lex4_eqb_iff a b : lex4_eqb a b = true <-> a = b.
Proof.
  destruct a as [[[a1 a2] a3] a4]. destruct b as [[[b1 b2] b3] b4]. unfold lex4_eqb. split.
  - intro H. repeat f_equal; lia.
  - intro H. injection H as -> -> -> ->. lia.
Qed.

Lemma at_mostb_of t r' r : at_most t r' r -> at_mostb t r' r = true.
Proof.
  unfold at_most, at_mostb. intros [H|[E H]].
  - apply lex4_ltb_iff in H. rewrite H. reflexivity.
  - apply lex4_eqb_iff in E. apply Qle_bool_iff in H. rewrite E, H. apply orb_true_r.
Qed.

Theorem quality_relb_sound t rs q : quality_rel t rs q -> quality_relb t rs q = true.
Proof.
  unfold quality_rel, quality_relb. intros [[Hn Hq]|[r [Hr [Mr [Hq Hall]]]]].
  - apply orb_true_iff. left. apply andb_true_iff. split.
    + apply forallb_forall. intros r Hr. rewrite (Hn r Hr). reflexivity.
    + apply Qeq_bool_iff. exact Hq.
  - apply orb_true_iff. right. apply existsb_exists. exists r. split; [exact Hr|].
    rewrite Mr. cbn [andb]. apply andb_true_iff. split; [apply Qeq_bool_iff; exact Hq|].
    apply forallb_forall. intros r' Hr'. destruct (matches r' t) eqn:M; [|reflexivity].
    cbn [negb orb]. apply at_mostb_of. apply Hall; assumption.
Qed.

Lemma split_quoted_nonempty s : forall cur q e l, split_quoted s cur q e = Some l -> l <> [].
Proof.
  induction s as [|c tl IH]; intros cur q e l; cbn [split_quoted].
  - destruct q; [discriminate|]. intro H. injection H as <-. discriminate.
  - destruct q.
    + destruct e; [apply IH|]. destruct (c =? bsl)%N; [apply IH|]. destruct (c =? dq)%N; apply IH.
    + destruct (c =? dq)%N; [apply IH|]. destruct (c =? comma)%N; [|apply IH].
      destruct (split_quoted tl [] false false); [|discriminate]. intro H. injection H as <-. discriminate.
Qed.

Lemma split_media_ranges_nonempty f h : split_media_ranges f h <> [].
Proof.
  unfold split_media_ranges. destruct f; [|apply split_chr_nonempty].
  destruct (negb (char_in dq h)); [apply split_chr_nonempty|].
  destruct (split_quoted h [] false false) eqn:E; [|apply split_chr_nonempty].
  eapply split_quoted_nonempty. exact E.
Qed.

Theorem quality_oracle_sound o mt h q :
  quality o mt h = Ok q -> quality_ok o mt h q = 1%N.
Proof.
  unfold quality, quality_ok. destruct (parse_media_type mt) as [t|]; [|discriminate].
  destruct (parse_media_ranges o h) as [rs|e] eqn:E; [|discriminate].
  intro H. injection H as <-.
  assert (NE : rs <> []).
  { unfold parse_media_ranges in E. pose proof (split_media_ranges_nonempty (c_fixed o) h) as S.
    destruct (split_media_ranges (c_fixed o) h) as [|x tl]; [contradiction|]. cbn [map_res] in E.
    destruct (parse_media_range o x); [|discriminate]. destruct (map_res (parse_media_range o) tl); [|discriminate].
    injection E as <-. discriminate. }
  rewrite (quality_relb_sound t rs _ (quality_spec t rs NE)). reflexivity.
Qed.

(* ---- best_match *)
Lemma max_by_spec l : forall cur,
  exists pre post, cur :: l = pre ++ max_by cur l :: post /\
    (forall p, In p pre -> (snd p < snd (max_by cur l))%Q) /\
    (forall p, In p post -> (snd p <= snd (max_by cur l))%Q).
Proof.
  induction l as [|x tl IH]; intro cur; cbn [max_by].
  - exists [], []. split; [reflexivity|]. split; intros p [].
  - destruct (Qlt_bool (snd cur) (snd x)) eqn:G.
    + destruct (IH x) as [pre [post [E [Hpre Hpost]]]].
      (* cur is strictly below x, which is at most the result *)
      assert (Hx : (snd x <= snd (max_by x tl))%Q).
      { destruct pre as [|p0 pre'].
        - cbn [app] in E. injection E as E _. rewrite <- E. apply Qle_refl.
        - cbn [app] in E. injection E as E _. subst p0. apply Qlt_le_weak. apply Hpre. left. reflexivity. }
      exists (cur :: pre), post. split; [cbn [app]; rewrite <- E; reflexivity|]. split; [|exact Hpost].
      intros p [<-|Hp]; [|apply Hpre; exact Hp].
      apply Qlt_bool_iff in G. eapply Qlt_le_trans; eassumption.
    + destruct (IH cur) as [pre [post [E [Hpre Hpost]]]].
      apply Qlt_bool_false in G.
      destruct pre as [|p0 pre'].
      * cbn [app] in E. injection E as E1 E2. exists [], (x :: post). split; [cbn [app]; rewrite <- E1, E2; reflexivity|].
        split; [intros p []|]. intros p [<-|Hp]; [rewrite <- E1; exact G | apply Hpost; exact Hp].
      * cbn [app] in E. injection E as E1 E2. subst p0.
        assert (Hc : (snd cur < snd (max_by cur tl))%Q) by (apply Hpre; left; reflexivity).
        (* x sits between cur and the rest: find it in tl's decomposition *)
        exists (cur :: x :: pre'), post. split; [cbn [app]; rewrite <- E2; reflexivity|]. split; [|exact Hpost].
        intros p [<-|[<-|Hp]]; [exact Hc | eapply Qle_lt_trans; eassumption | apply Hpre; right; exact Hp].
Qed.

Definition best_of (pairs : list (str * Q)) : option str :=
  match pairs with
  | [] => None
  | x :: tl => let '(m, q) := max_by x tl in if Qlt_bool 0 q then Some m else None
  end.

Theorem best_of_spec pairs : best_rel pairs (best_of pairs).
Proof.
  unfold best_of. destruct pairs as [|x tl]; [intros p []|].
  destruct (max_by_spec tl x) as [pre [post [E [Hpre Hpost]]]].
  destruct (max_by x tl) as [m q] eqn:M. cbn [snd] in *.
  destruct (Qlt_bool 0 q) eqn:G.
  - apply Qlt_bool_iff in G. exists pre, q, post. repeat split; assumption.
  - apply Qlt_bool_false in G. intros p Hp. rewrite E in Hp.
    apply in_app_or in Hp as [Hp|[<-|Hp]].
    + eapply Qle_trans; [apply Qlt_le_weak; apply Hpre; exact Hp | exact G].
    + exact G.
    + eapply Qle_trans; [apply Hpost; exact Hp | exact G].
Qed.

Lemma map_res_spec {A B} (f : A -> res B) l ys :
  map_res f l = Ok ys -> Forall2 (fun x y => f x = Ok y) l ys.
Proof.
  revert ys. induction l as [|x tl IH]; intros ys H; cbn [map_res] in H.
  - injection H as <-. constructor.
  - destruct (f x) as [y|] eqn:E; [|discriminate]. destruct (map_res f tl) as [ys'|]; [|discriminate].
    injection H as <-. constructor; [exact E | apply IH; reflexivity].
Qed.

(* best_match: the first candidate of maximal quality, and only if that quality is positive *)
Theorem best_match_spec o cands h r :
  best_match o cands h = Ok r ->
  exists pairs, Forall2 (fun c p => fst p = c /\ quality o c h = Ok (snd p)) cands pairs /\
                best_rel pairs r.
Proof.
  unfold best_match.
  destruct (map_res (fun mt => match quality o mt h with Ok q => Ok (mt, q) | Err e => Err e end) cands)
    as [pairs|e] eqn:E; [|discriminate].
  assert (F : Forall2 (fun c p => fst p = c /\ quality o c h = Ok (snd p)) cands pairs).
  { apply map_res_spec in E. induction E as [|c p cs ps Hc _ IH]; [constructor|].
    constructor; [|exact IH].
    destruct (quality o c h) as [q|]; [|discriminate]. injection Hc as <-. split; reflexivity. }
  intro H. exists pairs. split; [exact F|].
  - pose proof (best_of_spec pairs) as S. unfold best_of in S.
    destruct pairs as [|x tl]; [injection H as <-; exact S|].
    destruct (max_by x tl) as [m q]. destruct (Qlt_bool 0 q); injection H as <-; exact S.
Qed.

(* a candidate whose best range has q = 0, or that matches nothing, is never chosen *)
Theorem best_match_never_zero o cands h m :
  best_match o cands h = Ok (Some m) ->
  In m cands /\ exists q, quality o m h = Ok q /\ (0 < q)%Q.
Proof.
  intro H. destruct (best_match_spec o cands h _ H) as [pairs [F [pre [q [post [E [Hq _]]]]]]].
  subst pairs. apply Forall2_app_inv_r in F as [c1 [c2 [F1 [F2 Ec]]]].
  inversion F2 as [|c p cs ps [Hc Hqual] F3]. subst. cbn [fst snd] in *.
  split; [apply in_or_app; right; left; reflexivity|]. exists q. split; assumption.
Qed.

Lemma best_relb_sound pairs r : best_rel pairs r -> best_relb pairs r = true.
Proof.
  unfold best_rel, best_relb. destruct r as [m|].
  - intros [pre [q [post [E [Hq [Hpre Hpost]]]]]]. apply existsb_exists.
    exists (List.length pre). split.
    + apply in_seq. split; [lia|]. rewrite E, app_length. cbn [List.length]. lia.
    + subst pairs. rewrite nth_error_app2 by lia. rewrite Nat.sub_diag. cbn [nth_error].
      rewrite str_eqb_refl. cbn [andb].
      apply Qlt_bool_iff in Hq. rewrite Hq. cbn [andb].
      rewrite firstn_app, Nat.sub_diag, firstn_all. cbn [firstn]. rewrite app_nil_r.
      replace (skipn (S (List.length pre)) (pre ++ (m, q) :: post)) with post.
      * apply andb_true_iff. split; apply forallb_forall; intros p Hp.
        -- apply Qlt_bool_iff. apply Hpre. exact Hp.
        -- apply Qle_bool_iff. apply Hpost. exact Hp.
      * change (S (List.length pre)) with (1 + List.length pre)%nat.
        replace (1 + List.length pre)%nat with (List.length (pre ++ [(m, q)])) by (rewrite app_length; cbn; lia).
        replace (pre ++ (m, q) :: post) with ((pre ++ [(m, q)]) ++ post) by (rewrite <- app_assoc; reflexivity).
        clear. induction (pre ++ [(m, q)]) as [|x tl IH]; [reflexivity|exact IH].
  - intro H. apply forallb_forall. intros p Hp. apply Qle_bool_iff. apply H. exact Hp.
Qed.

(* ---- malformed input surfaces only as the documented value errors *)
Theorem quality_errors_documented o mt h e :
  quality o mt h = Err e ->
  (e = EInvalidMediaType /\ parse_media_type mt = None) \/ e = EInvalidMediaRange \/ e = ENeedOracle.
Proof.
  unfold quality. destruct (parse_media_type mt) as [t|]; [|intro H; injection H as <-; left; split; reflexivity].
  unfold parse_media_ranges. generalize (split_media_ranges (c_fixed o) h). intro l.
  induction l as [|x tl IH]; cbn [map_res]; [discriminate|].
  unfold parse_media_range at 1. destruct (parse_media_type x) as [tx|].
  - destruct (pget (t_params tx) s_q) as [qs|].
    + destruct (parse_q (c_oracle o) qs).
      * destruct (map_res (parse_media_range o) tl); [discriminate|]. exact IH.
      * intro H. injection H as <-. right. left. reflexivity.
      * intro H. injection H as <-. right. right. reflexivity.
    + destruct (map_res (parse_media_range o) tl); [discriminate|]. exact IH.
  - intro H. injection H as <-. right. left. reflexivity.
Qed.

Theorem best_match_errors_documented o cands h e :
  best_match o cands h = Err e -> e = EInvalidMediaType \/ e = EInvalidMediaRange \/ e = ENeedOracle.
Proof.
  unfold best_match.
  assert (G : forall l e, map_res (fun mt => match quality o mt h with Ok q => Ok (mt, q) | Err e => Err e end) l = Err e ->
              e = EInvalidMediaType \/ e = EInvalidMediaRange \/ e = ENeedOracle).
  { induction l as [|c tl IH]; intros e0; cbn [map_res]; [discriminate|].
    destruct (quality o c h) as [q|e1] eqn:Q.
    - destruct (map_res _ tl) as [ys|e2]; [discriminate|]. intro H. injection H as <-. apply IH. reflexivity.
    - intro H. injection H as <-. destruct (quality_errors_documented o c h e1 Q) as [[-> _]|[->| ->]]; auto. }
  destruct (map_res _ cands) as [pairs|e1] eqn:E.
  - destruct pairs as [|x tl]; [discriminate|]. destruct (max_by x tl) as [m q]. destruct (Qlt_bool 0 q); discriminate.
  - intro H. injection H as <-. eapply G. exact E.
Qed.

(* the request helpers swallow both: they never raise (given the float oracle) *)
Theorem client_accepts_total o hdr mt e : client_accepts o hdr mt = Err e -> e = ENeedOracle.
Proof.
  unfold client_accepts. destruct (str_eqb (req_accept hdr) mt || str_eqb (req_accept hdr) any_type); [discriminate|].
  destruct (quality o mt (req_accept hdr)) as [q|e1] eqn:Q; [discriminate|].
  destruct (quality_errors_documented o mt _ e1 Q) as [[-> _]|[->| ->]]; try discriminate.
  intro H. injection H as <-. reflexivity.
Qed.

Theorem client_prefers_total o hdr cs e : client_prefers o hdr cs = Err e -> e = ENeedOracle.
Proof.
  unfold client_prefers. destruct (best_match o cs (req_accept hdr)) as [r|e1] eqn:B; [discriminate|].
  destruct (best_match_errors_documented o cs _ e1 B) as [->|[->| ->]]; try discriminate.
  intro H. injection H as <-. reflexivity.
Qed.

(* with a total oracle nothing asks for it: parse_q never answers QNeed *)
Theorem no_need_with_total_oracle t s :
  (forall x, olookup t x <> None) -> parse_q (Some t) s <> QNeed.
Proof.
  intro T. unfold parse_q. destruct (olookup t s) as [[q|]|] eqn:E.
  - destruct (in_unit q); discriminate.
  - discriminate.
  - exfalso. exact (T s E).
Qed.
