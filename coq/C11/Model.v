(* C11 — executable model of falcon/util/mediatypes.py (parse_header with both paths,
   _parse_media_type_header, _MediaRange.parse, match_score, quality, best_match),
   falcon/request.py:client_accepts/client_prefers and falcon/media/handlers.py (Handlers: the
   UserDict mapping, the LRU-cached resolver, copy).

   Header strings are latin-1 strings.  q values are exact rationals: [float()] is modelled on
   plain decimal literals of at most 15 digits (where float is injective and monotone, so every
   comparison the code makes on the floats has the same outcome on the rationals); for anything
   else the harness supplies CPython's answer (oracle table: the exact value of the finite float,
   or DQUOTErejectedDQUOTE). *)
From Coq Require Import ZArith NArith QArith List Bool String.
From Falcon.lib Require Import PyStr.
From Falcon.gen Require Import ConstsC11.
Import ListNotations.
Open Scope N_scope.

Inductive err := EInvalidMediaType | EInvalidMediaRange | ENeedOracle | ECrash.
Inductive res (A : Type) := Ok (a : A) | Err (e : err).
Arguments Ok {A} a.
Arguments Err {A} e.

Definition semi : N := 59.
Definition dq : N := 34.
Definition bsl : N := 92.
Definition eq_c : N := 61.
Definition comma : N := 44.
Definition slash : N := 47.
Definition star : N := 42.

Definition strip (s : str) : str := strip_set c11_str_ws s.

(* str.lower() on latin-1 *)
Definition lower_l1_chr (c : N) : N :=
  if (65 <=? c) && (c <=? 90) then c + 32
  else if (192 <=? c) && (c <=? 222) && negb (c =? 215) then c + 32
  else c.
Definition lower_l1 (s : str) : str := map lower_l1_chr s.

(* dict with str keys: assignment to an existing key keeps its position *)
Definition params := list (str * str).
Fixpoint pget (d : params) (k : str) : option str :=
  match d with [] => None | (k', v) :: tl => if str_eqb k k' then Some v else pget tl k end.
Fixpoint pset (d : params) (k v : str) : params :=
  match d with
  | [] => [(k, v)]
  | (k', v') :: tl => if str_eqb k k' then (k', v) :: tl else (k', v') :: pset tl k v
  end.
Fixpoint pdel (d : params) (k : str) : params :=
  match d with [] => [] | (k', v') :: tl => if str_eqb k k' then pdel tl k else (k', v') :: pdel tl k end.

(* ---- parse_header: fast path *)
Definition fast_params (parts : str) : params :=
  fold_left (fun d part =>
               let '(name, equals, value) := partition_chr eq_c part in
               if equals then pset d (lower_l1 (strip name)) (strip value) else d)
            (split_chr semi parts) [].

(* ---- _parse_param_old_stdlib *)
Fixpoint find_from (c : N) (s : str) (start i : nat) : option nat :=
  match s with
  | [] => None
  | x :: tl => if (start <=? i)%nat && (x =? c) then Some i else find_from c tl start (S i)
  end.

Definition count_chr (c : N) (s : str) : nat := List.length (filter (N.eqb c) s).
(* s.count('BACKSLASH-DQUOTE') *)
Fixpoint count2 (a b : N) (s : str) : nat :=
  match s with
  | x :: ((y :: tl') as tl) => if (x =? a) && (y =? b) then S (count2 a b tl') else count2 a b tl
  | _ => O
  end.

(* while end > 0 and (s.count(DQUOTE, 0, end) - s.count('BACKSLASH-DQUOTE', 0, end)) % 2: end = s.find(';', end + 1) *)
Fixpoint adjust_end (fuel : nat) (s : str) (e : option nat) : option nat :=
  match fuel with
  | O => e
  | S f =>
    match e with
    | Some n =>
      if (0 <? n)%nat && Nat.odd (count_chr dq (firstn n s) - count2 bsl dq (firstn n s))
      then adjust_end f s (find_from semi s (S n) O)
      else e
    | None => None
    end
  end.

Fixpoint old_params (fuel : nat) (s : str) : list str :=
  match fuel with
  | O => []
  | S f =>
    match s with
    | c :: s1 =>
      if c =? semi then
        let e := match adjust_end (S (List.length s1)) s1 (find_from semi s1 O O) with
                 | Some n => n
                 | None => List.length s1
                 end in
        strip (firstn e s1) :: old_params f (skipn e s1)
      else []
    | [] => []
    end
  end.

Fixpoint replace2 (a b : N) (c : N) (s : str) : str :=
  match s with
  | x :: ((y :: tl') as tl) => if (x =? a) && (y =? b) then c :: replace2 a b c tl' else x :: replace2 a b c tl
  | _ => s
  end.

Fixpoint find_chr (c : N) (s : str) (i : nat) : option nat :=
  match s with [] => None | x :: tl => if x =? c then Some i else find_chr c tl (S i) end.

Definition old_param (d : params) (p : str) : params :=
  match find_chr eq_c p O with
  | Some i =>
    let name := lower_l1 (strip (firstn i p)) in
    let value := strip (skipn (S i) p) in
    let value :=
      match value with
      | c :: ((_ :: _) as tl) =>
        if (c =? dq) && (last value 0 =? dq)
        then replace2 bsl dq dq (replace2 bsl bsl bsl (removelast tl))
        else value
      | _ => value
      end in
    pset d name value
  | None => d
  end.

Definition parse_header_old (line : str) : str * params :=
  match old_params (S (S (List.length line))) (semi :: line) with
  | key :: parts => (key, fold_left old_param parts [])
  | [] => ([], [])         (* unreachable: the generator always yields once *)
  end.

Definition parse_header (line : str) : str * params :=
  if negb (char_in dq line) && negb (char_in bsl line) then
    let '(key, semicolon, parts) := partition_chr semi line in
    if negb semicolon then (strip key, []) else (strip key, fast_params parts)
  else parse_header_old line.

(* ---- _parse_media_type_header; None = InvalidMediaType *)
Record mtype := { t_main : str; t_sub : str; t_params : params }.

Definition parse_media_type (s : str) : option mtype :=
  let '(full, ps) := parse_header s in
  let full := if str_eqb full [star] then [star; slash; star] else full in
  let '(main, sep, sub) := partition_chr slash full in
  if sep then Some {| t_main := strip main; t_sub := strip sub; t_params := ps |} else None.

(* ---- float() on a plain decimal literal: [ws] [sign] (digits [. [digits]] | . digits) [ws] *)
Definition float_ws : str := [9; 10; 11; 12; 13; 32; 133; 160].
Definition dot : N := 46.

Fixpoint take_digits (s : str) : str * str :=
  match s with
  | c :: tl => if isdigit c then let '(a, b) := take_digits tl in (c :: a, b) else ([], s)
  | [] => ([], [])
  end.
Fixpoint dec_acc (s : str) (acc : Z) : Z :=
  match s with [] => acc | c :: tl => dec_acc tl (acc * 10 + Z.of_N (c - 48))%Z end.

Definition max_dec_digits : nat := 15.
Fixpoint pow10 (n : nat) : positive := match n with O => 1%positive | S k => (10 * pow10 k)%positive end.

Definition py_float_dec (s : str) : option Q :=
  let s := strip_set float_ws s in
  let '(neg, body) := match s with
                      | c :: tl => if c =? 45 then (true, tl) else if c =? 43 then (false, tl) else (false, s)
                      | [] => (false, s)
                      end in
  let '(ip, r1) := take_digits body in
  let '(fp, rest) := match r1 with
                     | c :: tl => if c =? dot then take_digits tl else ([], r1)
                     | [] => ([], [])
                     end in
  match rest, ip ++ fp with
  | [], _ :: _ =>
    if (max_dec_digits <? List.length (ip ++ fp))%nat then None else
    let n := dec_acc (ip ++ fp) 0%Z in
    Some (Qmake (if neg then - n else n) (pow10 (List.length fp)))
  | _, _ => None
  end.

(* oracle table: for a q string, Some (Some v) = float() returned the finite value v,
   Some None = ValueError / nan / inf *)
Definition oracle := option (list (str * option Q)).

Fixpoint olookup (t : list (str * option Q)) (s : str) : option (option Q) :=
  match t with [] => None | (k, v) :: tl => if str_eqb s k then Some v else olookup tl s end.

Inductive qres := QOk (q : Q) | QBad | QNeed.

Definition in_unit (q : Q) : bool := Qle_bool 0 q && Qle_bool q 1.

Definition parse_q (o : oracle) (s : str) : qres :=
  match o with
  | Some t => match olookup t s with
              | Some (Some q) => if in_unit q then QOk q else QBad
              | Some None => QBad
              | None => QNeed
              end
  | None => match py_float_dec s with
            | Some q => if in_unit q then QOk q else QBad
            | None => QNeed
            end
  end.

(* what the model is run with: [c_fixed] selects the quote-aware splitting of the range list
   (fixes/C13-quoted-comma-media-ranges.patch; false = header.split(',') as found), [c_oracle]
   the float() table *)
Record cfg := { c_fixed : bool; c_oracle : oracle }.
Definition cfg0 : cfg := {| c_fixed := true; c_oracle := None |}.

(* ---- _MediaRange.parse *)
Record mrange := { r_main : str; r_sub : str; r_q : Q; r_params : params }.

Definition s_q : str := [113].

Definition parse_media_range (o : cfg) (s : str) : res mrange :=
  match parse_media_type s with
  | None => Err EInvalidMediaRange
  | Some t =>
    match pget (t_params t) s_q with
    | None => Ok {| r_main := t_main t; r_sub := t_sub t; r_q := 1; r_params := t_params t |}
    | Some qs =>
      match parse_q (c_oracle o) qs with
      | QOk q => Ok {| r_main := t_main t; r_sub := t_sub t; r_q := q; r_params := pdel (t_params t) s_q |}
      | QBad => Err EInvalidMediaRange
      | QNeed => Err ENeedOracle
      end
    end
  end.

Fixpoint map_res {A B} (f : A -> res B) (l : list A) : res (list B) :=
  match l with
  | [] => Ok []
  | x :: tl => match f x with
               | Ok y => match map_res f tl with Ok ys => Ok (y :: ys) | Err e => Err e end
               | Err e => Err e
               end
  end.

(* _split_media_ranges: commas separate list members only outside quoted strings
   (RFC 9110 5.6.1 / 5.6.4: inside DQUOTEs a backslash escapes the next character); None = the
   header ends inside a quoted string *)
Fixpoint split_quoted (s : str) (cur : str) (quoted escaped : bool) : option (list str) :=
  match s with
  | [] => if quoted then None else Some [rev cur]
  | c :: tl =>
    if quoted then
      if escaped then split_quoted tl (c :: cur) true false
      else if c =? bsl then split_quoted tl (c :: cur) true true
      else if c =? dq then split_quoted tl (c :: cur) false false
      else split_quoted tl (c :: cur) true false
    else if c =? dq then split_quoted tl (c :: cur) true false
    else if c =? comma then
      match split_quoted tl [] false false with Some l => Some (rev cur :: l) | None => None end
    else split_quoted tl (c :: cur) false false
  end.

Definition split_media_ranges (fixed : bool) (header : str) : list str :=
  if fixed then
    if negb (char_in dq header) then split_chr comma header
    else match split_quoted header [] false false with
         | Some l => l
         | None => split_chr comma header        (* unterminated quote: plain split *)
         end
  else split_chr comma header.

Definition parse_media_ranges (o : cfg) (header : str) : res (list mrange) :=
  map_res (parse_media_range o) (split_media_ranges (c_fixed o) header).

(* ---- match_score *)
Record score := { s1 : Z; s2 : Z; s3 : Z; s4 : Z; sq : Q }.
Definition not_matching : score := {| s1 := -1; s2 := -1; s3 := -1; s4 := -1; sq := 0 |}.

Definition keys (p : params) : list str := map fst p.
Definition subset (a b : list str) : bool := forallb (fun k => mem k b) a.

Definition match_score (r : mrange) (t : mtype) : score :=
  let star1 s := str_eqb s [star] in
  if negb (star1 (r_main r) || star1 (t_main t)) && negb (str_eqb (r_main r) (t_main t)) then not_matching else
  let main_matches := if star1 (r_main r) || star1 (t_main t) then 0%Z else 1%Z in
  if negb (star1 (r_sub r) || star1 (t_sub t)) && negb (str_eqb (r_sub r) (t_sub t)) then not_matching else
  let sub_matches := if star1 (r_sub r) || star1 (t_sub t) then 0%Z else 1%Z in
  let rk := keys (r_params r) in
  let tk := keys (t_params t) in
  let exact := if subset rk tk && subset tk rk then 1%Z else 0%Z in
  let matching := filter (fun k => mem k tk) rk in
  if forallb (fun k => match pget (r_params r) k, pget (t_params t) k with
                       | Some a, Some b => str_eqb a b
                       | _, _ => true
                       end) matching
  then {| s1 := main_matches; s2 := sub_matches; s3 := exact;
          s4 := Z.of_nat (List.length matching); sq := r_q r |}
  else not_matching.

(* tuple comparison a > b *)
Definition Qlt_bool (a b : Q) : bool := negb (Qle_bool b a).
Definition score_gt (a b : score) : bool :=
  if negb (Z.eqb (s1 a) (s1 b)) then Z.ltb (s1 b) (s1 a)
  else if negb (Z.eqb (s2 a) (s2 b)) then Z.ltb (s2 b) (s2 a)
  else if negb (Z.eqb (s3 a) (s3 b)) then Z.ltb (s3 b) (s3 a)
  else if negb (Z.eqb (s4 a) (s4 b)) then Z.ltb (s4 b) (s4 a)
  else Qlt_bool (sq b) (sq a).

(* max(iterable): the first maximal element *)
Fixpoint max_score (cur : score) (l : list score) : score :=
  match l with
  | [] => cur
  | x :: tl => max_score (if score_gt x cur then x else cur) tl
  end.

Definition quality_ranges (t : mtype) (rs : list mrange) : Q :=
  match map (fun r => match_score r t) rs with
  | [] => 0                   (* unreachable: split never returns [] *)
  | x :: tl => sq (max_score x tl)
  end.

(* mediatypes.quality(media_type, header) *)
Definition quality (o : cfg) (media_type header : str) : res Q :=
  match parse_media_type media_type with
  | None => Err EInvalidMediaType
  | Some t =>
    match parse_media_ranges o header with
    | Ok rs => Ok (quality_ranges t rs)
    | Err e => Err e
    end
  end.

(* max(pairs, key=quality): first maximal *)
Fixpoint max_by (cur : str * Q) (l : list (str * Q)) : str * Q :=
  match l with
  | [] => cur
  | x :: tl => max_by (if Qlt_bool (snd cur) (snd x) then x else cur) tl
  end.

(* mediatypes.best_match: None = '' *)
Definition best_match (o : cfg) (media_types : list str) (header : str) : res (option str) :=
  match map_res (fun mt => match quality o mt header with Ok q => Ok (mt, q) | Err e => Err e end)
                media_types with
  | Err e => Err e
  | Ok [] => Ok None                                     (* max() of nothing: ValueError, swallowed *)
  | Ok (x :: tl) => let '(m, q) := max_by x tl in
                    if Qlt_bool 0 q then Ok (Some m) else Ok None
  end.

(* Request.client_accepts / client_prefers; [accept] = req.accept (missing or empty: the any-type range) *)
Definition any_type : str := [star; slash; star].
Definition req_accept (hdr : option str) : str :=
  match hdr with Some (c :: s) => c :: s | _ => any_type end.

Definition client_accepts (o : cfg) (hdr : option str) (media_type : str) : res bool :=
  let accept := req_accept hdr in
  if str_eqb accept media_type || str_eqb accept any_type then Ok true
  else match quality o media_type accept with
       | Ok q => Ok (negb (Qeq_bool q 0))
       | Err ENeedOracle => Err ENeedOracle
       | Err ECrash => Err ECrash
       | Err _ => Ok false
       end.

Definition client_prefers (o : cfg) (hdr : option str) (media_types : list str) : res (option str) :=
  match best_match o media_types (req_accept hdr) with
  | Ok r => Ok r
  | Err ENeedOracle => Err ENeedOracle
  | Err ECrash => Err ECrash
  | Err _ => Ok None
  end.

(* ---- falcon.media.Handlers *)
Definition handler := N.
Definition hdata := list (str * handler).

Fixpoint dget (d : hdata) (k : str) : option handler :=
  match d with [] => None | (k', v) :: tl => if str_eqb k k' then Some v else dget tl k end.
Fixpoint dset (d : hdata) (k : str) (v : handler) : hdata :=
  match d with
  | [] => [(k, v)]
  | (k', v') :: tl => if str_eqb k k' then (k', v) :: tl else (k', v') :: dset tl k v
  end.
Fixpoint ddel (d : hdata) (k : str) : hdata :=
  match d with [] => [] | (k', v') :: tl => if str_eqb k k' then ddel tl k else (k', v') :: ddel tl k end.

(* resolver arguments and results *)
Definition ckey := (option str * str * bool)%type.      (* media_type, default, raise_not_found *)
Inductive rres := RHandler (h : handler) | RNone | R415 | RNeed.

Definition opt_str_eqb (a b : option str) : bool :=
  match a, b with Some x, Some y => str_eqb x y | None, None => true | _, _ => false end.
Definition ckey_eqb (a b : ckey) : bool :=
  let '(m1, d1, r1) := a in let '(m2, d2, r2) := b in
  opt_str_eqb m1 m2 && str_eqb d1 d2 && Bool.eqb r1 r2.

(* the body of resolve(), without the cache *)
Definition resolve_uncached (o : cfg) (d : hdata) (k : ckey) : rres :=
  let '(mt, default, raise_nf) := k in
  let mt := match mt with
            | Some (c :: s) => if str_eqb (c :: s) any_type then default else c :: s
            | _ => default
            end in
  match dget d mt with
  | Some h => RHandler h
  | None =>
    (* _best_match(media_type, keys): best_match(keys, media_type), ValueError -> None *)
    match best_match o (map fst d) mt with
    | Ok (Some (c :: s)) =>
      match dget d (c :: s) with Some h => RHandler h | None => R415 (* unreachable *) end
    | Err ENeedOracle => RNeed
    | _ => if raise_nf then R415 else RNone
    end
  end.

(* functools.lru_cache: most recent first; exceptions are not cached *)
Definition lru := list (ckey * rres).

Fixpoint lru_get (c : lru) (k : ckey) : option rres :=
  match c with [] => None | (k', v) :: tl => if ckey_eqb k k' then Some v else lru_get tl k end.
Fixpoint lru_remove (c : lru) (k : ckey) : lru :=
  match c with [] => [] | (k', v) :: tl => if ckey_eqb k k' then tl else (k', v) :: lru_remove tl k end.

Record hobj := { h_data : hdata; h_cache : lru }.

Definition resolve (o : cfg) (h : hobj) (k : ckey) : hobj * rres :=
  match lru_get (h_cache h) k with
  | Some v => ({| h_data := h_data h; h_cache := (k, v) :: lru_remove (h_cache h) k |}, v)
  | None =>
    let v := resolve_uncached o (h_data h) k in
    match v with
    | R415 | RNeed => (h, v)
    | _ => ({| h_data := h_data h; h_cache := firstn resolver_cache_size ((k, v) :: h_cache h) |}, v)
    end
  end.

(* Handlers.__setitem__ / __delitem__ *)
Definition h_set (h : hobj) (k : str) (v : handler) : hobj := {| h_data := dset (h_data h) k v; h_cache := [] |}.
Definition h_del (h : hobj) (k : str) : option hobj :=      (* None = KeyError *)
  match dget (h_data h) k with
  | Some _ => Some {| h_data := ddel (h_data h) k; h_cache := [] |}
  | None => None
  end.

(* the MutableMapping mixins, expressed through them as collections.abc does *)
Definition h_update (h : hobj) (l : list (str * handler)) : hobj :=
  fold_left (fun h kv => h_set h (fst kv) (snd kv)) l h.
Fixpoint h_clear (fuel : nat) (h : hobj) : hobj :=       (* while True: popitem() *)
  match fuel with
  | O => h
  | S f => match h_data h with
           | (k, _) :: _ => match h_del h k with Some h' => h_clear f h' | None => h end
           | [] => h
           end
  end.

Inductive op :=
| OSet (k : str) (v : handler)
| ODel (k : str)
| OUpdate (l : list (str * handler))
| OPop (k : str) (default : option handler)
| OClear
| OSetdefault (k : str) (v : handler)
| OCopy (fresh : list handler)          (* ids for the default handlers of a copy of an empty mapping *)
| OResolve (k : ckey)
| OGet (k : str)                        (* handlers[k] *)
| OKeys.

Inductive obs :=
| ONone
| OKeyError
| OHandler (h : option handler)
| OResolved (r : rres)
| OCopied (index : nat)
| OKeyList (l : list str).

Definition world := list hobj.

Definition upd (w : world) (i : nat) (h : hobj) : world :=
  firstn i w ++ h :: skipn (S i) w.

Definition empty_obj : hobj := {| h_data := []; h_cache := [] |}.

(* Handlers(initial): `initial or {defaults}`, then UserDict.__init__ -> update *)
Definition new_handlers (initial : hdata) (fresh : list handler) : hobj :=
  match initial with
  | [] => h_update empty_obj (combine default_handler_keys fresh)
  | _ => h_update empty_obj initial
  end.

Definition step (o : cfg) (w : world) (i : nat) (x : op) : world * obs :=
  let h := nth i w empty_obj in
  match x with
  | OSet k v => (upd w i (h_set h k v), ONone)
  | ODel k => match h_del h k with Some h' => (upd w i h', ONone) | None => (w, OKeyError) end
  | OUpdate l => (upd w i (h_update h l), ONone)
  | OPop k default =>
    match dget (h_data h) k with
    | Some v => match h_del h k with
                | Some h' => (upd w i h', OHandler (Some v))
                | None => (w, OKeyError)
                end
    | None => match default with Some d => (w, OHandler (Some d)) | None => (w, OKeyError) end
    end
  | OClear => (upd w i (h_clear (S (List.length (h_data h))) h), ONone)
  | OSetdefault k v =>
    match dget (h_data h) k with
    | Some old => (w, OHandler (Some old))
    | None => (upd w i (h_set h k v), OHandler (Some v))
    end
  | OCopy fresh => (w ++ [new_handlers (h_data h) fresh], OCopied (List.length w))
  | OResolve k => let '(h', r) := resolve o h k in (upd w i h', OResolved r)
  | OGet k => match dget (h_data h) k with Some v => (w, OHandler (Some v)) | None => (w, OKeyError) end
  | OKeys => (w, OKeyList (map fst (h_data h)))
  end.

Fixpoint run_ops (o : cfg) (w : world) (l : list (nat * op)) : world * list obs :=
  match l with
  | [] => (w, [])
  | (i, x) :: tl => let '(w1, ob) := step o w i x in
                    let '(w2, obs) := run_ops o w1 tl in (w2, ob :: obs)
  end.
