(* C09 — Forwarded: a valid RFC 7239 header is read exactly (elements, parameters, quoted-pairs). *)
From Coq Require Import ZArith NArith List Bool Lia ZifyBool ZifyN Arith.
From Falcon.lib Require Import PyStr.
From Falcon.gen Require Import ConstsC09.
From Falcon.C10 Require Spec ProofsDecode ProofsHost.
From Falcon.C09 Require Import Model Spec SpecRfc Proofs ProofsEtag ProofsCookie.
Import ListNotations.
Open Scope N_scope.

(* ------------------------------------------------------------------ falcon's classes vs RFC 7230 *)
Lemma table_eq (T : str) (f : N -> bool) :
  forallb (fun x => x <? 256) T = true -> (forall c, 256 <= c -> f c = false) ->
  forallb (fun c => Bool.eqb (char_in c T) (f c)) (N_range 256) = true ->
  forall c, char_in c T = f c.
Proof.
  intros HT Hf Hall c. destruct (N.ltb_spec c 256) as [L|L].
  - rewrite forallb_forall in Hall. apply eqb_prop. apply Hall. apply in_N_range. exact L.
  - rewrite (Hf c L). destruct (char_in c T) eqn:E; [|reflexivity].
    apply char_in_In in E. rewrite forallb_forall in HT. apply HT in E. lia.
Qed.

Lemma tchar_table c : is_tchar c = is_tchar_rfc c.
Proof.
  unfold is_tchar. revert c. apply table_eq; [vm_compute; reflexivity | | vm_compute; reflexivity].
  intros c H. unfold is_tchar_rfc, is_alpha, isdigit. cbn [existsb]. lia.
Qed.

Lemma qpchar_table c : char_in c fwd_qpchar = is_qpchar_rfc c.
Proof.
  revert c. apply table_eq; [vm_compute; reflexivity | | vm_compute; reflexivity].
  intros c H. unfold is_qpchar_rfc. lia.
Qed.

(* falcon's effective qdtext class = RFC qdtext without obs-text (the backslash the source comment
   mentions only escapes the ']' inside the character class) *)
Lemma qdtext_table c : char_in c fwd_qdtext = is_qdtext_rfc c.
Proof.
  revert c. apply table_eq; [vm_compute; reflexivity | | vm_compute; reflexivity].
  intros c H. unfold is_qdtext_rfc. lia.
Qed.

Lemma take_while_ext p q (s : str) : (forall c, p c = q c) -> take_while p s = take_while q s.
Proof.
  intro H. induction s as [|c tl IH]; [reflexivity|]. cbn [take_while]. rewrite H, IH. reflexivity.
Qed.

(* ------------------------------------------------------------------ quoted-string *)
Notation qp_unescape := Falcon.C10.Spec.qp_unescape.

Lemma qs_body_valid s : forall v r, qstring_body s = Some (v, r) ->
  exists raw, qs_body s = Some (raw ++ [dq], r) /\ qp_unescape raw = v /\ s = raw ++ dq :: r.
Proof.
  induction s as [s IH] using Falcon.C10.ProofsDecode.list_len_ind.
  intros v r H. destruct s as [|c tl]; [discriminate|]. cbn [qstring_body] in H.
  destruct (c =? dq) eqn:Ed.
  - injection H as <- <-. apply N.eqb_eq in Ed. subst c. exists []. cbn [qs_body app].
    rewrite N.eqb_refl. repeat split.
  - destruct (c =? bsl) eqn:Eb.
    + apply N.eqb_eq in Eb. subst c. destruct tl as [|d tl2]; [discriminate|].
      destruct (is_qpchar_rfc d) eqn:Q; [|discriminate].
      destruct (qstring_body tl2) as [[v' r']|] eqn:B; [|discriminate]. injection H as <- <-.
      destruct (IH tl2 ltac:(cbn [List.length]; lia) _ _ B) as (raw & Hq & Hu & ->).
      exists (bsl :: d :: raw). repeat split.
      * cbn [qs_body]. change (bsl =? dq) with false. rewrite N.eqb_refl, qpchar_table, Q, Hq. reflexivity.
      * cbn [Falcon.C10.Spec.qp_unescape]. change (bsl =? 92) with true. cbv iota. rewrite Hu. reflexivity.
    + destruct (is_qdtext_rfc c) eqn:Q; [|discriminate].
      destruct (qstring_body tl) as [[v' r']|] eqn:B; [|discriminate]. injection H as <- <-.
      destruct (IH tl ltac:(cbn [List.length]; lia) _ _ B) as (raw & Hq & Hu & ->).
      exists (c :: raw). repeat split.
      * cbn [qs_body]. rewrite Ed, Eb, qdtext_table, Q, Hq. reflexivity.
      * cbn [Falcon.C10.Spec.qp_unescape]. change (c =? 92) with (c =? bsl). rewrite Eb, Hu. reflexivity.
Qed.

(* what fwd_set makes of the matched value text *)
Definition value_of (text : str) : str :=
  match text with c :: _ => if c =? dq then unquote_string text else text | [] => text end.

Lemma pair_match_valid s n v r :
  fwd_pair s = Some (n, v, r) ->
  exists text, pair_match s = Some (n, text, r) /\ value_of text = v /\ (List.length r < List.length s)%nat.
Proof.
  unfold fwd_pair, pair_match. rewrite (take_while_ext is_tchar is_tchar_rfc s tchar_table).
  destruct (take_while is_tchar_rfc s) as [name r1] eqn:T1.
  destruct (take_while_spec _ _ _ _ T1) as (Es & Fn & _).
  destruct name as [|n0 name']; [discriminate|]. destruct r1 as [|e r2]; [discriminate|].
  destruct (e =? eq_c) eqn:Ee; [|discriminate].
  unfold fwd_value. destruct r2 as [|q tl]; [discriminate|].
  assert (Ls : List.length s = (List.length (n0 :: name') + S (S (List.length tl)))%nat).
  { rewrite Es, app_length. reflexivity. }
  rewrite (take_while_ext is_tchar is_tchar_rfc (q :: tl) tchar_table).
  destruct (q =? dq) eqn:Eq.
  - apply N.eqb_eq in Eq. subst q.
    assert (T0 : take_while is_tchar_rfc (dq :: tl) = ([], dq :: tl)) by reflexivity.
    rewrite T0. destruct (qstring_body tl) as [[v' r']|] eqn:B; [|discriminate].
    intro H. injection H as <- <- <-.
    destruct (qs_body_valid _ _ _ B) as (raw & Hq & Hu & Et). rewrite Hq.
    exists (dq :: raw ++ [dq]). repeat split.
    + unfold value_of. rewrite N.eqb_refl. unfold unquote_string.
      rewrite Falcon.C10.ProofsHost.unquote_quoted. exact Hu.
    + rewrite Ls, Et, app_length. cbn [List.length]. lia.
  - destruct (take_while is_tchar_rfc (q :: tl)) as [tok r3] eqn:T2.
    destruct (take_while_spec _ _ _ _ T2) as (Et & Ft & _).
    destruct tok as [|t0 tok']; [discriminate|]. intro H. injection H as <- <- <-.
    exists (t0 :: tok'). repeat split.
    + unfold value_of. assert (t0 = q) by (cbn [app] in Et; congruence). subst t0. rewrite Eq. reflexivity.
    + rewrite Ls. assert (List.length (q :: tl) = List.length ((t0 :: tok') ++ r3)) by (rewrite Et; reflexivity).
      rewrite app_length in H. cbn [List.length] in *. lia.
Qed.

Lemma pair_match_none c tl : is_tchar_rfc c = false -> pair_match (c :: tl) = None.
Proof.
  intro H. unfold pair_match. cbn [take_while]. rewrite tchar_table, H. reflexivity.
Qed.

(* ------------------------------------------------------------------ steps of the while loop *)
Definition dflt (cur : option fwd) : fwd := match cur with Some e => e | None => fwd0 end.
Definition push (cur : option fwd) (acc : list fwd) : list fwd :=
  match cur with Some e => acc ++ [e] | None => acc end.

Lemma loop_nil g ns cur acc : fwd_loop g [] ns cur acc = push cur acc.
Proof. destruct g; reflexivity. Qed.

Lemma loop_pair f c tl n text rest cur acc :
  pair_match (c :: tl) = Some (n, text, rest) ->
  fwd_loop (S f) (c :: tl) false cur acc = fwd_loop f rest true (Some (fwd_set (dflt cur) n text)) acc.
Proof. intro H. cbn [fwd_loop]. rewrite H. reflexivity. Qed.

Lemma loop_semi f tl ns cur acc :
  fwd_loop (S f) (semicolon :: tl) ns cur acc = fwd_loop f tl false cur acc.
Proof. cbn [fwd_loop]. rewrite (pair_match_none semicolon tl eq_refl). reflexivity. Qed.

Lemma loop_comma f tl ns cur acc :
  fwd_loop (S f) (comma :: tl) ns cur acc = fwd_loop f tl false None (push cur acc).
Proof. cbn [fwd_loop]. rewrite (pair_match_none comma tl eq_refl). reflexivity. Qed.

Lemma ows_not_tchar c : is_ows c = true -> is_tchar_rfc c = false.
Proof.
  unfold is_ows. intro H. apply orb_true_iff in H as [H | H]; apply N.eqb_eq in H; subst; reflexivity.
Qed.

Lemma loop_ows f c tl ns cur acc :
  is_ows c = true -> fwd_loop (S f) (c :: tl) ns cur acc = fwd_loop f tl ns cur acc.
Proof.
  intro H. cbn [fwd_loop]. rewrite (pair_match_none c tl (ows_not_tchar c H)).
  unfold is_ows in H. apply orb_true_iff in H as [H | H]; apply N.eqb_eq in H; subst; reflexivity.
Qed.

Lemma loop_skip_ows r : forall g ns cur acc, (List.length r <= g)%nat ->
  exists g', (List.length (skip_ows r) <= g')%nat /\
             fwd_loop g r ns cur acc = fwd_loop g' (skip_ows r) ns cur acc.
Proof.
  induction r as [|c tl IH]; intros g ns cur acc L.
  - exists g. split; [exact L | reflexivity].
  - cbn [skip_ows]. destruct (is_ows c) eqn:O.
    + destruct g as [|g]; [cbn in L; lia|]. cbn [List.length] in L.
      destruct (IH g ns cur acc ltac:(lia)) as (g' & L' & E). exists g'. split; [exact L'|].
      rewrite (loop_ows g c tl ns cur acc O). exact E.
    + exists g. split; [exact L | reflexivity].
Qed.

(* ------------------------------------------------------------------ one forwarded-element *)
(* the record update with the final (unquoted) value *)
Definition assign (e : fwd) (name v : str) : fwd :=
  let name := lower name in
  if str_eqb name s_by then {| f_src := f_src e; f_dest := Some v; f_host := f_host e; f_scheme := f_scheme e |}
  else if str_eqb name s_for then {| f_src := Some v; f_dest := f_dest e; f_host := f_host e; f_scheme := f_scheme e |}
  else if str_eqb name s_host then {| f_src := f_src e; f_dest := f_dest e; f_host := Some v; f_scheme := f_scheme e |}
  else if str_eqb name s_proto then {| f_src := f_src e; f_dest := f_dest e; f_host := f_host e; f_scheme := Some (lower v) |}
  else e.

Lemma fwd_set_assign e n text : fwd_set e n text = assign e n (value_of text).
Proof. reflexivity. Qed.

Definition upd (cur : option fwd) (p : str * str) : option fwd := Some (assign (dflt cur) (fst p) (snd p)).
Definition apply_pairs (ps : list (str * str)) (cur : option fwd) : option fwd := fold_left upd ps cur.

Theorem loop_element f : forall s ps r, fwd_element f s = Some (ps, r) ->
  forall g cur acc, (List.length s <= g)%nat ->
  exists g' ns', (List.length r <= g')%nat /\
    fwd_loop g s false cur acc = fwd_loop g' r ns' (apply_pairs ps cur) acc.
Proof.
  induction f as [|f IH]; intros s ps r H g cur acc L; [discriminate|].
  cbn [fwd_element] in H.
  (* the continuation after an optional pair *)
  assert (More : forall ps0 r0 g0 ns0 cur0,
    match r0 with
    | c :: r' => if c =? semicolon
                 then match fwd_element f r' with Some (ps', r'') => Some (ps0 ++ ps', r'') | None => None end
                 else Some (ps0, r0)
    | [] => Some (ps0, [])
    end = Some (ps, r) ->
    (List.length r0 <= g0)%nat ->
    exists g' ns', (List.length r <= g')%nat /\
      fwd_loop g0 r0 ns0 cur0 acc = fwd_loop g' r ns' (apply_pairs (skipn (List.length ps0) ps) cur0) acc).
  { intros ps0 r0 g0 ns0 cur0 HM L0. destruct r0 as [|c r'].
    - injection HM as <- <-. exists g0, ns0. rewrite skipn_all. split; [exact L0 | reflexivity].
    - destruct (c =? semicolon) eqn:Es.
      + apply N.eqb_eq in Es. subst c.
        destruct (fwd_element f r') as [[ps' r'']|] eqn:FE; [|discriminate]. injection HM as <- <-.
        destruct g0 as [|g1]; [cbn in L0; lia|]. cbn [List.length] in L0.
        rewrite loop_semi. rewrite skipn_app, skipn_all, Nat.sub_diag. cbn [skipn app].
        apply (IH _ _ _ FE g1 cur0 acc). lia.
      + injection HM as <- <-. exists g0, ns0. rewrite skipn_all. split; [exact L0 | reflexivity]. }
  destruct (fwd_pair s) as [[[n v] r0]|] eqn:FP.
  - destruct (pair_match_valid _ _ _ _ FP) as (text & PM & VO & Lr).
    destruct s as [|c tl]; [cbn in Lr; lia|]. destruct g as [|g0]; [cbn in L; lia|].
    rewrite (loop_pair g0 c tl n text r0 cur acc PM), fwd_set_assign, VO.
    destruct (More [(n, v)] r0 g0 true (Some (assign (dflt cur) n v)) H ltac:(cbn [List.length] in *; lia))
      as (g' & ns' & Lg & E).
    exists g', ns'. split; [exact Lg|]. rewrite E. f_equal.
    (* ps = (n, v) :: rest *)
    assert (Hps : ps = (n, v) :: skipn 1 ps).
    { destruct r0 as [|c0 r']; [injection H as <- <-; reflexivity|].
      destruct (c0 =? semicolon); [|injection H as <- <-; reflexivity].
      destruct (fwd_element f r') as [[ps' r'']|]; [|discriminate]. injection H as <- <-. reflexivity. }
    rewrite Hps at 2. reflexivity.
  - destruct (More [] s g false cur H L) as (g' & ns' & Lg & E). exists g', ns'. split; [exact Lg | exact E].
Qed.

(* ------------------------------------------------------------------ the list of elements *)
Definition the (o : option fwd) : fwd := dflt o.

Lemma apply_pairs_some ps : ps <> [] -> forall cur, exists e, apply_pairs ps cur = Some e.
Proof.
  induction ps as [|p ps IH]; intros Hne cur; [contradiction|].
  cbn [apply_pairs fold_left]. destruct ps as [|q ps'].
  - eexists. reflexivity.
  - apply (IH ltac:(discriminate)).
Qed.

Theorem loop_elements f : forall s elems, fwd_elements f s = Some elems ->
  forall g acc, (List.length s <= g)%nat ->
  fwd_loop g s false None acc = acc ++ map (fun ps => the (apply_pairs ps None)) elems.
Proof.
  induction f as [|f IH]; intros s elems H g acc L; [discriminate|].
  cbn [fwd_elements] in H.
  destruct (fwd_element (S (List.length s)) s) as [[ps r]|] eqn:FE; [|discriminate].
  destruct (element_ok ps) eqn:EO; cbn [negb] in H; [|discriminate].
  assert (Pne : ps <> []) by (destruct ps; [discriminate | discriminate]).
  destruct (apply_pairs_some ps Pne None) as (e1 & A1).
  destruct (loop_element _ _ _ _ FE g None acc L) as (g1 & ns1 & L1 & E1). rewrite E1, A1.
  destruct r as [|x r'].
  - injection H as <-. rewrite loop_nil. cbn [push map the dflt]. rewrite A1. reflexivity.
  - destruct (skip_ows (x :: r')) as [|c r2] eqn:SK; [discriminate|].
    destruct (c =? comma) eqn:EC; [|discriminate]. apply N.eqb_eq in EC. subst c.
    destruct (fwd_elements f (skip_ows r2)) as [l|] eqn:FL; [|discriminate]. injection H as <-.
    destruct (loop_skip_ows (x :: r') g1 ns1 (Some e1) acc L1) as (g2 & L2 & E2). rewrite E2, SK.
    rewrite SK in L2. destruct g2 as [|g2]; [cbn in L2; lia|]. cbn [List.length] in L2.
    rewrite loop_comma. cbn [push].
    destruct (loop_skip_ows r2 g2 false None (acc ++ [e1]) ltac:(lia)) as (g3 & L3 & E3). rewrite E3.
    rewrite (IH _ _ FL g3 (acc ++ [e1]) L3). cbn [map the dflt]. rewrite A1, <- app_assoc. reflexivity.
Qed.

(* ------------------------------------------------------------------ parameters of one element *)
Lemma apply_pairs_fold ps : forall e,
  apply_pairs ps (Some e) = Some (fold_left (fun e p => assign e (fst p) (snd p)) ps e).
Proof.
  induction ps as [|p ps IH]; intro e; [reflexivity|]. cbn [apply_pairs fold_left upd dflt].
  apply IH.
Qed.

Definition applyE (ps : list (str * str)) (e : fwd) : fwd :=
  fold_left (fun e p => assign e (fst p) (snd p)) ps e.

Lemma the_apply ps : ps <> [] -> the (apply_pairs ps None) = applyE ps fwd0.
Proof.
  destruct ps as [|p ps]; [contradiction|]. intros _.
  change (apply_pairs (p :: ps) None) with (apply_pairs ps (Some (assign fwd0 (fst p) (snd p)))).
  rewrite apply_pairs_fold. reflexivity.
Qed.

Lemma param_absent k ps : mem k (map (fun p => lower (fst p)) ps) = false -> param k ps = None.
Proof.
  induction ps as [|[n v] ps IH]; [reflexivity|]. cbn [map mem existsb fst param]. intro H.
  apply orb_false_iff in H as [H1 H2]. rewrite str_eqb_sym, H1. apply IH. exact H2.
Qed.

(* a getter that [assign] sets exactly for parameter name k *)
Lemma field_generic (g : fwd -> option str) (k : str) (val : str -> str) :
  (forall e n v, g (assign e n v) = if str_eqb (lower n) k then Some (val v) else g e) ->
  forall ps e, distinct_names (map (fun p => lower (fst p)) ps) = true ->
  g (applyE ps e) = match param k ps with Some v => Some (val v) | None => g e end.
Proof.
  intros HA. induction ps as [|[n v] ps IH]; intros e D; [reflexivity|].
  cbn [map fst distinct_names] in D. apply andb_true_iff in D as [D1 D2]. apply negb_true_iff in D1.
  unfold applyE in *. cbn [fold_left fst snd param]. rewrite (IH _ D2), HA.
  destruct (str_eqb (lower n) k) eqn:E.
  - apply str_eqb_eq in E. subst k. rewrite (param_absent _ _ D1). reflexivity.
  - reflexivity.
Qed.

Ltac names_distinct :=
  repeat match goal with
  | H : str_eqb ?a ?k = true |- _ => apply str_eqb_eq in H; subst
  end; try discriminate.

Ltac clash :=
  exfalso;
  repeat match goal with H : str_eqb _ _ = true |- _ => apply str_eqb_eq in H end;
  match goal with H1 : lower ?n = ?a, H2 : lower ?n = ?b |- _ => rewrite H1 in H2; discriminate H2 end.

Ltac assign_cases n :=
  unfold assign; destruct (str_eqb (lower n) s_by) eqn:?; destruct (str_eqb (lower n) s_for) eqn:?;
  destruct (str_eqb (lower n) s_host) eqn:?; destruct (str_eqb (lower n) s_proto) eqn:?;
  try reflexivity; clash.

Lemma assign_src e n v : f_src (assign e n v) = if str_eqb (lower n) s_for then Some v else f_src e.
Proof. assign_cases n. Qed.
Lemma assign_dest e n v : f_dest (assign e n v) = if str_eqb (lower n) s_by then Some v else f_dest e.
Proof. assign_cases n. Qed.
Lemma assign_host e n v : f_host (assign e n v) = if str_eqb (lower n) s_host then Some v else f_host e.
Proof. assign_cases n. Qed.
Lemma assign_scheme e n v :
  f_scheme (assign e n v) = if str_eqb (lower n) s_proto then Some (lower v) else f_scheme e.
Proof. assign_cases n. Qed.

Lemma element_reading ps : element_ok ps = true -> the (apply_pairs ps None) = fwd_of ps.
Proof.
  intro EO. unfold element_ok in EO. destruct ps as [|p0 ps0] eqn:Eps; [discriminate|]. rewrite <- Eps in *.
  rewrite the_apply by (rewrite Eps; discriminate).
  pose proof (field_generic f_src s_for (fun v => v) assign_src ps fwd0 EO) as H1.
  pose proof (field_generic f_dest s_by (fun v => v) assign_dest ps fwd0 EO) as H2.
  pose proof (field_generic f_host s_host (fun v => v) assign_host ps fwd0 EO) as H3.
  pose proof (field_generic f_scheme s_proto lower assign_scheme ps fwd0 EO) as H4.
  destruct (applyE ps fwd0) as [a b c d]. cbn [f_src f_dest f_host f_scheme fwd0] in *.
  unfold fwd_of. subst a b c d.
  destruct (param s_for ps), (param s_by ps), (param s_host ps), (param s_proto ps); reflexivity.
Qed.

Lemma fwd_elements_ok f : forall s elems, fwd_elements f s = Some elems ->
  forallb element_ok elems = true.
Proof.
  induction f as [|f IH]; intros s elems H; [discriminate|]. cbn [fwd_elements] in H.
  destruct (fwd_element (S (List.length s)) s) as [[ps r]|]; [|discriminate].
  destruct (element_ok ps) eqn:EO; cbn [negb] in H; [|discriminate].
  destruct r as [|x r'].
  - injection H as <-. cbn [forallb]. rewrite EO. reflexivity.
  - destruct (skip_ows (x :: r')) as [|c r2]; [discriminate|]. destruct (c =? comma); [|discriminate].
    destruct (fwd_elements f (skip_ows r2)) as [l|] eqn:FL; [|discriminate]. injection H as <-.
    cbn [forallb]. rewrite EO, (IH _ _ FL). reflexivity.
Qed.

Theorem forwarded_valid v l : rfc_forwarded v = Some l -> parse_forwarded v = l.
Proof.
  unfold rfc_forwarded, rfc_forwarded_pairs. destruct (fwd_elements (S (List.length v)) v) as [elems|] eqn:FE;
    [|discriminate]. intro H. injection H as <-.
  unfold parse_forwarded. rewrite (loop_elements _ _ _ FE (S (List.length v)) [] ltac:(lia)). cbn [app].
  apply map_ext_in. intros ps Hps. apply element_reading.
  pose proof (fwd_elements_ok _ _ _ FE) as OK. rewrite forallb_forall in OK. apply OK, Hps.
Qed.
