From Coq Require Import ZArith NArith List Bool String.
From Coq Require Import ExtrOcamlBasic.
From Falcon.lib Require Import Wire PyStr.
From Falcon.C09 Require Import Model Spec SpecRfc DateModel DateSpec.
Import ListNotations.
Open Scope Z_scope.

Definition v_crash (k : crash) : val :=
  I (match k with CValueError => 0 | CIndexError => 1 | CKeyError => 2 end).

(* (0 v) | (1) = 400 | (2 k) = crash *)
Definition v_res {A} (f : A -> val) (r : res A) : val :=
  match r with
  | Ok a => L [I 0; f a]
  | Http400 => L [I 1]
  | Crash k => L [I 2; v_crash k]
  end.

Definition v_etag (e : etag) : val :=
  match e with
  | Star => L [I 0]
  | Tag w v => L [I 1; vbool w; vstr v]
  end.

Definition v_cval (c : cval) : val :=
  match c with Raw s => L [I 0; vstr s] | Unq s => L [I 1; vstr s] end.

Definition v_fwd (e : fwd) : val :=
  L [vopt vstr (f_src e); vopt vstr (f_dest e); vopt vstr (f_host e); vopt vstr (f_scheme e)].

Definition d_env (v : val) : env :=
  {| e_scheme := dstr (nth_val 0 v); e_netloc := dstr (nth_val 1 v);
     e_root_path := dstr (nth_val 2 v); e_path := dstr (nth_val 3 v);
     e_query := dstr (nth_val 4 v); e_fwd_scheme := dstr (nth_val 5 v);
     e_fwd_host := dstr (nth_val 6 v) |}.

Definition d_uacc (v : val) : uacc :=
  nth (dnat v) [A_uri; A_prefix; A_relative_uri; A_forwarded_uri; A_forwarded_prefix] A_uri.

Definition v_pairZ (p : Z * Z) : val := L [I (fst p); I (snd p)].
Definition d_pairZ (v : val) : Z * Z := (dZ (nth_val 0 v), dZ (nth_val 1 v)).
Definition v_hostport (p : list N * option Z) : val := L [vstr (fst p); vopt I (snd p)].

Definition d_date (v : val) : date :=
  mk_date (dZ (nth_val 0 v)) (dZ (nth_val 1 v)) (dZ (nth_val 2 v)) (dZ (nth_val 3 v)) (dZ (nth_val 4 v))
          (dZ (nth_val 5 v)).
Definition v_date (d : date) : val := L [I (yr d); I (mo d); I (dy d); I (hh d); I (mi d); I (ss d)].

Definition run (v : val) : val :=
  match v with
  | L [I 0; asgi; hdr] =>
    v_res (vopt I) ((if dbool asgi then content_length_asgi else content_length_wsgi) (dopt dstr hdr))
  | L [I 1; hdr] => v_res (vopt v_pairZ) (range (dopt dstr hdr))
  | L [I 2; hdr] => v_res (vopt vstr) (range_unit (dopt dstr hdr))
  | L [I 3; f; hdr; sn] => v_res vstr (host_acc (dbool f) (dopt dstr hdr) (dstr sn))
  | L [I 4; f; hdr; https; sp] => v_res (vopt I) (port_acc (dbool f) (dopt dstr hdr) (dbool https) (dZ sp))
  | L [I 5; f; hdr; sn] => v_res (vopt vstr) (subdomain_acc (dbool f) (dopt dstr hdr) (dstr sn))
  | L [I 6; hdr] => vopt (vlist v_etag) (if_match_acc (dopt dstr hdr))
  | L [I 7; f; hdr] =>
    match dopt dstr hdr with
    | Some (c :: s) => vlist (fun p => L [vstr (fst p); vlist v_cval (snd p)])
                             (parse_cookie_header (dbool f) (c :: s))
    | _ => L []
    end
  | L [I 8; hdr] => vlist v_fwd (parse_forwarded (dstr hdr))
  | L [I 9; f; asgi; fw; xff; xreal; remote] =>
    v_res (vlist vstr) (access_route (dbool f) (dbool asgi) (dopt dstr fw) (dopt dstr xff)
                                     (dopt dstr xreal) (dstr remote))
  | L [I 10; e; l] => vlist vstr (fst (reads (d_env e) (dlist d_uacc l) cache0))
  | L [I 11; fw; xp; scheme] => vstr (forwarded_scheme (dopt dstr fw) (dopt dstr xp) (dstr scheme))
  | L [I 12; fw; xh; netloc] => vstr (forwarded_host (dopt dstr fw) (dopt dstr xh) (dstr netloc))
  | L [I 13; f; host; d] => v_res v_hostport (parse_host (dbool f) (dstr host) (dopt dZ d))
  (* oracles on implementation observations *)
  | L [I 20; hdr; kind; value] => vbool (cl_ok (dstr hdr) (dN kind) (dopt dZ value))
  | L [I 21; hdr; kind; value] => vbool (range_ok (dstr hdr) (dN kind) (dopt d_pairZ value))
  | L [I 22; hdr; d; kind; h; p] =>
    vbool (host_ok (dstr hdr) (dopt dZ d) (dN kind) (dstr h) (dopt dZ p))
  | L [I 23; name] => vstr (mangle (dstr name))
  (* RFC-level readings (SpecRfc.v): () = not in the valid language, (x) = the reading *)
  | L [I 30; hdr] => vopt (vlist v_etag) (rfc_etags (dstr hdr))
  | L [I 31; hdr] =>
    vopt (fun pairs => L [vlist (fun p => L [vstr (fst p); v_cval (snd p)]) pairs;
                          vlist (fun p => L [vstr (fst p); vlist v_cval (snd p)]) (cookie_group pairs)])
         (rfc_cookie_string (dstr hdr))
  | L [I 32; hdr] => vopt (vlist v_fwd) (rfc_forwarded (dstr hdr))
  | L [I 33; asgi; fw; xff; xreal; remote] =>
    vopt (vlist vstr) (rfc_access_route (dbool asgi) (dopt dstr fw) (dopt dstr xff) (dopt dstr xreal) (dstr remote))
  | L [I 34; fw; xp; scheme] => vopt vstr (rfc_forwarded_scheme (dopt dstr fw) (dopt dstr xp) (dstr scheme))
  | L [I 35; fw; xh; netloc] => vopt vstr (rfc_forwarded_host (dopt dstr fw) (dopt dstr xh) (dstr netloc))
  | L [I 36; node] => vopt vstr (rfc_node (dstr node))
  (* HTTP dates *)
  | L [I 40; pad; d] => vstr (strftime_http (dbool pad) (d_date d))
  | L [I 41; s; obs] => vopt v_date (http_date_to_dt (dstr s) (dbool obs))
  | L [I 42; fixed; d; off] =>
    match dt_to_http (dbool fixed) (mk_pydt (d_date d) (dopt dZ off)) with
    | SText t => L [I 0; vstr t]
    | SOverflow => L [I 1]
    end
  | L [I 43; d] => I (weekday (d_date d))
  | L [I 44; d; off] => vopt v_date (to_utc (mk_pydt (d_date d) (dopt dZ off)))
  | L [I 45; s] => vopt v_date (rfc_imf_fixdate (dstr s))
  | L [I 46; s] => L [I (match header_as_datetime (dopt dstr s) false with Ok _ => 0 | Http400 => 1 | Crash _ => 2 end)]
  | _ => L [I (-1)]
  end.

Extraction "C09/model.ml" run.
