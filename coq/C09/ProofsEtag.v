(* C09 — If-Match / If-None-Match: a valid RFC 9110 entity-tag list is read exactly. *)
From Coq Require Import ZArith NArith List Bool Lia ZifyBool ZifyN Arith.
From Falcon.lib Require Import PyStr.
From Falcon.gen Require Import ConstsC09.
From Falcon.C09 Require Import Model Spec SpecRfc Proofs.
Import ListNotations.
Open Scope N_scope.

(* ------------------------------------------------------------------ strip() *)
Lemma rev_last {A} (s : list A) d : s <> [] -> rev s = last s d :: rev (removelast s).
Proof.
  intro H. rewrite (app_removelast_last d H) at 1. rewrite rev_app_distr. reflexivity.
Qed.

Lemma strip_set_id ws (s : str) :
  s <> [] -> char_in (hd 0 s) ws = false -> char_in (last s 0) ws = false -> strip_set ws s = s.
Proof.
  intros Hne Hh Hl. unfold strip_set, rstrip_set.
  assert (L : lstrip_set ws s = s).
  { destruct s as [|c tl]; [contradiction|]. cbn [hd] in Hh. cbn [lstrip_set]. rewrite Hh. reflexivity. }
  rewrite L, (rev_last s 0 Hne). cbn [lstrip_set]. rewrite Hl.
  rewrite <- (rev_last s 0 Hne). apply rev_involutive.
Qed.

(* prefix-dropping: skip_ows *)
Lemma skip_ows_split r : exists p, r = p ++ skip_ows r /\ forallb is_ows p = true.
Proof.
  induction r as [|c tl [p [E F]]]; [exists []; split; reflexivity|].
  cbn [skip_ows]. destruct (is_ows c) eqn:O.
  - exists (c :: p). cbn [app forallb]. rewrite O, F. split; [f_equal; exact E | reflexivity].
  - exists []. split; reflexivity.
Qed.

Lemma last_app_ne {A} (p s : list A) d : s <> [] -> last (p ++ s) d = last s d.
Proof.
  intro H. induction p as [|x p IH]; [reflexivity|]. cbn [app].
  destruct (p ++ s) eqn:E; [destruct p; [contradiction | discriminate]|].
  change (last (x :: a :: l) d) with (last (a :: l) d). exact IH.
Qed.

(* ------------------------------------------------------------------ one entity-tag *)
Lemma opaque_spec s v r :
  opaque_body s = Some (v, r) -> s = v ++ dq :: r /\ char_in dq v = false.
Proof.
  revert v r. induction s as [|c tl IH]; intros v r H; cbn [opaque_body] in H; [discriminate|].
  destruct (c =? dq) eqn:E.
  - injection H as <- <-. apply N.eqb_eq in E. subst. split; reflexivity.
  - destruct (is_etagc c); [|discriminate].
    destruct (opaque_body tl) as [[v' r']|] eqn:O; [|discriminate]. injection H as <- <-.
    destruct (IH _ _ eq_refl) as [-> N]. split; [reflexivity|].
    unfold char_in in *. cbn [existsb]. rewrite (N.eqb_sym dq c), E. exact N.
Qed.

Lemma until_quote_split v r : char_in dq v = false -> until_quote (v ++ dq :: r) = Some (v, r).
Proof.
  induction v as [|c v IH]; intro H; cbn [app until_quote].
  - rewrite N.eqb_refl. reflexivity.
  - unfold char_in in H. cbn [existsb] in H. apply orb_false_iff in H as [H1 H2].
    rewrite (N.eqb_sym c dq), H1, (IH H2). reflexivity.
Qed.

Lemma entity_tag_text s w v r :
  entity_tag s = Some (Tag w v, r) -> s = render_etag (Tag w v) ++ r /\ char_in dq v = false.
Proof.
  unfold entity_tag. destruct s as [|a tl]; [discriminate|].
  destruct (a =? dq) eqn:E1.
  - destruct (opaque_body tl) as [[v' r']|] eqn:O; [|discriminate]. intro H. injection H as <- <- <-.
    apply N.eqb_eq in E1. subst a. destruct (opaque_spec _ _ _ O) as [-> N].
    cbn [render_etag app]. rewrite <- app_assoc. split; [reflexivity | exact N].
  - destruct (a =? 87) eqn:E2; [|discriminate]. destruct tl as [|b [|c tl2]]; try discriminate.
    destruct ((b =? 47) && (c =? dq)) eqn:E3; [|discriminate].
    destruct (opaque_body tl2) as [[v' r']|] eqn:O; [|discriminate]. intro H. injection H as <- <- <-.
    apply andb_true_iff in E3 as [Eb Ec]. apply N.eqb_eq in E2, Eb, Ec. subst a b c.
    destruct (opaque_spec _ _ _ O) as [-> N]. cbn [render_etag app]. rewrite <- app_assoc.
    split; [reflexivity | exact N].
Qed.

Lemma entity_tag_not_star s t r : entity_tag s = Some (t, r) -> exists w v, t = Tag w v.
Proof.
  unfold entity_tag. destruct s as [|a tl]; [discriminate|].
  destruct (a =? dq).
  - destruct (opaque_body tl) as [[v' r']|]; [|discriminate]. intro H. injection H as <- <-. eauto.
  - destruct (a =? 87); [|discriminate]. destruct tl as [|b [|c tl2]]; try discriminate.
    destruct ((b =? 47) && (c =? dq)); [|discriminate].
    destruct (opaque_body tl2) as [[v' r']|]; [|discriminate]. intro H. injection H as <- <-. eauto.
Qed.

(* ------------------------------------------------------------------ findall over a valid list *)
Lemma scan_skip_char g c tl :
  (c =? dq) = false -> (c =? 87) = false -> (c =? 119) = false ->
  etag_scan (S g) (c :: tl) = etag_scan g tl.
Proof. intros H1 H2 H3. cbn [etag_scan]. rewrite H1, H2, H3. reflexivity. Qed.

Lemma scan_nil g : etag_scan g [] = [].
Proof. destruct g; reflexivity. Qed.

Lemma scan_tag g w v r :
  char_in dq v = false -> (List.length (render_etag (Tag w v) ++ r) <= g)%nat ->
  exists g', (List.length r <= g')%nat /\
             etag_scan g (render_etag (Tag w v) ++ r) = Tag w v :: etag_scan g' r.
Proof.
  intros N L. destruct g as [|g]; [destruct w; cbn in L; lia|].
  destruct w; cbn [render_etag app] in *.
  - exists g. split.
    + cbn [List.length] in L. rewrite !app_length in L. cbn [List.length] in L. lia.
    + cbn [etag_scan N.eqb Pos.eqb orb andb]. rewrite <- app_assoc. cbn [app].
      rewrite (until_quote_split v r N). reflexivity.
  - exists g. split.
    + cbn [List.length] in L. rewrite !app_length in L. cbn [List.length] in L. lia.
    + cbn [etag_scan N.eqb Pos.eqb orb andb]. rewrite <- app_assoc. cbn [app].
      rewrite (until_quote_split v r N). reflexivity.
Qed.

Lemma ows_chars c : is_ows c = true -> (c =? dq) = false /\ (c =? 87) = false /\ (c =? 119) = false.
Proof. unfold is_ows, dq. lia. Qed.

Lemma scan_skip_ows r : forall g, (List.length r <= g)%nat ->
  exists g', (List.length (skip_ows r) <= g')%nat /\ etag_scan g r = etag_scan g' (skip_ows r).
Proof.
  induction r as [|c tl IH]; intros g L.
  - exists g. split; [exact L | reflexivity].
  - cbn [skip_ows]. destruct (is_ows c) eqn:O.
    + destruct g as [|g]; [cbn in L; lia|]. cbn [List.length] in L.
      destruct (IH g ltac:(lia)) as (g' & L' & E). exists g'. split; [exact L'|].
      destruct (ows_chars c O) as (H1 & H2 & H3). rewrite (scan_skip_char g c tl H1 H2 H3). exact E.
    + exists g. split; [exact L | reflexivity].
Qed.

Theorem scan_valid_list f : forall s l,
  etag_list f s = Some l -> forall g, (List.length s <= g)%nat -> etag_scan g s = l.
Proof.
  induction f as [|f IH]; intros s l H g L; [discriminate|].
  cbn [etag_list] in H. destruct (entity_tag s) as [[t r]|] eqn:T; [|discriminate].
  destruct (entity_tag_not_star _ _ _ T) as (w & v & ->).
  destruct (entity_tag_text _ _ _ _ T) as [-> N].
  destruct (scan_tag g w v r N L) as (g1 & L1 & E1). rewrite E1.
  destruct r as [|x r'].
  - injection H as <-. rewrite scan_nil. reflexivity.
  - destruct (skip_ows (x :: r')) as [|c r2] eqn:SK; [discriminate|].
    destruct (c =? comma) eqn:EC; [|discriminate].
    destruct (etag_list f (skip_ows r2)) as [l'|] eqn:EL; [|discriminate]. injection H as <-.
    f_equal.
    destruct (scan_skip_ows (x :: r') g1 L1) as (g2 & L2 & E2). rewrite E2, SK.
    rewrite SK in L2. destruct g2 as [|g2]; [cbn in L2; lia|]. cbn [List.length] in L2.
    apply N.eqb_eq in EC. subst c.
    rewrite (scan_skip_char g2 comma r2 eq_refl eq_refl eq_refl).
    destruct (scan_skip_ows r2 g2 ltac:(lia)) as (g3 & L3 & E3). rewrite E3.
    apply (IH _ _ EL g3 L3).
Qed.

(* ------------------------------------------------------------------ shape of a valid list *)
Lemma etag_list_shape f : forall s l, etag_list f s = Some l ->
  s <> [] /\ l <> [] /\ (hd 0 s = dq \/ hd 0 s = 87) /\ last s 0 = dq.
Proof.
  induction f as [|f IH]; intros s l H; [discriminate|].
  cbn [etag_list] in H. destruct (entity_tag s) as [[t r]|] eqn:T; [|discriminate].
  destruct (entity_tag_not_star _ _ _ T) as (w & v & ->).
  destruct (entity_tag_text _ _ _ _ T) as [-> N].
  assert (Hd : hd 0 (render_etag (Tag w v) ++ r) = dq \/ hd 0 (render_etag (Tag w v) ++ r) = 87)
    by (destruct w; cbn; auto).
  assert (Ne : render_etag (Tag w v) ++ r <> []) by (destruct w; discriminate).
  destruct r as [|x r'].
  - injection H as <-. repeat split; try assumption; [discriminate|].
    rewrite app_nil_r. unfold render_etag.
    replace ((if w then [87; 47] else []) ++ dq :: v ++ [dq])
      with (((if w then [87; 47] else []) ++ dq :: v) ++ [dq]) by (rewrite <- app_assoc; reflexivity).
    apply last_app_single.
  - destruct (skip_ows (x :: r')) as [|c r2] eqn:SK; [discriminate|].
    destruct (c =? comma); [|discriminate].
    destruct (etag_list f (skip_ows r2)) as [l'|] eqn:EL; [|discriminate]. injection H as <-.
    destruct (IH _ _ EL) as (Ne2 & _ & _ & La).
    repeat split; try assumption; [discriminate|].
    destruct (skip_ows_split (x :: r')) as (p1 & E1 & _). destruct (skip_ows_split r2) as (p2 & E2 & _).
    rewrite last_app_ne by discriminate. rewrite E1, SK, last_app_ne by discriminate.
    change (c :: r2) with ([c] ++ r2). rewrite E2.
    rewrite app_assoc, last_app_ne by exact Ne2. exact La.
Qed.

Lemma skip_ows_In r c r2 : skip_ows r = c :: r2 -> In c r.
Proof.
  intro H. destruct (skip_ows_split r) as (p & E & _). rewrite E, H. apply in_or_app. right. left. reflexivity.
Qed.

(* ------------------------------------------------------------------ the theorem *)
Theorem etags_valid v l : rfc_etags v = Some l -> parse_etags v = Some l.
Proof.
  unfold rfc_etags. destruct (str_eqb v [star_c]) eqn:ES.
  { apply str_eqb_eq in ES. subst v. intro H. injection H as <-. vm_compute. reflexivity. }
  intro H. destruct (etag_list_shape _ _ _ H) as (Ne & Nl & Hd & La).
  assert (ST : strip_ws v = v).
  { apply strip_set_id; [exact Ne | | rewrite La; reflexivity].
    destruct Hd as [-> | ->]; reflexivity. }
  unfold parse_etags. rewrite ST. destruct v as [|c0 v0] eqn:Ev; [contradiction|]. rewrite <- Ev in *.
  rewrite ES.
  destruct (char_in comma v) eqn:CM; cbn [negb].
  - rewrite (scan_valid_list _ _ _ H (List.length v) (le_n _)).
    destruct l; [contradiction | reflexivity].
  - (* no comma at all: a single tag *)
    destruct (List.length v) as [|f] eqn:Lf; [discriminate|]. cbn [etag_list] in H.
    destruct (entity_tag v) as [[t r]|] eqn:T; [|discriminate].
    destruct (entity_tag_not_star _ _ _ T) as (w & x & ->).
    destruct (entity_tag_text _ _ _ _ T) as [E N].
    destruct r as [|y r'].
    + injection H as <-. rewrite E, app_nil_r. f_equal. f_equal. apply etag_loads_render.
    + exfalso. destruct (skip_ows (y :: r')) as [|c r2] eqn:SK; [discriminate|].
      destruct (c =? comma) eqn:EC; [|discriminate]. apply N.eqb_eq in EC. subst c.
      apply skip_ows_In in SK.
      assert (In comma v) by (rewrite E; apply in_or_app; right; exact SK).
      apply char_in_In in H0. congruence.
Qed.

Theorem if_match_valid v l : rfc_etags v = Some l -> if_match_acc (Some v) = Some l.
Proof.
  intro H. pose proof (etags_valid v l H) as P. unfold if_match_acc.
  destruct v as [|c s]; [|exact P].
  unfold rfc_etags in H. cbn in H. discriminate.
Qed.
