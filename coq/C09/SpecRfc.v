(* C09 — independent RFC-level recognisers / readers for the list-valued headers:
   entity-tag lists (RFC 9110 8.8.3, 13.1.1/13.1.2), cookie-string (RFC 6265 4.2.1),
   Forwarded (RFC 7239 4, 6) and the address chain built from it.  Written as recursive-descent
   readers over the ABNF; nothing here mentions a regular expression, split() or falcon's tables. *)
From Coq Require Import ZArith NArith List Bool String.
From Falcon.lib Require Import PyStr.
From Falcon.C09 Require Import Model.
Import ListNotations.
Open Scope N_scope.

Definition is_ows (c : N) : bool := (c =? 32) || (c =? 9).
Fixpoint skip_ows (s : str) : str :=
  match s with c :: tl => if is_ows c then skip_ows tl else s | [] => [] end.

(* ------------------------------------------------------------------ entity-tag lists
   If-Match = "*" / #entity-tag ; entity-tag = [ "W/" ] DQUOTE *etagc DQUOTE ;
   etagc = %x21 / %x23-7E / obs-text ; list = element *( OWS "," OWS element ) *)
Definition is_etagc (c : N) : bool :=
  (c =? 33) || ((35 <=? c) && (c <=? 126)) || ((128 <=? c) && (c <=? 255)).

(* after the opening DQUOTE: (opaque value, rest after the closing DQUOTE) *)
Fixpoint opaque_body (s : str) : option (str * str) :=
  match s with
  | [] => None
  | c :: tl =>
    if c =? dq then Some ([], tl)
    else if is_etagc c then
      match opaque_body tl with Some (v, r) => Some (c :: v, r) | None => None end
    else None
  end.

Definition entity_tag (s : str) : option (etag * str) :=
  match s with
  | a :: tl =>
    if a =? dq then
      match opaque_body tl with Some (v, r) => Some (Tag false v, r) | None => None end
    else if a =? 87 then
      match tl with
      | b :: c :: tl2 =>
        if (b =? 47) && (c =? dq) then
          match opaque_body tl2 with Some (v, r) => Some (Tag true v, r) | None => None end
        else None
      | _ => None
      end
    else None
  | [] => None
  end.

Fixpoint etag_list (fuel : nat) (s : str) : option (list etag) :=
  match fuel with
  | O => None
  | S f =>
    match entity_tag s with
    | None => None
    | Some (t, r) =>
      match r with
      | [] => Some [t]
      | _ :: _ =>
        match skip_ows r with
        | c :: r2 => if c =? comma
                     then match etag_list f (skip_ows r2) with Some l => Some (t :: l) | None => None end
                     else None
        | [] => None
        end
      end
    end
  end.

Definition rfc_etags (v : str) : option (list etag) :=
  if str_eqb v [star_c] then Some [Star] else etag_list (List.length v) v.

(* ------------------------------------------------------------------ cookie-string (RFC 6265 4.2.1)
   cookie-string = cookie-pair *( ";" SP cookie-pair ) ; cookie-pair = cookie-name "=" cookie-value ;
   cookie-name = token (RFC 2616) ; cookie-value = *cookie-octet / ( DQUOTE *cookie-octet DQUOTE ) *)
Definition is_separator (c : N) : bool :=
  existsb (N.eqb c) [40; 41; 60; 62; 64; 44; 59; 58; 92; 34; 47; 91; 93; 63; 61; 123; 125; 32; 9].
Definition is_ctoken (c : N) : bool := (32 <? c) && (c <? 127) && negb (is_separator c).
Definition is_cookie_octet (c : N) : bool :=
  (c =? 33) || ((35 <=? c) && (c <=? 43)) || ((45 <=? c) && (c <=? 58))
  || ((60 <=? c) && (c <=? 91)) || ((93 <=? c) && (c <=? 126)).

(* a quoted value is handed to the unquoting oracle (Unq), exactly as the accessor does *)
Definition cookie_pair (s : str) : option (str * cval * str) :=
  let '(name, r1) := take_while is_ctoken s in
  match name, r1 with
  | _ :: _, e :: r2 =>
    if e =? eq_c then
      match r2 with
      | q :: r3 =>
        if q =? dq then
          let '(body, r4) := take_while is_cookie_octet r3 in
          match r4 with
          | q2 :: r5 => if q2 =? dq then Some (name, Unq (dq :: body ++ [dq]), r5) else None
          | [] => None
          end
        else let '(body, r4) := take_while is_cookie_octet r2 in Some (name, Raw body, r4)
      | [] => Some (name, Raw [], [])
      end
    else None
  | _, _ => None
  end.

Fixpoint cookie_pairs (fuel : nat) (s : str) : option (list (str * cval)) :=
  match fuel with
  | O => None
  | S f =>
    match cookie_pair s with
    | None => None
    | Some (n, v, r) =>
      match r with
      | [] => Some [(n, v)]
      | a :: b :: r' =>
        if (a =? semicolon) && (b =? 32)
        then match cookie_pairs f r' with Some l => Some ((n, v) :: l) | None => None end
        else None
      | _ => None
      end
    end
  end.

Definition rfc_cookie_string (v : str) : option (list (str * cval)) := cookie_pairs (List.length v) v.

(* the multi-valued reading: every name with all its values, in order of first appearance *)
Definition cookie_group (pairs : list (str * cval)) : list (str * list cval) :=
  fold_left (fun d p => cookie_add d (fst p) (snd p)) pairs [].

(* ------------------------------------------------------------------ Forwarded (RFC 7239 4)
   Forwarded = 1#forwarded-element ; forwarded-element = [ pair ] *( ";" [ pair ] ) ;
   pair = token "=" ( token / quoted-string ) ; token = 1*tchar (RFC 7230 3.2.6) ;
   quoted-string = DQUOTE *( qdtext / quoted-pair ) DQUOTE.  obs-text is left out of the valid
   language (a sender must not generate it; falcon documents that it does not accept it). *)
Definition is_alpha (c : N) : bool := ((65 <=? c) && (c <=? 90)) || ((97 <=? c) && (c <=? 122)).
Definition is_tchar_rfc (c : N) : bool :=
  existsb (N.eqb c) [33; 35; 36; 37; 38; 39; 42; 43; 45; 46; 94; 95; 96; 124; 126] || isdigit c || is_alpha c.
Definition is_qdtext_rfc (c : N) : bool :=
  (c =? 9) || (c =? 32) || (c =? 33) || ((35 <=? c) && (c <=? 91)) || ((93 <=? c) && (c <=? 126)).
Definition is_qpchar_rfc (c : N) : bool := (c =? 9) || ((32 <=? c) && (c <=? 126)).

(* after the opening DQUOTE: (the value with quoted-pairs resolved, rest after the closing DQUOTE) *)
Fixpoint qstring_body (s : str) : option (str * str) :=
  match s with
  | [] => None
  | c :: tl =>
    if c =? dq then Some ([], tl)
    else if c =? bsl then
      match tl with
      | d :: tl2 =>
        if is_qpchar_rfc d then
          match qstring_body tl2 with Some (v, r) => Some (d :: v, r) | None => None end
        else None
      | [] => None
      end
    else if is_qdtext_rfc c then
      match qstring_body tl with Some (v, r) => Some (c :: v, r) | None => None end
    else None
  end.

Definition fwd_value (s : str) : option (str * str) :=
  match s with
  | q :: tl =>
    if q =? dq then qstring_body tl
    else let '(tok, r) := take_while is_tchar_rfc s in
         match tok with [] => None | _ :: _ => Some (tok, r) end
  | [] => None
  end.

(* (parameter name, value, rest) *)
Definition fwd_pair (s : str) : option (str * str * str) :=
  let '(name, r1) := take_while is_tchar_rfc s in
  match name, r1 with
  | _ :: _, e :: r2 =>
    if e =? eq_c then
      match fwd_value r2 with Some (v, r3) => Some (name, v, r3) | None => None end
    else None
  | _, _ => None
  end.

(* forwarded-element: the pairs present, and the rest *)
Fixpoint fwd_element (fuel : nat) (s : str) : option (list (str * str) * str) :=
  match fuel with
  | O => None
  | S f =>
    let more (ps : list (str * str)) (r : str) :=
      match r with
      | c :: r' => if c =? semicolon
                   then match fwd_element f r' with
                        | Some (ps', r'') => Some (ps ++ ps', r'')
                        | None => None
                        end
                   else Some (ps, r)
      | [] => Some (ps, [])
      end in
    match fwd_pair s with
    | Some (n, v, r) => more [(n, v)] r
    | None => more [] s
    end
  end.

(* parameter names are case-insensitive and occur at most once per element *)
Fixpoint distinct_names (ns : list str) : bool :=
  match ns with [] => true | n :: tl => negb (mem n tl) && distinct_names tl end.

Definition element_ok (ps : list (str * str)) : bool :=
  match ps with [] => false | _ :: _ => distinct_names (map (fun p => lower (fst p)) ps) end.

Fixpoint fwd_elements (fuel : nat) (s : str) : option (list (list (str * str))) :=
  match fuel with
  | O => None
  | S f =>
    match fwd_element (S (List.length s)) s with
    | None => None
    | Some (ps, r) =>
      if negb (element_ok ps) then None else
      match r with
      | [] => Some [ps]
      | _ :: _ =>
        match skip_ows r with
        | c :: r2 => if c =? comma
                     then match fwd_elements f (skip_ows r2) with Some l => Some (ps :: l) | None => None end
                     else None
        | [] => None
        end
      end
    end
  end.

Definition rfc_forwarded_pairs (v : str) : option (list (list (str * str))) :=
  fwd_elements (S (List.length v)) v.

(* the reading of one element: the value of the parameter with that (lower-cased) name *)
Fixpoint param (key : str) (ps : list (str * str)) : option str :=
  match ps with
  | [] => None
  | (n, v) :: tl => if str_eqb (lower n) key then Some v else param key tl
  end.

Definition fwd_of (ps : list (str * str)) : fwd :=
  {| f_src := param s_for ps; f_dest := param s_by ps; f_host := param s_host ps;
     f_scheme := option_map lower (param s_proto ps) |}.

Definition rfc_forwarded (v : str) : option (list fwd) :=
  option_map (map fwd_of) (rfc_forwarded_pairs v).

(* ---- RFC 7239 6: node = nodename [ ":" node-port ] ;
   nodename = IPv4address / "[" IPv6address "]" / "unknown" / obfnode ; node-port = port / obfport.
   The reader returns the nodename without brackets and port (characters of names are not
   restricted further than "no colon, no bracket": falcon does not validate them either). *)
Definition is_obf_char (c : N) : bool := is_alpha c || isdigit c || (c =? 46) || (c =? 95) || (c =? 45).
Definition node_port_ok (p : str) : bool :=
  (nonempty p && forallb isdigit p) ||
  match p with c :: (_ :: _) as tl => (c =? 95) && forallb is_obf_char tl | _ => false end.

Definition rfc_node (v : str) : option str :=
  match v with
  | c :: tl =>
    if c =? lbr then
      let '(inner, found, after) := partition_chr rbr tl in
      if negb found then None
      else if char_in lbr inner || negb (nonempty inner) then None
      else match after with
           | [] => Some inner
           | d :: port => if (d =? colon) && node_port_ok port then Some inner else None
           end
    else
      let '(name, found, port) := partition_chr colon v in
      if char_in rbr name then None
      else if negb found then Some v
      else if nonempty name && node_port_ok port then Some name else None
  | [] => None
  end.

(* ---- the address chain (req.access_route) and the forwarded scheme / host *)
Fixpoint nodes_of (l : list fwd) : option (list str) :=
  match l with
  | [] => Some []
  | e :: tl =>
    match f_src e with
    | None => nodes_of tl
    | Some src => match rfc_node src, nodes_of tl with
                  | Some n, Some r => Some (n :: r)
                  | _, _ => None
                  end
    end
  end.

(* X-Forwarded-For: address *( OWS "," OWS address ), addresses free of commas and whitespace *)
Definition is_addr_char (c : N) : bool := (32 <? c) && (c <? 127) && negb (c =? comma).
Fixpoint xff_list (fuel : nat) (s : str) : option (list str) :=
  match fuel with
  | O => None
  | S f =>
    let '(a, r) := take_while is_addr_char s in
    match a with
    | [] => None
    | _ :: _ =>
      match r with
      | [] => Some [a]
      | _ :: _ => match skip_ows r with
                  | c :: r2 => if c =? comma
                               then match xff_list f (skip_ows r2) with Some l => Some (a :: l) | None => None end
                               else None
                  | [] => None
                  end
      end
    end
  end.

Definition with_remote (asgi : bool) (route : list str) (remote : str) : list str :=
  match route with
  | [] => if asgi && negb (nonempty remote) then [] else [remote]
  | _ :: _ => if str_eqb (last route []) remote then route else route ++ [remote]
  end.

(* Forwarded > X-Forwarded-For > X-Real-IP > remote address; None = some header is not valid *)
Definition rfc_access_route (asgi : bool) (fwd_hdr xff xreal : option str) (remote : str)
  : option (list str) :=
  match fwd_hdr with
  | Some h => match rfc_forwarded h with
              | Some l => option_map (fun r => with_remote asgi r remote) (nodes_of l)
              | None => None
              end
  | None =>
    match xff with
    | Some v => option_map (fun r => with_remote asgi r remote) (xff_list (S (List.length v)) v)
    | None => match xreal with
              | Some v => Some (with_remote asgi [v] remote)
              | None => Some (with_remote asgi [] remote)
              end
    end
  end.

Definition first_param (sel : fwd -> option str) (l : list fwd) : option str :=
  match l with e :: _ => match sel e with Some (c :: s) => Some (c :: s) | _ => None end | [] => None end.

Definition rfc_forwarded_scheme (fwd_hdr xproto : option str) (scheme : str) : option str :=
  match fwd_hdr with
  | Some h => match rfc_forwarded h with
              | Some l => Some (match first_param f_scheme l with Some s => s | None => scheme end)
              | None => None
              end
  | None => Some (match xproto with Some v => lower v | None => scheme end)
  end.

Definition rfc_forwarded_host (fwd_hdr xhost : option str) (netloc : str) : option str :=
  match fwd_hdr with
  | Some h => match rfc_forwarded h with
              | Some l => Some (match first_param f_host l with Some s => s | None => netloc end)
              | None => None
              end
  | None => Some (match xhost with Some v => v | None => netloc end)
  end.
