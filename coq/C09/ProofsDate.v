(* C09 — HTTP dates: a strict IMF-fixdate is read exactly; what the setters write is a strict
   IMF-fixdate of the same (UTC) instant; hence every valid datetime round-trips. *)
From Coq Require Import ZArith NArith List Bool Lia ZifyBool ZifyN Arith.
From Falcon.lib Require Import PyStr.
From Falcon.gen Require Import ConstsC09.
From Falcon.C09 Require Import Model Proofs DateModel DateSpec.
Import ListNotations.
Open Scope N_scope.
#[local] Ltac Zify.zify_post_hook ::= Z.div_mod_to_equations.

(* ------------------------------------------------------------------ characters *)
Lemma digit_not_ws c : isdigit c = true -> is_ws c = false.
Proof.
  intro H. unfold is_ws. apply (digit_not_in c str_ws_latin1 H). vm_compute. reflexivity.
Qed.

Lemma ws1_sp c rest : is_ws c = false -> ws1 (32 :: c :: rest) = Some (c :: rest).
Proof. intro H. unfold ws1. change (is_ws 32) with true. cbn [skip_ws]. rewrite H. reflexivity. Qed.

Lemma lit1 x rest : lit_ci [x] (x :: rest) = Some rest.
Proof. cbn [lit_ci]. rewrite N.eqb_refl. reflexivity. Qed.

(* ------------------------------------------------------------------ numeric fields *)
Lemma two_range a b v : two a b = Some v ->
  isdigit a = true /\ isdigit b = true /\ v = (dval a * 10 + dval b)%Z /\ (0 <= v <= 99)%Z.
Proof.
  unfold two. destruct (isdigit a) eqn:A; [|discriminate]. destruct (isdigit b) eqn:B; [|discriminate].
  cbn [andb]. intro H. injection H as <-. repeat split. 1,2: unfold dval, isdigit in *; lia.
Qed.

Lemma p_day_two a b c rest v :
  two a b = Some v -> (1 <= v <= 31)%Z -> isdigit c = false ->
  p_day (a :: b :: c :: rest) = Some (v, c :: rest).
Proof.
  intros T R _. destruct (two_range _ _ _ T) as (A & B & -> & _).
  unfold p_day. replace (a =? 32) with false by (unfold isdigit in A; lia). cbn [andb].
  unfold num21. rewrite A, B. cbn [negb andb].
  replace (((a =? 51) && (b <=? 49)) || (a =? 49) || (a =? 50) || ((a =? 48) && negb (b =? 48))) with true
    by (unfold dval, isdigit in *; lia).
  reflexivity.
Qed.

Lemma p_hour_two a b rest v :
  two a b = Some v -> (v <= 23)%Z -> p_hour (a :: b :: rest) = Some (v, rest).
Proof.
  intros T R. destruct (two_range _ _ _ T) as (A & B & -> & _).
  unfold p_hour, num21. rewrite A, B. cbn [negb andb].
  replace (((a =? 50) && (b <=? 51)) || (a <=? 49)) with true by (unfold dval, isdigit in *; lia).
  reflexivity.
Qed.

Lemma p_min_two a b rest v :
  two a b = Some v -> (v <= 59)%Z -> p_min (a :: b :: rest) = Some (v, rest).
Proof.
  intros T R. destruct (two_range _ _ _ T) as (A & B & -> & _).
  unfold p_min, num21. rewrite A, B. cbn [negb andb].
  replace (a <=? 53) with true by (unfold dval, isdigit in *; lia). reflexivity.
Qed.

Lemma p_sec_two a b rest v :
  two a b = Some v -> (v <= 59)%Z -> p_sec (a :: b :: rest) = Some (v, rest).
Proof.
  intros T R. destruct (two_range _ _ _ T) as (A & B & -> & _).
  unfold p_sec, num21. rewrite A, B. cbn [negb andb].
  replace (((a =? 54) && (b <=? 49)) || (a <=? 53)) with true by (unfold dval, isdigit in *; lia).
  reflexivity.
Qed.

Lemma p_year4_two a b c d rest hi lo :
  two a b = Some hi -> two c d = Some lo -> p_year4 (a :: b :: c :: d :: rest) = Some ((hi * 100 + lo)%Z, rest).
Proof.
  intros T1 T2. destruct (two_range _ _ _ T1) as (A & B & -> & _). destruct (two_range _ _ _ T2) as (C & D & -> & _).
  unfold p_year4. rewrite A, B, C, D. cbn [andb]. f_equal. f_equal. lia.
Qed.

(* ------------------------------------------------------------------ names *)
Lemma find_name_In n tbl : forall i k, find_name n tbl i = Some k -> In n tbl.
Proof.
  induction tbl as [|x tl IH]; intros i k H; cbn [find_name] in H; [discriminate|].
  destruct (str_eqb n x) eqn:E; [apply str_eqb_eq in E; subst; left; reflexivity|]. right. apply (IH _ _ H).
Qed.

Lemma lit_ci_same_len l : forall nm rest, List.length l = List.length nm ->
  lit_ci l (nm ++ rest) = match lit_ci l nm with Some _ => Some rest | None => None end.
Proof.
  induction l as [|x l IH]; intros nm rest L; destruct nm as [|c nm]; try discriminate; [reflexivity|].
  cbn [app lit_ci]. destruct (lower_chr c =? lower_chr x); [|reflexivity]. apply IH. cbn in L. lia.
Qed.

Lemma name_alt_app order : forall nm rest n r,
  forallb (fun x => Nat.eqb (List.length x) (List.length nm)) order = true ->
  name_alt order nm = Some (n, r) -> name_alt order (nm ++ rest) = Some (n, rest).
Proof.
  induction order as [|x order IH]; intros nm rest n r F H; [discriminate|].
  cbn [forallb] in F. apply andb_true_iff in F as [Fx Fo]. apply Nat.eqb_eq in Fx.
  cbn [name_alt] in *. rewrite (lit_ci_same_len x nm rest Fx).
  destruct (lit_ci x nm) as [r0|]; [injection H as <- _; reflexivity | apply (IH _ _ _ _ Fo H)].
Qed.

(* a case-sensitive RFC day name is one of strptime's alternatives (live tables) *)
Lemma day_name_ok w1 w2 w3 k :
  find_name [w1; w2; w3] rfc_day_names 0%Z = Some k ->
  exists n, forall rest, name_alt strp_a_order (w1 :: w2 :: w3 :: rest) = Some (n, rest).
Proof.
  intro H. apply find_name_In in H.
  assert (T : forallb (fun nm => match name_alt strp_a_order nm with Some _ => true | None => false end
                                 && forallb (fun x => Nat.eqb (List.length x) (List.length nm)) strp_a_order)
                      rfc_day_names = true) by (vm_compute; reflexivity).
  rewrite forallb_forall in T. specialize (T _ H). apply andb_true_iff in T as [T1 T2].
  destruct (name_alt strp_a_order [w1; w2; w3]) as [[n r]|] eqn:E; [|discriminate].
  exists n. intro rest. apply (name_alt_app strp_a_order [w1; w2; w3] rest n r T2 E).
Qed.

Lemma month_name_ok m1 m2 m3 mon :
  find_name [m1; m2; m3] rfc_month_names 1%Z = Some mon ->
  exists n, (forall rest, name_alt strp_b_order (m1 :: m2 :: m3 :: rest) = Some (n, rest))
            /\ index_of n date_a_month 1%Z = Some mon.
Proof.
  intro H. pose proof (find_name_In _ _ _ _ H) as Hin.
  assert (T : forallb (fun nm => match name_alt strp_b_order nm with
                                 | Some (n, _) => match index_of n date_a_month 1%Z, find_name nm rfc_month_names 1%Z with
                                                  | Some a, Some b => Z.eqb a b | _, _ => false end
                                 | None => false end
                                 && forallb (fun x => Nat.eqb (List.length x) (List.length nm)) strp_b_order)
                      rfc_month_names = true) by (vm_compute; reflexivity).
  rewrite forallb_forall in T. specialize (T _ Hin). apply andb_true_iff in T as [T1 T2].
  destruct (name_alt strp_b_order [m1; m2; m3]) as [[n r]|] eqn:E; [|discriminate].
  exists n. split; [intro rest; apply (name_alt_app strp_b_order [m1; m2; m3] rest n r T2 E)|].
  rewrite H in T1. destruct (index_of n date_a_month 1%Z) as [a|]; [|discriminate].
  apply Z.eqb_eq in T1. subst. reflexivity.
Qed.

Lemma month_letters_not_ws m1 m2 m3 mon :
  find_name [m1; m2; m3] rfc_month_names 1%Z = Some mon -> is_ws m1 = false.
Proof.
  intro H. apply find_name_In in H.
  assert (T : forallb (fun nm => negb (is_ws (hd 0 nm))) rfc_month_names = true) by (vm_compute; reflexivity).
  rewrite forallb_forall in T. specialize (T _ H). cbn [hd] in T. apply negb_true_iff in T. exact T.
Qed.

(* ------------------------------------------------------------------ a strict IMF-fixdate is read exactly *)
Lemma imf_generic last s d :
  (forall dd, run_items [last] [71; 77; 84] dd = Some dd) ->
  rfc_imf_fixdate s = Some d ->
  strptime ([Ia] ++ comma_ws ++ [Id; IWs; Ib; IWs; IY; IWs] ++ hms ++ [IWs; last]) s = Some d.
Proof.
  intro Hlast. unfold rfc_imf_fixdate.
  destruct s as [|w1 [|w2 [|w3 [|c1 [|p1 [|d1 [|d2 [|p2 [|m1 [|m2 [|m3 [|p3 [|y1 [|y2 [|y3 [|y4 [|p4 [|h1 [|h2 [|c2
                [|n1 [|n2 [|c3 [|s1 [|s2 [|p5 [|g [|m [|t [|x rest]]]]]]]]]]]]]]]]]]]]]]]]]]]]]]; try discriminate.
  destruct ((c1 =? 44) && (p1 =? 32) && (p2 =? 32) && (p3 =? 32) && (p4 =? 32) && (c2 =? 58) && (c3 =? 58)
            && (p5 =? 32) && (g =? 71) && (m =? 77) && (t =? 84)) eqn:Lits; [|discriminate].
  repeat (apply andb_true_iff in Lits as [Lits ?]).
  repeat match goal with H : (_ =? _) = true |- _ => apply N.eqb_eq in H; subst end.
  destruct (find_name [w1; w2; w3] rfc_day_names 0%Z) as [wd|] eqn:FW; [|discriminate].
  destruct (find_name [m1; m2; m3] rfc_month_names 1%Z) as [mon|] eqn:FM; [|discriminate].
  destruct (two d1 d2) as [day|] eqn:TD; [|discriminate].
  destruct (two y1 y2) as [yhi|] eqn:TY1; [|discriminate].
  destruct (two y3 y4) as [ylo|] eqn:TY2; [|discriminate].
  destruct (two h1 h2) as [hour|] eqn:TH; [|discriminate].
  destruct (two n1 n2) as [minute|] eqn:TN; [|discriminate].
  destruct (two s1 s2) as [sec|] eqn:TS; [|discriminate].
  destruct (validb (mk_date (yhi * 100 + ylo) mon day hour minute sec)) eqn:V; [|discriminate].
  intro H. injection H as <-.
  (* bounds from validity *)
  pose proof V as V'. unfold validb in V'. cbn [yr mo dy hh mi ss] in V'.
  repeat (apply andb_true_iff in V' as [V' ?]).
  assert (Dim : (dim (yhi * 100 + ylo) mon <= 31)%Z).
  { unfold dim. destruct (mon =? 2)%Z; [destruct (is_leap _); lia|].
    destruct ((mon =? 4)%Z || (mon =? 6)%Z || (mon =? 9)%Z || (mon =? 11)%Z); lia. }
  destruct (two_range _ _ _ TD) as (Dd1 & Dd2 & _). destruct (two_range _ _ _ TY1) as (Dy1 & _).
  destruct (two_range _ _ _ TH) as (Dh1 & _).
  unfold strptime, comma_ws, hms. cbn [app].
  remember [last] as tl2 eqn:Etl2. remember (IWs :: tl2) as tl1 eqn:Etl1.
  destruct (day_name_ok w1 w2 w3 wd FW) as (nw & EW).
  cbn [run_items]. rewrite EW, lit1.
  rewrite (ws1_sp d1 _ (digit_not_ws d1 Dd1)).
  rewrite (p_day_two d1 d2 32 _ day TD ltac:(lia) eq_refl).
  rewrite (ws1_sp m1 _ (month_letters_not_ws _ _ _ _ FM)).
  destruct (month_name_ok m1 m2 m3 mon FM) as (nm & EM & IM). rewrite EM, IM.
  rewrite (ws1_sp y1 _ (digit_not_ws y1 Dy1)).
  rewrite (p_year4_two y1 y2 y3 y4 _ yhi ylo TY1 TY2).
  rewrite (ws1_sp h1 _ (digit_not_ws h1 Dh1)).
  rewrite (p_hour_two h1 h2 _ hour TH ltac:(lia)), lit1.
  rewrite (p_min_two n1 n2 _ minute TN ltac:(lia)), lit1.
  rewrite (p_sec_two s1 s2 _ sec TS ltac:(lia)).
  subst tl1. cbn [run_items].
  change (ws1 [32; 71; 77; 84]) with (Some [71; 77; 84]). cbv iota.
  subst tl2. rewrite Hlast. cbn [yr mo dy hh mi ss date0].
  rewrite V. reflexivity.
Qed.

Theorem imf_fixdate_valid s d : rfc_imf_fixdate s = Some d -> http_date_to_dt s false = Some d.
Proof.
  intro H. unfold http_date_to_dt, fmt_imf. apply imf_generic; [|exact H].
  intro dd. cbn [run_items]. unfold s_gmt. cbn [lit_ci]. rewrite !N.eqb_refl. reflexivity.
Qed.

(* ------------------------------------------------------------------ what strftime writes *)
Lemma weekday_range d : (0 <= weekday d < 7)%Z.
Proof. unfold weekday. apply Z.mod_pos_bound. lia. Qed.

Lemma wd_shape w : (0 <= w < 7)%Z ->
  exists a b c, nth_name date_a_weekday w = [a; b; c] /\ find_name [a; b; c] rfc_day_names 0%Z = Some w.
Proof.
  intro H. assert (C : (w = 0 \/ w = 1 \/ w = 2 \/ w = 3 \/ w = 4 \/ w = 5 \/ w = 6)%Z) by lia.
  repeat destruct C as [-> | C]; try subst w; vm_compute; eauto.
Qed.

Lemma month_shape m : (1 <= m <= 12)%Z ->
  exists a b c, nth_name date_a_month (m - 1) = [a; b; c] /\ find_name [a; b; c] rfc_month_names 1%Z = Some m.
Proof.
  intro H.
  assert (C : (m = 1 \/ m = 2 \/ m = 3 \/ m = 4 \/ m = 5 \/ m = 6 \/ m = 7 \/ m = 8 \/ m = 9 \/ m = 10 \/ m = 11 \/ m = 12)%Z)
    by lia.
  repeat destruct C as [-> | C]; try subst m; vm_compute; eauto.
Qed.

Lemma digit_chr_ok k : (0 <= k <= 9)%Z -> isdigit (digit_chr k) = true /\ dval (digit_chr k) = k.
Proof. intro H. unfold isdigit, dval, digit_chr. split; lia. Qed.

Lemma two_digits hi lo : (0 <= hi <= 9)%Z -> (0 <= lo <= 9)%Z ->
  two (digit_chr hi) (digit_chr lo) = Some (hi * 10 + lo)%Z.
Proof.
  intros H1 H2. destruct (digit_chr_ok hi H1) as [A1 V1]. destruct (digit_chr_ok lo H2) as [A2 V2].
  unfold two. rewrite A1, A2, V1, V2. reflexivity.
Qed.

Lemma two_pad2 n : (0 <= n <= 99)%Z -> two (digit_chr (n / 10)) (digit_chr (n mod 10)) = Some n.
Proof. intro H. rewrite two_digits by lia. f_equal. lia. Qed.

Theorem strftime_is_imf d : validb d = true -> rfc_imf_fixdate (strftime_http true d) = Some d.
Proof.
  intro V. pose proof V as V'. unfold validb in V'. repeat (apply andb_true_iff in V' as [V' ?]).
  destruct d as [y m dd h mn s]. cbn [yr mo dy hh mi ss] in *.
  assert (Dim : (dim y m <= 31)%Z).
  { unfold dim. destruct (m =? 2)%Z; [destruct (is_leap _); lia|].
    destruct ((m =? 4)%Z || (m =? 6)%Z || (m =? 9)%Z || (m =? 11)%Z); lia. }
  destruct (wd_shape _ (weekday_range (mk_date y m dd h mn s))) as (w1 & w2 & w3 & EW & FW).
  destruct (month_shape m ltac:(lia)) as (m1 & m2 & m3 & EM & FM).
  unfold strftime_http. cbn [yr mo dy hh mi ss]. rewrite EW, EM. unfold pad2, pad4, s_gmt, sp. cbn [app].
  cbv beta iota delta [rfc_imf_fixdate]. cbn [N.eqb Pos.eqb andb].
  rewrite FW, FM.
  rewrite (two_pad2 dd) by lia. rewrite (two_pad2 h) by lia. rewrite (two_pad2 mn) by lia. rewrite (two_pad2 s) by lia.
  rewrite (two_digits (y / 1000) ((y / 100) mod 10)) by lia.
  rewrite (two_digits ((y / 10) mod 10) (y mod 10)) by lia.
  replace ((y / 1000 * 10 + (y / 100) mod 10) * 100 + (y / 10 mod 10 * 10 + y mod 10))%Z with y by lia.
  rewrite V. reflexivity.
Qed.

(* ------------------------------------------------------------------ the round trip *)
Theorem date_roundtrip d : validb d = true -> http_date_to_dt (strftime_http true d) false = Some d.
Proof. intro V. apply imf_fixdate_valid, strftime_is_imf, V. Qed.

(* setter -> header text -> accessor, for naive and aware datetimes: the (UTC) instant comes back *)
Theorem setter_roundtrip p t :
  dt_to_http true p = SText t ->
  exists u, to_utc p = Some u /\ t = strftime_http true u /\
            (validb u = true -> header_as_datetime (Some t) false = Ok (Some u)).
Proof.
  unfold dt_to_http. destruct (to_utc p) as [u|]; [|discriminate]. intro H. injection H as <-.
  exists u. repeat split. intro V. unfold header_as_datetime. rewrite (date_roundtrip u V). reflexivity.
Qed.

Lemma to_utc_naive f : to_utc (mk_pydt f None) = Some f /\ to_utc (mk_pydt f (Some 0%Z)) = Some f.
Proof. split; reflexivity. Qed.

(* naive (assumed UTC) and UTC-aware datetimes: all valid ones read back unchanged *)
Theorem setter_roundtrip_utc f off :
  validb f = true -> off = None \/ off = Some 0%Z ->
  exists t, dt_to_http true (mk_pydt f off) = SText t /\ header_as_datetime (Some t) false = Ok (Some f).
Proof.
  intros V O. exists (strftime_http true f). unfold dt_to_http.
  assert (E : to_utc (mk_pydt f off) = Some f) by (destruct O as [-> | ->]; reflexivity).
  rewrite E. split; [reflexivity|]. unfold header_as_datetime. rewrite (date_roundtrip f V). reflexivity.
Qed.

(* the accessors: a value, None, or a 400-class error — never anything else *)
Theorem date_acc_no_crash hdr obs k : header_as_datetime hdr obs <> Crash k.
Proof.
  unfold header_as_datetime. destruct hdr as [v|]; [|discriminate].
  destruct (http_date_to_dt v obs); discriminate.
Qed.

Theorem date_invalid_is_400 v obs :
  http_date_to_dt v obs = None -> header_as_datetime (Some v) obs = Http400.
Proof. intro H. unfold header_as_datetime. rewrite H. reflexivity. Qed.

Theorem imf_fixdate_acc_valid s d :
  rfc_imf_fixdate s = Some d -> header_as_datetime (Some s) false = Ok (Some d).
Proof. intro H. unfold header_as_datetime. rewrite (imf_fixdate_valid s d H). reflexivity. Qed.

(* the first obsolete-format alternative is the IMF-fixdate with a named zone: obs_date=True reads
   the same value *)
Theorem imf_fixdate_valid_obs s d : rfc_imf_fixdate s = Some d -> http_date_to_dt s true = Some d.
Proof.
  intro H. unfold http_date_to_dt, fmt_obs. cbn [first_format].
  rewrite (imf_generic IZ s d); [reflexivity | | exact H].
  intro dd. vm_compute. reflexivity.
Qed.

(* ------------------------------------------------------------------ the code as found *)
(* strftime('%Y') of this platform does not pad: years below 1000 are written with fewer than four
   digits, which is not an HTTP-date and does not read back *)
Theorem roundtrip_refuted_before_fix_year :
  strftime_Y_padded = false ->
  exists d t, validb d = true /\ dt_to_http false (mk_pydt d None) = SText t /\
              http_date_to_dt t false = None /\ rfc_imf_fixdate t = None.
Proof.
  intro H. exists (mk_date 999 12 31 23 59 59). eexists. split; [reflexivity|].
  unfold dt_to_http. rewrite H. split; [reflexivity|]. vm_compute. split; reflexivity.
Qed.

(* an aware non-UTC datetime was formatted with its own wall-clock fields and labelled GMT *)
Theorem roundtrip_refuted_before_fix_tz :
  exists p t u r, dt_to_http false p = SText t /\ to_utc p = Some u /\
                  http_date_to_dt t false = Some r /\ r <> u.
Proof.
  exists (mk_pydt (mk_date 2020 1 1 12 0 0) (Some 7200%Z)). eexists. eexists. eexists.
  split; [reflexivity|]. split; [vm_compute; reflexivity|]. split; [vm_compute; reflexivity|]. discriminate.
Qed.
