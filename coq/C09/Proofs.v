(* C09 — lemmas: no accessor escapes with a non-HTTP exception, valid values get their RFC
   reading, cached = fresh, header lookup ignores case. *)
From Coq Require Import ZArith NArith List Bool String Lia ZifyBool ZifyN ZifyNat.
From Falcon.lib Require Import PyStr.
From Falcon.gen Require Import ConstsC09.
From Falcon.C09 Require Import Model Spec.
Import ListNotations.
Open Scope N_scope.
Local Arguments str_eqb : simpl never.

(* ------------------------------------------------------------------ never another exception *)
Theorem content_length_no_crash (asgi : bool) v k :
  (if asgi then content_length_asgi v else content_length_wsgi v) <> @Crash (option Z) k.
Proof.
  destruct asgi; unfold content_length_asgi, content_length_wsgi; destruct v as [s|]; try discriminate.
  - destruct (py_int_bytes s) as [z|]; [destruct (z <? 0)%Z|destruct (negb (nonempty s))]; discriminate.
  - destruct (negb (nonempty s)); [discriminate|].
    destruct (py_int s) as [z|]; [destruct (z <? 0)%Z|]; discriminate.
Qed.

Theorem range_no_crash v k : range v <> Crash k.
Proof.
  unfold range. destruct v as [s|]; [|discriminate].
  destruct (char_in eq_c s); [|discriminate].
  destruct (partition_chr eq_c s) as [[u f] r].
  destruct (char_in comma r); [discriminate|].
  destruct (partition_chr dash r) as [[a sep] b].
  destruct (negb sep); [discriminate|].
  destruct (nonempty a && nonempty b).
  - destruct (py_int a) as [x|]; [|discriminate]. destruct (py_int b) as [y|]; [|discriminate].
    destruct (y <? x)%Z; discriminate.
  - destruct (nonempty a); [destruct (py_int a); discriminate|].
    destruct (nonempty b); [|discriminate].
    destruct (py_int b) as [y|]; [destruct (0 <=? - y)%Z|]; discriminate.
Qed.

Theorem range_unit_no_crash v k : range_unit v <> Crash k.
Proof.
  unfold range_unit. destruct v as [s|]; [|discriminate].
  destruct (nonempty s && char_in eq_c s); [|discriminate].
  destruct (partition_chr eq_c s) as [[u f] r]. discriminate.
Qed.

Lemma port_of_fixed p d k : port_of true p d <> Crash k.
Proof. unfold port_of. destruct (py_int p); discriminate. Qed.

Theorem parse_host_no_crash h d k : parse_host true h d <> Crash k.
Proof.
  unfold parse_host. destruct h as [|c tl]; [discriminate|].
  destruct (c =? lbr).
  - destruct (rfind2 rbr colon (c :: tl)) as [pos|]; [|discriminate].
    destruct (port_of true (skipn (pos + 2) (c :: tl)) d) eqn:E; try discriminate.
    exfalso. eapply port_of_fixed; exact E.
  - destruct (negb (Nat.eqb (count_chr colon (c :: tl)) 1)); [discriminate|].
    destruct (partition_chr colon (c :: tl)) as [[n f] p].
    destruct (port_of true p d) eqn:E; try discriminate.
    exfalso. eapply port_of_fixed; exact E.
Qed.

Theorem host_no_crash hdr sn k : host_acc true hdr sn <> Crash k.
Proof.
  unfold host_acc. destruct hdr as [h|]; [|discriminate].
  destruct (parse_host true h None) as [[n p]| |k'] eqn:E; try discriminate.
  exfalso. eapply parse_host_no_crash; exact E.
Qed.

Theorem port_no_crash hdr https sp k : port_acc true hdr https sp <> Crash k.
Proof.
  unfold port_acc. destruct hdr as [h|]; [|discriminate].
  destruct (parse_host true h _) as [[n p]| |k'] eqn:E; try discriminate.
  exfalso. eapply parse_host_no_crash; exact E.
Qed.

Theorem subdomain_no_crash hdr sn k : subdomain_acc true hdr sn <> Crash k.
Proof.
  unfold subdomain_acc. destruct (host_acc true hdr sn) as [h| |k'] eqn:E; try discriminate.
  - destruct (partition_chr 46 h) as [[a f] b]. discriminate.
  - exfalso. eapply host_no_crash; exact E.
Qed.

Lemma route_of_hops_no_crash l k : route_of_hops true l <> Crash k.
Proof.
  induction l as [|hop tl IH]; cbn [route_of_hops]; [discriminate|].
  destruct (f_src hop) as [src|]; [|exact IH].
  destruct (parse_host true src None) as [[h p]| |k'] eqn:E; try discriminate.
  - destruct (route_of_hops true tl) as [r| |k'']; try discriminate. exact IH.
  - exfalso. eapply parse_host_no_crash; exact E.
Qed.

Theorem access_route_no_crash asgi fw xff xreal remote k :
  access_route true asgi fw xff xreal remote <> Crash k.
Proof.
  unfold access_route.
  destruct fw as [h|].
  - destruct (route_of_hops true (parse_forwarded h)) as [[|x r]| |k'] eqn:E; try discriminate.
    exfalso. eapply route_of_hops_no_crash; exact E.
  - destruct xff as [v|].
    + destruct (map strip_ws (split_chr comma v)); discriminate.
    + destruct xreal; discriminate.
Qed.

(* the code as found *)
Theorem host_no_crash_refuted_before_fix :
  exists hdr sn k, host_acc false hdr sn = Crash k /\ port_acc false hdr false 80%Z = Crash k.
Proof. exists (Some (lit "example.com:abc")), (lit "srv"), CValueError. split; vm_compute; reflexivity. Qed.

(* ... even on a VALID authority (RFC 3986: port = *DIGIT may be empty) *)
Theorem host_valid_refuted_before_fix :
  exists v r, rfc_host v None = Some r /\ parse_host false v None <> Ok r.
Proof.
  exists (lit "localhost:"), (lit "localhost", None). split; [vm_compute; reflexivity|].
  vm_compute. discriminate.
Qed.

(* ... and on a VALID RFC 7239 node with an obfuscated port *)
Theorem access_route_no_crash_refuted_before_fix :
  exists fw remote k, access_route false false (Some fw) None None remote = Crash k.
Proof.
  exists (lit "for=""192.0.2.43:_obf"""), (lit "10.0.0.9"), CValueError. vm_compute. reflexivity.
Qed.

(* ------------------------------------------------------------------ int() on 1*DIGIT *)
Lemma digit_range c : isdigit c = true -> 48 <= c <= 57.
Proof. unfold isdigit. lia. Qed.

Lemma digit_not_in c (set : str) :
  isdigit c = true -> forallb (fun x => negb ((48 <=? x) && (x <=? 57))) set = true ->
  char_in c set = false.
Proof.
  intros D F. destruct (char_in c set) eqn:E; [|reflexivity].
  apply char_in_In in E. rewrite forallb_forall in F. specialize (F _ E).
  apply digit_range in D. lia.
Qed.

Lemma lstrip_digit ws c tl : char_in c ws = false -> lstrip_set ws (c :: tl) = c :: tl.
Proof. intro H. cbn [lstrip_set]. rewrite H. reflexivity. Qed.

Lemma strip_digits ws s :
  forallb (fun x => negb ((48 <=? x) && (x <=? 57))) ws = true ->
  forallb isdigit s = true -> strip_set ws s = s.
Proof.
  intros W D. unfold strip_set, rstrip_set.
  assert (L : lstrip_set ws s = s).
  { destruct s as [|c tl]; [reflexivity|]. cbn [forallb] in D. apply andb_true_iff in D as [D _].
    apply lstrip_digit. apply digit_not_in; assumption. }
  rewrite L.
  assert (R : lstrip_set ws (rev s) = rev s).
  { destruct (rev s) as [|c tl] eqn:E; [reflexivity|].
    assert (Hc : In c s) by (apply in_rev; rewrite E; left; reflexivity).
    rewrite forallb_forall in D. apply lstrip_digit. apply digit_not_in; [apply D; exact Hc | exact W]. }
  rewrite R. apply rev_involutive.
Qed.

Lemma int_digits_digits s : forall acc n p,
  forallb isdigit s = true -> (nonempty s = true \/ p = true) ->
  int_digits s acc n p = Some (dec_acc s acc, n + N.of_nat (List.length s)).
Proof.
  induction s as [|c tl IH]; intros acc n p D H; cbn [int_digits dec_acc List.length].
  - destruct H as [H|H]; [discriminate|]. subst p. rewrite N.add_0_r. reflexivity.
  - cbn [forallb] in D. apply andb_true_iff in D as [Dc Dt]. rewrite Dc.
    rewrite (IH _ _ true Dt (or_intror eq_refl)). f_equal. f_equal. lia.
Qed.

Lemma py_int_ws_digits ws s :
  forallb (fun x => negb ((48 <=? x) && (x <=? 57))) ws = true ->
  digitsb s = true -> py_int_ws ws s = Some (dec s).
Proof.
  intros W D. unfold digitsb in D. apply andb_true_iff in D as [D B].
  apply andb_true_iff in D as [NE D]. unfold py_int_ws. rewrite (strip_digits ws s W D).
  destruct s as [|c tl]; [discriminate|].
  assert (Dc : isdigit c = true) by (cbn [forallb] in D; apply andb_true_iff in D as [D _]; exact D).
  apply digit_range in Dc.
  replace (c =? 45) with false by lia. replace (c =? 43) with false by lia.
  unfold int_body. rewrite (int_digits_digits (c :: tl) 0%Z 0 false D (or_introl eq_refl)).
  rewrite N.add_0_l. replace (int_max_str_digits <? N.of_nat (List.length (c :: tl))) with false by lia.
  reflexivity.
Qed.

Lemma py_int_digits s : digitsb s = true -> py_int s = Some (dec s).
Proof. apply py_int_ws_digits. vm_compute. reflexivity. Qed.
Lemma py_int_bytes_digits s : digitsb s = true -> py_int_bytes s = Some (dec s).
Proof. apply py_int_ws_digits. vm_compute. reflexivity. Qed.

Lemma dec_acc_nonneg s : forall acc, (0 <= acc)%Z -> (0 <= dec_acc s acc)%Z.
Proof. induction s as [|c tl IH]; intros acc H; cbn [dec_acc]; [exact H|]. apply IH. lia. Qed.
Lemma dec_nonneg s : (0 <= dec s)%Z.
Proof. apply dec_acc_nonneg. lia. Qed.

(* ------------------------------------------------------------------ valid => RFC reading *)
Theorem content_length_valid (asgi : bool) v z :
  rfc_content_length v = Some z ->
  (if asgi then content_length_asgi (Some v) else content_length_wsgi (Some v)) = Ok (Some z).
Proof.
  unfold rfc_content_length. destruct (digitsb v) eqn:D; [|discriminate]. intro H. injection H as <-.
  pose proof (dec_nonneg v) as NN.
  destruct asgi; unfold content_length_asgi, content_length_wsgi.
  - rewrite (py_int_bytes_digits v D). replace (dec v <? 0)%Z with false by lia. reflexivity.
  - assert (NE : nonempty v = true) by (unfold digitsb in D; destruct v; [discriminate|reflexivity]).
    rewrite NE. cbn [negb]. rewrite (py_int_digits v D).
    replace (dec v <? 0)%Z with false by lia. reflexivity.
Qed.

Lemma partition_found c s a f b : partition_chr c s = (a, f, b) -> f = char_in c s.
Proof.
  revert a f b. induction s as [|x tl IH]; intros a f b H; cbn [partition_chr] in H.
  - injection H as <- <- <-. reflexivity.
  - unfold char_in. cbn [existsb]. rewrite (N.eqb_sym c x). destruct (x =? c) eqn:E.
    + injection H as <- <- <-. reflexivity.
    + destruct (partition_chr c tl) as [[a' f'] b']. injection H as <- <- <-.
      cbn [orb]. apply (IH _ _ _ eq_refl).
Qed.

Lemma partition_spec c s a b : partition_chr c s = (a, true, b) ->
  s = a ++ c :: b /\ char_in c a = false.
Proof.
  revert a b. induction s as [|x tl IH]; intros a b H; cbn [partition_chr] in H; [discriminate|].
  destruct (x =? c) eqn:E.
  - injection H as <- <-. apply N.eqb_eq in E. subst. split; reflexivity.
  - destruct (partition_chr c tl) as [[a' f'] b'] eqn:P. injection H as <- -> <-.
    destruct (IH _ _ eq_refl) as [-> N]. split; [reflexivity|].
    unfold char_in in *. cbn [existsb]. rewrite (N.eqb_sym c x), E. exact N.
Qed.

Lemma char_in_app c a b : char_in c (a ++ b) = char_in c a || char_in c b.
Proof. unfold char_in. apply existsb_app. Qed.

Lemma digits_no c s : (c <? 48) || (57 <? c) = true -> forallb isdigit s = true -> char_in c s = false.
Proof.
  intros H D. destruct (char_in c s) eqn:E; [|reflexivity].
  apply char_in_In in E. rewrite forallb_forall in D. specialize (D _ E). apply digit_range in D. lia.
Qed.

Lemma digitsb_all s : digitsb s = true -> forallb isdigit s = true /\ nonempty s = true.
Proof.
  unfold digitsb. intro D. apply andb_true_iff in D as [D _]. apply andb_true_iff in D as [A B].
  split; assumption.
Qed.

Theorem range_valid v r : rfc_range v = Some r -> range (Some v) = Ok (Some r).
Proof.
  unfold rfc_range, range.
  destruct (partition_chr eq_c v) as [[unit found] rest] eqn:P1.
  rewrite <- (partition_found _ _ _ _ _ P1).
  destruct found; cbn [negb]; [|discriminate].
  destruct (partition_chr dash rest) as [[f sep] l] eqn:P2.
  destruct sep; cbn [negb]; [|discriminate].
  destruct (partition_spec _ _ _ _ P2) as [-> _].
  destruct (digitsb f) eqn:Df; destruct (digitsb l) eqn:Dl; cbn [andb].
  - destruct (digitsb_all _ Df) as [Af Nf]. destruct (digitsb_all _ Dl) as [Al Nl].
    replace (char_in comma (f ++ dash :: l)) with false
      by (rewrite char_in_app; unfold char_in at 2; cbn [existsb];
          rewrite (digits_no comma f eq_refl Af); fold (char_in comma l);
          rewrite (digits_no comma l eq_refl Al); reflexivity).
    rewrite Nf, Nl. cbn [andb]. rewrite (py_int_digits f Df), (py_int_digits l Dl).
    destruct (dec l <? dec f)%Z; [discriminate|]. intro H. injection H as <-. reflexivity.
  - destruct (digitsb_all _ Df) as [Af Nf].
    destruct (nonempty l) eqn:Nl; cbn [negb]; [|].
    + destruct (negb (nonempty f)); discriminate.
    + destruct l; [|discriminate].
      replace (char_in comma (f ++ [dash])) with false
        by (rewrite char_in_app; rewrite (digits_no comma f eq_refl Af); reflexivity).
      rewrite Nf. cbn [andb]. rewrite (py_int_digits f Df). intro H. injection H as <-. reflexivity.
  - destruct (digitsb_all _ Dl) as [Al Nl].
    destruct (nonempty f) eqn:Nf; cbn [negb andb]; [discriminate|].
    destruct f; [|discriminate]. cbn [app].
    replace (char_in comma (dash :: l)) with false
      by (unfold char_in; cbn [existsb]; fold (char_in comma l);
          rewrite (digits_no comma l eq_refl Al); reflexivity).
    cbn [nonempty andb]. rewrite Nl, (py_int_digits l Dl).
    destruct (0 <? dec l)%Z eqn:Z0; [|discriminate]. intro H. injection H as <-.
    replace (0 <=? - dec l)%Z with false by lia. reflexivity.
  - destruct (nonempty l); cbn [negb]; [destruct (negb (nonempty f)); discriminate|].
    destruct (negb (nonempty f)); discriminate.
Qed.

(* host [":" port] for a reg-name / IPv4 host, and for an IP-literal *)
Lemma count_app c a b : count_chr c (a ++ b) = (count_chr c a + count_chr c b)%nat.
Proof. unfold count_chr. rewrite filter_app, app_length. reflexivity. Qed.

Lemma count_absent c s : char_in c s = false -> count_chr c s = 0%nat.
Proof.
  induction s as [|x tl IH]; intro H; [reflexivity|].
  unfold char_in in H. cbn [existsb] in H. apply orb_false_iff in H as [H1 H2].
  unfold count_chr in *. cbn [filter]. rewrite H1. apply IH. exact H2.
Qed.

Lemma port_of_valid port d :
  (digitsb port = true -> port_of true port d = Ok (Some (dec port))) /\
  (port = [] -> port_of true port d = Ok d).
Proof.
  split; intro H; unfold port_of.
  - rewrite (py_int_digits port H). reflexivity.
  - subst. reflexivity.
Qed.

Lemma rfind2_none a b s : forall i last, char_in a s = false -> rfind2_aux a b s i last = last.
Proof.
  induction s as [|x tl IH]; intros i last H; [reflexivity|].
  unfold char_in in H. cbn [existsb] in H. apply orb_false_iff in H as [H1 H2].
  destruct tl as [|y tl']; [reflexivity|]. cbn [rfind2_aux].
  rewrite (N.eqb_sym x a), H1. cbn [andb]. apply IH. exact H2.
Qed.

Lemma rfind2_step a b x y tl i last :
  rfind2_aux a b (x :: y :: tl) i last =
  rfind2_aux a b (y :: tl) (S i) (if (x =? a) && (y =? b) then Some i else last).
Proof. reflexivity. Qed.

Lemma rfind2_unique a b pre post : forall i last,
  char_in a pre = false -> char_in a post = false -> (b =? a) = false ->
  rfind2_aux a b (pre ++ a :: b :: post) i last = Some (i + List.length pre)%nat.
Proof.
  induction pre as [|x tl IH]; intros i last Hp Hq Hb.
  - cbn [app]. rewrite rfind2_step, !N.eqb_refl. cbn [andb].
    rewrite rfind2_none.
    + f_equal. cbn [List.length]. lia.
    + unfold char_in. cbn [existsb]. rewrite (N.eqb_sym a b), Hb. exact Hq.
  - unfold char_in in Hp. cbn [existsb] in Hp. apply orb_false_iff in Hp as [H1 H2].
    cbn [app]. destruct (tl ++ a :: b :: post) as [|y r] eqn:E; [destruct tl; discriminate|].
    rewrite rfind2_step, (N.eqb_sym x a), H1. cbn [andb].
    rewrite (IH (S i) last H2 Hq Hb). f_equal. cbn [List.length]. lia.
Qed.

Lemma firstn_app_len {A} (a b : list A) : firstn (List.length a) (a ++ b) = a.
Proof. induction a as [|x tl IH]; cbn; [destruct b; reflexivity | f_equal; exact IH]. Qed.
Lemma skipn_app_len {A} (a b : list A) : skipn (List.length a) (a ++ b) = b.
Proof. induction a as [|x tl IH]; [reflexivity | exact IH]. Qed.

Theorem host_valid v d r : rfc_host v d = Some r -> parse_host true v d = Ok r.
Proof.
  unfold rfc_host, parse_host. destruct v as [|c tl]; [discriminate|].
  destruct (c =? lbr) eqn:EB.
  - apply N.eqb_eq in EB. subst c.
    destruct (partition_chr rbr tl) as [[inner found] after] eqn:P.
    destruct found; cbn [negb]; [|discriminate].
    destruct (partition_spec _ _ _ _ P) as [-> NR].
    destruct (char_in lbr inner) eqn:NL; [discriminate|].
    destruct after as [|dd port].
    + (* "[" inner "]" *)
      intro H. injection H as <-.
      assert (R : rfind2 rbr colon (lbr :: inner ++ [rbr]) = None).
      { unfold rfind2. clear P NL. revert NR. generalize 0%nat as i.
        assert (G : forall s i last, char_in rbr s = false ->
                    rfind2_aux rbr colon (s ++ [rbr]) i last = last).
        { induction s as [|x s' IH]; intros i last H; [reflexivity|].
          unfold char_in in H. cbn [existsb] in H. apply orb_false_iff in H as [H1 H2].
          cbn [app]. destruct (s' ++ [rbr]) as [|y r'] eqn:E; [destruct s'; discriminate|].
          rewrite rfind2_step, (N.eqb_sym x rbr), H1. cbn [andb]. apply IH. exact H2. }
        intros i NR. change (lbr :: inner ++ [rbr]) with ((lbr :: inner) ++ [rbr]). apply G.
        unfold char_in. cbn [existsb]. change (rbr =? lbr) with false. exact NR. }
      rewrite R. rewrite removelast_last. reflexivity.
    + destruct (dd =? colon) eqn:EC; [|discriminate]. apply N.eqb_eq in EC. subst dd.
      assert (PortOK : (digitsb port = true \/ port = []) ->
                char_in rbr port = false).
      { intros [D| ->]; [|reflexivity]. destruct (digitsb_all _ D) as [A _].
        apply (digits_no rbr port eq_refl A). }
      assert (R : (digitsb port = true \/ port = []) ->
                  rfind2 rbr colon (lbr :: inner ++ rbr :: colon :: port) = Some (S (List.length inner))).
      { intro HP. unfold rfind2.
        change (lbr :: inner ++ rbr :: colon :: port) with ((lbr :: inner) ++ rbr :: colon :: port).
        rewrite rfind2_unique; [reflexivity| |apply PortOK; exact HP|reflexivity].
        unfold char_in. cbn [existsb]. change (rbr =? lbr) with false. exact NR. }
      assert (SK : skipn (S (List.length inner) + 2) (lbr :: inner ++ rbr :: colon :: port) = port).
      { cbn [skipn plus]. replace (List.length inner + 2)%nat with (List.length (inner ++ [rbr; colon])).
        - replace (inner ++ rbr :: colon :: port) with ((inner ++ [rbr; colon]) ++ port)
            by (rewrite <- app_assoc; reflexivity).
          apply skipn_app_len.
        - rewrite app_length. reflexivity. }
      assert (FN : firstn (S (List.length inner) - 1) (inner ++ rbr :: colon :: port) = inner).
      { replace (S (List.length inner) - 1)%nat with (List.length inner) by lia. apply firstn_app_len. }
      destruct (digitsb port) eqn:D.
      * intro H. injection H as <-. rewrite (R (or_introl eq_refl)), SK, FN.
        rewrite (proj1 (port_of_valid port d) D). reflexivity.
      * destruct port as [|p0 port']; cbn [nonempty]; [|discriminate].
        intro H. injection H as <-. rewrite (R (or_intror eq_refl)), SK, FN. reflexivity.
  - destruct (partition_chr colon (c :: tl)) as [[name found] port] eqn:P.
    pose proof (partition_found _ _ _ _ _ P) as F.
    destruct found; cbn [negb].
    + destruct (partition_spec _ _ _ _ P) as [E NC].
      assert (CNT : (digitsb port = true \/ port = []) -> count_chr colon (c :: tl) = 1%nat).
      { intro HP. rewrite E, count_app, (count_absent _ _ NC). unfold count_chr. cbn [filter].
        rewrite N.eqb_refl. cbn [List.length]. fold (count_chr colon port). rewrite count_absent; [reflexivity|].
        destruct HP as [D| ->]; [|reflexivity]. destruct (digitsb_all _ D) as [A _].
        apply (digits_no colon port eq_refl A). }
      destruct (digitsb port) eqn:D.
      * intro H. injection H as <-. rewrite (CNT (or_introl eq_refl)). cbn [Nat.eqb negb].
        rewrite (proj1 (port_of_valid port d) D). reflexivity.
      * destruct port as [|p0 port']; cbn [nonempty]; [|discriminate].
        intro H. injection H as <-. rewrite (CNT (or_intror eq_refl)). cbn [Nat.eqb negb]. reflexivity.
    + intro H. injection H as <-. rewrite (count_absent colon (c :: tl)) by (symmetry; exact F).
      reflexivity.
Qed.

(* the oracles accept the model *)
Definition kind {A} (r : res A) : N := match r with Ok _ => 0 | Http400 => 1 | Crash _ => 2 end.

Theorem cl_oracle_sound (asgi : bool) v :
  let r := if asgi then content_length_asgi (Some v) else content_length_wsgi (Some v) in
  cl_ok v (kind r) (match r with Ok x => x | _ => None end) = true.
Proof.
  intro r. unfold cl_ok. destruct (rfc_content_length v) as [z|] eqn:E.
  - subst r. rewrite (content_length_valid asgi v z E). cbn. rewrite Z.eqb_refl. reflexivity.
  - destruct r eqn:R; cbn; try reflexivity. exfalso.
    exact (content_length_no_crash asgi (Some v) k R).
Qed.

Theorem range_oracle_sound v :
  range_ok v (kind (range (Some v))) (match range (Some v) with Ok x => x | _ => None end) = true.
Proof.
  unfold range_ok. destruct (rfc_range v) as [[a b]|] eqn:E.
  - rewrite (range_valid v _ E). cbn. rewrite !Z.eqb_refl. reflexivity.
  - destruct (range (Some v)) eqn:R; cbn; try reflexivity. exfalso. exact (range_no_crash _ k R).
Qed.

Theorem host_oracle_sound v d :
  match parse_host true v d with
  | Ok (h, p) => host_ok v d 0 h p = true
  | Http400 => host_ok v d 1 [] None = true
  | Crash _ => False
  end.
Proof.
  destruct (parse_host true v d) as [[h p]| |k] eqn:E.
  - unfold host_ok. cbn. destruct (rfc_host v d) as [[eh ep]|] eqn:R; [|reflexivity].
    rewrite (host_valid v d _ R) in E. injection E as -> ->. rewrite str_eqb_refl.
    destruct p; cbn; [apply Z.eqb_refl|reflexivity].
  - unfold host_ok. cbn. destruct (rfc_host v d) as [[eh ep]|] eqn:R; [|reflexivity].
    rewrite (host_valid v d _ R) in E. discriminate.
  - eapply parse_host_no_crash; exact E.
Qed.

(* ------------------------------------------------------------------ cached = fresh *)
Definition consistent (e : env) (c : cache) : Prop :=
  (forall v, c_uri c = Some v -> v = fresh e A_uri) /\
  (forall v, c_prefix c = Some v -> v = fresh e A_prefix) /\
  (forall v, c_relative_uri c = Some v -> v = fresh e A_relative_uri) /\
  (forall v, c_forwarded_uri c = Some v -> v = fresh e A_forwarded_uri) /\
  (forall v, c_forwarded_prefix c = Some v -> v = fresh e A_forwarded_prefix).

Lemma read_relative_ok e c : consistent e c ->
  fst (read_relative e c) = fresh_relative e /\ consistent e (snd (read_relative e c)).
Proof.
  intros C. pose proof C as (H1 & H2 & H3 & H4 & H5). unfold read_relative.
  destruct (c_relative_uri c) as [v|] eqn:E; cbn [fst snd].
  - split; [apply (H3 v eq_refl) | exact C].
  - split; [reflexivity|]. repeat split; cbn; try assumption. intros v H. injection H as <-. reflexivity.
Qed.

Lemma read_ok e a c : consistent e c ->
  fst (read e a c) = fresh e a /\ consistent e (snd (read e a c)).
Proof.
  intros C. pose proof C as (H1 & H2 & H3 & H4 & H5).
  destruct a; cbn [read].
  - destruct (c_uri c) as [v|] eqn:E; cbn [fst snd]; [split; [apply H1; reflexivity | exact C]|].
    destruct (read_relative_ok e c C) as [R (G1 & G2 & G3 & G4 & G5)].
    destruct (read_relative e c) as [rel c1]. cbn [fst snd] in *. subst rel.
    split; [reflexivity|]. repeat split; cbn; try assumption. intros v H. injection H as <-. reflexivity.
  - destruct (c_prefix c) as [v|] eqn:E; cbn [fst snd]; [split; [apply H2; reflexivity | exact C]|].
    split; [reflexivity|]. repeat split; cbn; try assumption. intros v H. injection H as <-. reflexivity.
  - apply read_relative_ok. exact C.
  - destruct (c_forwarded_uri c) as [v|] eqn:E; cbn [fst snd]; [split; [apply H4; reflexivity | exact C]|].
    destruct (read_relative_ok e c C) as [R (G1 & G2 & G3 & G4 & G5)].
    destruct (read_relative e c) as [rel c1]. cbn [fst snd] in *. subst rel.
    split; [reflexivity|]. repeat split; cbn; try assumption. intros v H. injection H as <-. reflexivity.
  - destruct (c_forwarded_prefix c) as [v|] eqn:E; cbn [fst snd]; [split; [apply H5; reflexivity | exact C]|].
    split; [reflexivity|]. repeat split; cbn; try assumption. intros v H. injection H as <-. reflexivity.
Qed.

Lemma reads_ok e l : forall c, consistent e c -> fst (reads e l c) = map (fresh e) l.
Proof.
  induction l as [|a tl IH]; intros c C; cbn [reads map]; [reflexivity|].
  destruct (read_ok e a c C) as [R C1]. destruct (read e a c) as [v c1]. cbn [fst snd] in *.
  specialize (IH c1 C1). destruct (reads e tl c1) as [vs c2]. cbn [fst] in *. subst. reflexivity.
Qed.

(* every interleaving of reads of the memoised URL accessors returns the fresh values *)
Theorem acc_stable e l : fst (reads e l cache0) = map (fresh e) l.
Proof. apply reads_ok. repeat split; cbn; intros v H; discriminate H. Qed.

(* ------------------------------------------------------------------ header lookup *)
Lemma upper_lower_chr c : upper_chr (lower_chr c) = upper_chr c.
Proof.
  unfold upper_chr, lower_chr.
  destruct ((65 <=? c) && (c <=? 90)) eqn:E1.
  - replace ((97 <=? c + 32) && (c + 32 <=? 122)) with true by lia.
    replace ((97 <=? c) && (c <=? 122)) with false by lia. lia.
  - reflexivity.
Qed.

Lemma upper_lower s : upper (lower s) = upper s.
Proof. unfold upper, lower. rewrite map_map. apply map_ext. exact upper_lower_chr. Qed.

Theorem header_lookup_case_insensitive n1 n2 : lower n1 = lower n2 -> mangle n1 = mangle n2.
Proof. intro H. unfold mangle. rewrite <- (upper_lower n1), <- (upper_lower n2), H. reflexivity. Qed.

(* ------------------------------------------------------------------ entity tags *)
Lemma last_app_single {A} (l : list A) x d : last (l ++ [x]) d = x.
Proof. induction l as [|y tl IH]; [reflexivity|]. cbn [app]. destruct (tl ++ [x]) eqn:E; [destruct tl; discriminate|]. exact IH. Qed.

(* a single rendered entity-tag reads back (what resp.etag writes, If-Match reads) *)
Theorem etag_loads_render w v : etag_loads (render_etag (Tag w v)) = Tag w v.
Proof.
  unfold render_etag, etag_loads. destruct w; cbn [app].
  - change ((87 =? 87) || (87 =? 119)) with true. change (47 =? 47) with true. cbn [andb].
    rewrite N.eqb_refl. cbn [andb]. change (dq :: v ++ [dq]) with ((dq :: v) ++ [dq]).
    rewrite last_app_single, N.eqb_refl, removelast_last. reflexivity.
  - destruct v as [|x tl].
    + cbn. reflexivity.
    + cbn [app].
      replace (((dq =? 87) || (dq =? 119)) && (x =? 47)) with false by reflexivity.
      rewrite N.eqb_refl. cbn [andb]. change (dq :: x :: tl ++ [dq]) with ((dq :: x :: tl) ++ [dq]).
      rewrite last_app_single, N.eqb_refl. change (x :: tl ++ [dq]) with ((x :: tl) ++ [dq]).
      rewrite removelast_last. reflexivity.
Qed.
