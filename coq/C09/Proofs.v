From Coq Require Import ZArith NArith List Bool String.
From Falcon.lib Require Import PyStr.
From Falcon.C09 Require Import Model Spec.
Import ListNotations.
