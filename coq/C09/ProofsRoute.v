(* C09 — the address chain (access_route) and forwarded_scheme / forwarded_host on valid headers. *)
From Coq Require Import ZArith NArith List Bool Lia ZifyBool ZifyN Arith.
From Falcon.lib Require Import PyStr.
From Falcon.gen Require Import ConstsC09.
From Falcon.C09 Require Import Model Spec SpecRfc Proofs ProofsEtag ProofsCookie ProofsForwarded.
Import ListNotations.
Open Scope N_scope.

(* ------------------------------------------------------------------ RFC 7239 node *)
Lemma port_of_ok port d : exists p, port_of true port d = Ok p.
Proof. unfold port_of. destruct (py_int port); eexists; reflexivity. Qed.

Lemma node_port_chars p c : node_port_ok p = true -> (c = rbr \/ c = colon) -> char_in c p = false.
Proof.
  intros H Hc. destruct (char_in c p) eqn:E; [|reflexivity]. exfalso.
  apply char_in_In in E. unfold node_port_ok in H. apply orb_true_iff in H as [H | H].
  - apply andb_true_iff in H as [_ H]. rewrite forallb_forall in H. apply H in E.
    unfold isdigit, rbr, colon in *. destruct Hc; subst; discriminate.
  - destruct p as [|x [|y tl]]; try discriminate. apply andb_true_iff in H as [Hx H].
    rewrite forallb_forall in H. destruct E as [<- | E].
    + apply N.eqb_eq in Hx. unfold rbr, colon in Hc. destruct Hc; subst; discriminate.
    + apply H in E. unfold is_obf_char, is_alpha, isdigit, rbr, colon in *. destruct Hc; subst; discriminate.
Qed.

Theorem node_valid v n : rfc_node v = Some n -> exists p, parse_host true v None = Ok (n, p).
Proof.
  unfold rfc_node, parse_host. destruct v as [|c tl]; [discriminate|].
  destruct (c =? lbr) eqn:EB.
  - apply N.eqb_eq in EB. subst c.
    destruct (partition_chr rbr tl) as [[inner found] after] eqn:P.
    destruct found; cbn [negb]; [|discriminate].
    destruct (partition_spec _ _ _ _ P) as [-> NR].
    destruct (char_in lbr inner || negb (nonempty inner)) eqn:NL; [discriminate|].
    destruct after as [|dd port].
    + intro H. injection H as <-.
      assert (R : rfind2 rbr colon (lbr :: inner ++ [rbr]) = None).
      { unfold rfind2. revert NR. generalize 0%nat as i.
        assert (G : forall s i last, char_in rbr s = false ->
                    rfind2_aux rbr colon (s ++ [rbr]) i last = last).
        { induction s as [|x s' IH]; intros i last H; [reflexivity|].
          unfold char_in in H. cbn [existsb] in H. apply orb_false_iff in H as [H1 H2].
          cbn [app]. destruct (s' ++ [rbr]) as [|y r'] eqn:E; [destruct s'; discriminate|].
          rewrite rfind2_step, (N.eqb_sym x rbr), H1. cbn [andb]. apply IH. exact H2. }
        intros i NR. change (lbr :: inner ++ [rbr]) with ((lbr :: inner) ++ [rbr]). apply G.
        unfold char_in. cbn [existsb]. change (rbr =? lbr) with false. exact NR. }
      rewrite R, removelast_last. eexists. reflexivity.
    + destruct ((dd =? colon) && node_port_ok port) eqn:EC; [|discriminate].
      apply andb_true_iff in EC as [EC PO]. apply N.eqb_eq in EC. subst dd.
      intro H. injection H as <-.
      assert (R : rfind2 rbr colon (lbr :: inner ++ rbr :: colon :: port) = Some (S (List.length inner))).
      { unfold rfind2.
        change (lbr :: inner ++ rbr :: colon :: port) with ((lbr :: inner) ++ rbr :: colon :: port).
        rewrite rfind2_unique; [reflexivity| |apply (node_port_chars port rbr PO); left; reflexivity|reflexivity].
        unfold char_in. cbn [existsb]. change (rbr =? lbr) with false. exact NR. }
      assert (SK : skipn (S (List.length inner) + 2) (lbr :: inner ++ rbr :: colon :: port) = port).
      { cbn [skipn plus]. replace (List.length inner + 2)%nat with (List.length (inner ++ [rbr; colon])).
        - replace (inner ++ rbr :: colon :: port) with ((inner ++ [rbr; colon]) ++ port)
            by (rewrite <- app_assoc; reflexivity).
          apply skipn_app_len.
        - rewrite app_length. reflexivity. }
      assert (FN : firstn (S (List.length inner) - 1) (inner ++ rbr :: colon :: port) = inner).
      { replace (S (List.length inner) - 1)%nat with (List.length inner) by lia. apply firstn_app_len. }
      rewrite R, SK, FN. destruct (port_of_ok port None) as (p & ->). eexists. reflexivity.
  - destruct (partition_chr colon (c :: tl)) as [[name found] port] eqn:P.
    pose proof (partition_found _ _ _ _ _ P) as F.
    destruct (char_in rbr name); [discriminate|].
    destruct found; cbn [negb].
    + destruct (nonempty name && node_port_ok port) eqn:NP; [|discriminate].
      apply andb_true_iff in NP as [_ PO]. intro H. injection H as <-.
      destruct (partition_spec _ _ _ _ P) as [E NC].
      assert (CNT : count_chr colon (c :: tl) = 1%nat).
      { rewrite E, count_app, (count_absent _ _ NC). unfold count_chr. cbn [filter].
        rewrite N.eqb_refl. cbn [List.length]. fold (count_chr colon port). rewrite count_absent; [reflexivity|].
        apply (node_port_chars port colon PO). right. reflexivity. }
      rewrite CNT. cbn [Nat.eqb negb]. destruct (port_of_ok port None) as (p & ->). eexists. reflexivity.
    + intro H. injection H as <-. rewrite (count_absent colon (c :: tl)) by (symmetry; exact F).
      eexists. reflexivity.
Qed.

Theorem nodes_valid l r : nodes_of l = Some r -> route_of_hops true l = Ok r.
Proof.
  revert r. induction l as [|e tl IH]; intros r H; cbn [nodes_of route_of_hops] in *.
  - injection H as <-. reflexivity.
  - destruct (f_src e) as [src|]; [|apply IH, H].
    destruct (rfc_node src) as [n|] eqn:N; [|discriminate].
    destruct (nodes_of tl) as [r'|]; [|discriminate]. injection H as <-.
    destruct (node_valid _ _ N) as (p & ->). rewrite (IH _ eq_refl). reflexivity.
Qed.

(* ------------------------------------------------------------------ X-Forwarded-For *)
Lemma addr_not_ws c : is_addr_char c = true -> char_in c str_ws_latin1 = false.
Proof.
  intro H.
  assert (T : forallb (fun c => negb (is_addr_char c) || negb (char_in c str_ws_latin1)) (N_range 127) = true)
    by (vm_compute; reflexivity).
  rewrite forallb_forall in T. assert (L : c < 127) by (unfold is_addr_char in H; lia).
  specialize (T c (in_N_range c 127 L)). rewrite H in T. cbn [negb orb] in T. apply negb_true_iff in T. exact T.
Qed.

Lemma ows_is_ws p : forallb is_ows p = true -> forallb (fun c => char_in c str_ws_latin1) p = true.
Proof.
  intro H. apply forallb_forall. intros c Hc. rewrite forallb_forall in H. specialize (H c Hc).
  unfold is_ows in H. apply orb_true_iff in H as [H | H]; apply N.eqb_eq in H; subst; reflexivity.
Qed.

Lemma rstrip_trail (s p : str) :
  forallb (fun c => char_in c str_ws_latin1) p = true -> rstrip_set str_ws_latin1 (s ++ p) = rstrip_set str_ws_latin1 s.
Proof.
  intro H. unfold rstrip_set. f_equal. rewrite rev_app_distr.
  assert (G : forall q t, forallb (fun c => char_in c str_ws_latin1) q = true ->
              lstrip_set str_ws_latin1 (q ++ t) = lstrip_set str_ws_latin1 t).
  { induction q as [|c q IH]; intros t Hq; [reflexivity|]. cbn [forallb] in Hq.
    apply andb_true_iff in Hq as [Hc Hq]. cbn [app lstrip_set]. rewrite Hc. apply IH, Hq. }
  apply G. apply forallb_forall. intros c Hc. rewrite forallb_forall in H. apply H. apply in_rev. exact Hc.
Qed.

(* strip() of an address surrounded by optional whitespace *)
Lemma strip_addr pre a post :
  forallb is_ows pre = true -> forallb is_ows post = true -> a <> [] -> forallb is_addr_char a = true ->
  strip_ws (pre ++ a ++ post) = a.
Proof.
  intros Hp Hq Ne Fa. rewrite (strip_lead pre _ (ows_is_ws pre Hp)).
  unfold strip_ws, strip_set.
  assert (L : lstrip_set str_ws_latin1 (a ++ post) = a ++ post).
  { destruct a as [|c a']; [contradiction|]. cbn [app lstrip_set]. cbn [forallb] in Fa.
    apply andb_true_iff in Fa as [Fc _]. rewrite (addr_not_ws c Fc). reflexivity. }
  rewrite L, (rstrip_trail a post (ows_is_ws post Hq)).
  transitivity (strip_set str_ws_latin1 a).
  - unfold strip_set. f_equal. destruct a as [|c a']; [contradiction|]. cbn [lstrip_set]. cbn [forallb] in Fa.
    apply andb_true_iff in Fa as [Fc _]. rewrite (addr_not_ws c Fc). reflexivity.
  - apply strip_set_id; [exact Ne | |]; apply addr_not_ws; rewrite forallb_forall in Fa; apply Fa.
    + destruct a; [contradiction | left; reflexivity].
    + apply last_in. exact Ne.
Qed.

Theorem xff_valid f : forall s l pre,
  xff_list f s = Some l -> forallb is_ows pre = true ->
  map strip_ws (split_chr comma (pre ++ s)) = l.
Proof.
  induction f as [|f IH]; intros s l pre H Hpre; [discriminate|]. cbn [xff_list] in H.
  destruct (take_while is_addr_char s) as [a r] eqn:T.
  destruct (take_while_spec _ _ _ _ T) as (-> & Fa & _).
  destruct a as [|a0 a']; [discriminate|].
  assert (NoC : forall q, forallb is_ows q = true -> char_in comma (pre ++ (a0 :: a') ++ q) = false).
  { intros q Hq. rewrite !char_in_app.
    rewrite (forallb_no is_ows comma pre Hpre eq_refl), (forallb_no is_ows comma q Hq eq_refl).
    rewrite (forallb_no is_addr_char comma (a0 :: a') Fa eq_refl). reflexivity. }
  destruct r as [|x r'].
  - injection H as <-. rewrite app_nil_r.
    rewrite split_no_sep by (rewrite <- (app_nil_r (a0 :: a')); apply NoC; reflexivity).
    cbn [map]. f_equal. rewrite <- (app_nil_r (a0 :: a')) at 1.
    apply strip_addr; [exact Hpre | reflexivity | discriminate | exact Fa].
  - destruct (skip_ows (x :: r')) as [|c r2] eqn:SK; [discriminate|].
    destruct (c =? comma) eqn:EC; [|discriminate]. apply N.eqb_eq in EC. subst c.
    destruct (xff_list f (skip_ows r2)) as [l'|] eqn:XL; [|discriminate]. injection H as <-.
    destruct (skip_ows_split (x :: r')) as (p1 & E1 & F1). rewrite SK in E1.
    destruct (skip_ows_split r2) as (p2 & E2 & F2).
    rewrite E1.
    replace (pre ++ (a0 :: a') ++ p1 ++ comma :: r2) with ((pre ++ (a0 :: a') ++ p1) ++ comma :: r2)
      by (rewrite <- !app_assoc; reflexivity).
    rewrite split_app_sep by (apply NoC; exact F1). cbn [map]. f_equal.
    + apply strip_addr; [exact Hpre | exact F1 | discriminate | exact Fa].
    + rewrite E2. apply (IH _ _ p2 XL F2).
Qed.

(* ------------------------------------------------------------------ access_route *)
Lemma with_remote_model asgi r remote :
  match r with
  | [] => if asgi && negb (nonempty remote) then [] else [remote]
  | _ :: _ => if str_eqb (last r []) remote then r else r ++ [remote]
  end = with_remote asgi r remote.
Proof. reflexivity. Qed.

Theorem access_route_valid asgi fw xff xreal remote r :
  rfc_access_route asgi fw xff xreal remote = Some r ->
  access_route true asgi fw xff xreal remote = Ok r.
Proof.
  unfold rfc_access_route, access_route.
  destruct fw as [h|].
  - destruct (rfc_forwarded h) as [l|] eqn:F; [|discriminate].
    rewrite (forwarded_valid _ _ F). destruct (nodes_of l) as [nodes|] eqn:N; [|discriminate].
    intro H. injection H as <-. rewrite (nodes_valid _ _ N). destruct nodes; reflexivity.
  - destruct xff as [v|].
    + destruct (xff_list (S (List.length v)) v) as [l|] eqn:X; [|discriminate].
      intro H. injection H as <-. pose proof (xff_valid _ v l [] X eq_refl) as E. cbn [app] in E.
      rewrite E. destruct l; reflexivity.
    + destruct xreal as [v|]; intro H; injection H as <-; reflexivity.
Qed.

(* ------------------------------------------------------------------ forwarded_scheme / forwarded_host *)
Theorem forwarded_scheme_valid fw xproto scheme s :
  rfc_forwarded_scheme fw xproto scheme = Some s -> forwarded_scheme fw xproto scheme = s.
Proof.
  unfold rfc_forwarded_scheme, forwarded_scheme. destruct fw as [h|].
  - destruct (rfc_forwarded h) as [l|] eqn:F; [|discriminate]. rewrite (forwarded_valid _ _ F).
    intro H. injection H as <-. unfold first_param. destruct l as [|e tl]; [reflexivity|].
    destruct (f_scheme e) as [[|c x]|]; reflexivity.
  - intro H. injection H as <-. reflexivity.
Qed.

Theorem forwarded_host_valid fw xhost netloc s :
  rfc_forwarded_host fw xhost netloc = Some s -> forwarded_host fw xhost netloc = s.
Proof.
  unfold rfc_forwarded_host, forwarded_host. destruct fw as [h|].
  - destruct (rfc_forwarded h) as [l|] eqn:F; [|discriminate]. rewrite (forwarded_valid _ _ F).
    intro H. injection H as <-. unfold first_param. destruct l as [|e tl]; [reflexivity|].
    destruct (f_host e) as [[|c x]|]; reflexivity.
  - intro H. injection H as <-. reflexivity.
Qed.
