(* C09 — independent RFC-level readers for the valid languages (strict: DIGIT only, no signs,
   no whitespace, no underscores), and the oracles the harness evaluates. *)
From Coq Require Import ZArith NArith List Bool String.
From Falcon.lib Require Import PyStr.
From Falcon.gen Require Import ConstsC09.
From Falcon.C09 Require Import Model.
Import ListNotations.
Open Scope N_scope.

(* 1*DIGIT, within the interpreter's conversion limit (sys.get_int_max_str_digits) *)
Definition digitsb (s : str) : bool :=
  nonempty s && forallb isdigit s && (N.of_nat (List.length s) <=? int_max_str_digits).

Fixpoint dec_acc (s : str) (acc : Z) : Z :=
  match s with
  | [] => acc
  | c :: tl => dec_acc tl (acc * 10 + Z.of_N (c - 48))%Z
  end.
Definition dec (s : str) : Z := dec_acc s 0%Z.

(* RFC 9110 8.6: Content-Length = 1*DIGIT *)
Definition rfc_content_length (v : str) : option Z := if digitsb v then Some (dec v) else None.

(* RFC 9110 14.1.1/14.1.2: range-unit "=" ( first "-" [last] | "-" suffix ), one range; the
   satisfiable forms only (last >= first, suffix >= 1) mapped to falcon's (first, last)
   convention *)
Definition rfc_range (v : str) : option (Z * Z) :=
  let '(unit, found, rest) := partition_chr eq_c v in
  if negb found then None else
  let '(f, sep, l) := partition_chr dash rest in
  if negb sep then None
  else if digitsb f && digitsb l then (if (dec l <? dec f)%Z then None else Some (dec f, dec l))
  else if digitsb f && negb (nonempty l) then Some (dec f, (-1)%Z)
  else if negb (nonempty f) && digitsb l then (if (0 <? dec l)%Z then Some ((- dec l)%Z, (-1)%Z) else None)
  else None.

(* RFC 3986 3.2: host [ ":" port ], port = *DIGIT; host = IP-literal "[" ... "]" or a
   reg-name / IPv4address (no ":" and not starting with "[").  The host is returned without
   brackets, an absent or empty port as the default. *)
Definition rfc_host (v : str) (default : option Z) : option (str * option Z) :=
  match v with
  | c :: tl =>
    if c =? lbr then
      let '(inner, found, after) := partition_chr rbr tl in
      if negb found then None
      else if char_in lbr inner then None
      else match after with
           | [] => Some (inner, default)
           | d :: port => if d =? colon then
                            (if digitsb port then Some (inner, Some (dec port))
                             else if nonempty port then None else Some (inner, default))
                          else None
           end
    else
      let '(name, found, port) := partition_chr colon v in
      if negb found then Some (v, default)
      else if digitsb port then Some (name, Some (dec port))
      else if nonempty port then None else Some (name, default)
  | [] => None
  end.

(* entity-tag rendering (RFC 9110 8.8.3), for the round-trip statements *)
Definition render_etag (e : etag) : str :=
  match e with
  | Star => [star_c]
  | Tag w v => (if w then [87; 47] else []) ++ dq :: v ++ [dq]
  end.

(* fresh (uncached) values of the URL accessors *)
Definition fresh_relative (e : env) : str :=
  if nonempty (e_query e) then e_root_path e ++ e_path e ++ [63] ++ e_query e
  else e_root_path e ++ e_path e.
Definition fresh (e : env) (a : uacc) : str :=
  match a with
  | A_relative_uri => fresh_relative e
  | A_uri => e_scheme e ++ s_sep ++ e_netloc e ++ fresh_relative e
  | A_prefix => e_scheme e ++ s_sep ++ e_netloc e ++ e_root_path e
  | A_forwarded_uri => e_fwd_scheme e ++ s_sep ++ e_fwd_host e ++ fresh_relative e
  | A_forwarded_prefix => e_fwd_scheme e ++ s_sep ++ e_fwd_host e ++ e_root_path e
  end.

(* ---- oracles on an implementation observation.  obs: 0 = value (given), 1 = HTTP 400-class
   error, 2 = any other exception *)
Definition zopt_eqb (a b : option Z) : bool :=
  match a, b with Some x, Some y => Z.eqb x y | None, None => true | _, _ => false end.

(* Content-Length: valid => the RFC value; never another exception *)
Definition cl_ok (v : str) (kind : N) (value : option Z) : bool :=
  if kind =? 2 then false
  else match rfc_content_length v with
       | Some z => (kind =? 0) && zopt_eqb value (Some z)
       | None => true
       end.

Definition range_ok (v : str) (kind : N) (value : option (Z * Z)) : bool :=
  if kind =? 2 then false
  else match rfc_range v with
       | Some (a, b) => (kind =? 0) && match value with
                                       | Some (x, y) => Z.eqb a x && Z.eqb b y
                                       | None => false
                                       end
       | None => true
       end.

Definition host_ok (v : str) (default : option Z) (kind : N) (h : str) (p : option Z) : bool :=
  if kind =? 2 then false
  else match rfc_host v default with
       | Some (eh, ep) => (kind =? 0) && str_eqb eh h && zopt_eqb ep p
       | None => true
       end.
