(* C09 — RFC 9110 5.6.7 IMF-fixdate, read strictly and independently of strptime:
   day-name "," SP 2DIGIT SP month SP 4DIGIT SP 2DIGIT ":" 2DIGIT ":" 2DIGIT SP "GMT",
   fixed width (29 characters), case-sensitive names, single spaces, a real calendar date
   (year >= 1, no leap second).  The day-name is not required to agree with the date. *)
From Coq Require Import ZArith NArith List Bool.
From Falcon.lib Require Import PyStr.
From Falcon.C09 Require Import Model DateModel.
Import ListNotations.
Open Scope N_scope.

Definition rfc_day_names : list str :=
  [[77; 111; 110]; [84; 117; 101]; [87; 101; 100]; [84; 104; 117]; [70; 114; 105]; [83; 97; 116]; [83; 117; 110]].
Definition rfc_month_names : list str :=
  [[74; 97; 110]; [70; 101; 98]; [77; 97; 114]; [65; 112; 114]; [77; 97; 121]; [74; 117; 110];
   [74; 117; 108]; [65; 117; 103]; [83; 101; 112]; [79; 99; 116]; [78; 111; 118]; [68; 101; 99]].

Fixpoint find_name (n : str) (tbl : list str) (i : Z) : option Z :=
  match tbl with
  | [] => None
  | x :: tl => if str_eqb n x then Some i else find_name n tl (i + 1)%Z
  end.

Definition two (a b : N) : option Z :=
  if isdigit a && isdigit b then Some (dval a * 10 + dval b)%Z else None.

Definition rfc_imf_fixdate (s : str) : option date :=
  match s with
  | [w1; w2; w3; c1; p1; d1; d2; p2; m1; m2; m3; p3; y1; y2; y3; y4; p4; h1; h2; c2; n1; n2; c3; s1; s2; p5; g; m; t] =>
    if (c1 =? 44) && (p1 =? 32) && (p2 =? 32) && (p3 =? 32) && (p4 =? 32) && (c2 =? 58) && (c3 =? 58)
       && (p5 =? 32) && (g =? 71) && (m =? 77) && (t =? 84)
    then
      match find_name [w1; w2; w3] rfc_day_names 0%Z, find_name [m1; m2; m3] rfc_month_names 1%Z,
            two d1 d2, two y1 y2, two y3 y4, two h1 h2, two n1 n2, two s1 s2 with
      | Some _, Some mon, Some day, Some yhi, Some ylo, Some hour, Some minute, Some sec =>
        let d := mk_date (yhi * 100 + ylo)%Z mon day hour minute sec in
        if validb d then Some d else None
      | _, _, _, _, _, _, _, _ => None
      end
    else None
  | _ => None
  end.
