(* C09 — executable model of the typed request-header accessors of falcon.Request
   (falcon/request.py) and their ASGI twins (falcon/asgi/request.py), with
   falcon/request_helpers.py (_parse_etags, _parse_cookie_header), falcon/forwarded.py
   (_parse_forwarded_header), falcon/util/uri.py (parse_host, unquote_string) and
   falcon/util/structures.py (ETag.loads).

   Each accessor is a function of the raw header value(s): Ok v | Http400 | Crash k.
   Header values are latin-1 strings (PEP 3333 / ASGI byte strings decoded as latin-1).
   [fixed] selects the repaired parse_host (fixes/C09-parse-host-port.patch) and the repaired
   cookie unquoting guard (fixes/C15-cookie-empty-value-echo.patch). *)
From Coq Require Import ZArith NArith List Bool String.
From Falcon.lib Require Import PyStr.
From Falcon.gen Require Import ConstsC09.
From Falcon.C10 Require Model.
Import ListNotations.
Open Scope N_scope.

Inductive crash := CValueError | CIndexError | CKeyError.
Inductive res (A : Type) := Ok (a : A) | Http400 | Crash (k : crash).
Arguments Ok {A} a.
Arguments Http400 {A}.
Arguments Crash {A} k.

(* ---- int(): [ws] [sign] digit ([_] digit)* [ws]; more than sys.get_int_max_str_digits()
   digits -> ValueError.  str flavour strips ASCII whitespace, U+0085 and U+00A0; bytes
   flavour (ASGI Content-Length) only ASCII whitespace. *)
Definition int_ws_str : str := [9; 10; 11; 12; 13; 32; 133; 160].
Definition int_ws_bytes : str := [9; 10; 11; 12; 13; 32].
Definition underscore : N := 95.

Fixpoint int_digits (s : str) (acc : Z) (ndig : N) (prev_digit : bool) : option (Z * N) :=
  match s with
  | [] => if prev_digit then Some (acc, ndig) else None
  | c :: tl =>
    if isdigit c then int_digits tl (acc * 10 + Z.of_N (c - 48))%Z (ndig + 1) true
    else if (c =? underscore) && prev_digit then int_digits tl acc ndig false
    else None
  end.

Definition int_body (s : str) : option Z :=
  match int_digits s 0%Z 0 false with
  | Some (z, n) => if int_max_str_digits <? n then None else Some z
  | None => None
  end.

Definition py_int_ws (ws : str) (s : str) : option Z :=
  match strip_set ws s with
  | c :: tl => if c =? 45 then option_map Z.opp (int_body tl)
               else if c =? 43 then int_body tl
               else int_body (c :: tl)
  | [] => None
  end.
Definition py_int := py_int_ws int_ws_str.
Definition py_int_bytes := py_int_ws int_ws_bytes.

Definition nonempty (s : str) : bool := match s with [] => false | _ => true end.

(* ---- Content-Length *)
Definition content_length_wsgi (v : option str) : res (option Z) :=
  match v with
  | None => Ok None
  | Some value =>
    if negb (nonempty value) then Ok None
    else match py_int value with
         | None => Http400
         | Some z => if (z <? 0)%Z then Http400 else Ok (Some z)
         end
  end.

Definition content_length_asgi (v : option str) : res (option Z) :=
  match v with
  | None => Ok None
  | Some value =>
    match py_int_bytes value with
    | None => if negb (nonempty value) then Ok None else Http400
    | Some z => if (z <? 0)%Z then Http400 else Ok (Some z)
    end
  end.

(* ---- Range *)
Definition eq_c : N := 61.
Definition comma : N := 44.
Definition dash : N := 45.
Definition colon : N := 58.

Definition range (v : option str) : res (option (Z * Z)) :=
  match v with
  | None => Ok None
  | Some value =>
    if char_in eq_c value then
      let '(unit, _, req_range) := partition_chr eq_c value in
      if char_in comma req_range then Http400 else
      let '(first, sep, last) := partition_chr dash req_range in
      if negb sep then Http400
      else if nonempty first && nonempty last then
        match py_int first, py_int last with
        | Some f, Some l => if (l <? f)%Z then Http400 else Ok (Some (f, l))
        | _, _ => Http400
        end
      else if nonempty first then
        match py_int first with Some f => Ok (Some (f, (-1)%Z)) | None => Http400 end
      else if nonempty last then
        match py_int last with
        | Some l => if (0 <=? - l)%Z then Http400 else Ok (Some ((- l)%Z, (-1)%Z))
        | None => Http400
        end
      else Http400
    else Http400
  end.

Definition range_unit (v : option str) : res (option str) :=
  match v with
  | None => Ok None
  | Some value =>
    if nonempty value && char_in eq_c value
    then let '(unit, _, _) := partition_chr eq_c value in Ok (Some unit)
    else Http400
  end.

(* ---- uri.parse_host *)
Definition lbr : N := 91.
Definition rbr : N := 93.

(* index of the last occurrence of the two characters a b *)
Fixpoint rfind2_aux (a b : N) (s : str) (i : nat) (last : option nat) : option nat :=
  match s with
  | x :: ((y :: _) as tl) =>
    rfind2_aux a b tl (S i) (if (x =? a) && (y =? b) then Some i else last)
  | _ => last
  end.
Definition rfind2 (a b : N) (s : str) : option nat := rfind2_aux a b s O None.

Definition count_chr (c : N) (s : str) : nat := List.length (filter (N.eqb c) s).

(* int(port): the code as found lets ValueError escape; repaired: a port that is not a number
   is treated as not specified *)
Definition port_of (fixed : bool) (p : str) (default : option Z) : res (option Z) :=
  match py_int p with
  | Some z => Ok (Some z)
  | None => if fixed then Ok default else Crash CValueError
  end.

Definition parse_host (fixed : bool) (host : str) (default : option Z) : res (str * option Z) :=
  match host with
  | c :: tl =>
    if c =? lbr then
      match rfind2 rbr colon host with
      | Some pos =>
        match port_of fixed (skipn (pos + 2) host) default with
        | Ok p => Ok (firstn (pos - 1) tl, p)               (* host[1:pos] *)
        | Http400 => Http400
        | Crash k => Crash k
        end
      | None => Ok (removelast tl, default)                   (* host[1:-1] *)
      end
    else if negb (Nat.eqb (count_chr colon host) 1) then Ok (host, default)
    else
      let '(name, _, port) := partition_chr colon host in
      match port_of fixed port default with
      | Ok p => Ok (name, p)
      | Http400 => Http400
      | Crash k => Crash k
      end
  | [] => Ok ([], default)
  end.

(* req.host / req.port / req.netloc / req.subdomain (WSGI; the ASGI twins differ only in where
   the fallback server name/port come from) *)
Definition host_acc (fixed : bool) (hdr : option str) (server_name : str) : res str :=
  match hdr with
  | Some h => match parse_host fixed h None with
              | Ok (n, _) => Ok n
              | Http400 => Http400
              | Crash k => Crash k
              end
  | None => Ok server_name
  end.

Definition port_acc (fixed : bool) (hdr : option str) (https : bool) (server_port : Z) : res (option Z) :=
  match hdr with
  | Some h => match parse_host fixed h (Some (if https then 443 else 80)%Z) with
              | Ok (_, p) => Ok p
              | Http400 => Http400
              | Crash k => Crash k
              end
  | None => Ok (Some server_port)
  end.

Definition subdomain_acc (fixed : bool) (hdr : option str) (server_name : str) : res (option str) :=
  match host_acc fixed hdr server_name with
  | Ok h => let '(sub, sep, _) := partition_chr 46 h in Ok (if sep then Some sub else None)
  | Http400 => Http400
  | Crash k => Crash k
  end.

(* ---- entity tags *)
Inductive etag := Star | Tag (weak : bool) (value : str).

Definition dq : N := 34.
Definition bsl : N := 92.
Definition strip_ws (s : str) : str := strip_set str_ws_latin1 s.

(* ETag.loads *)
Definition etag_loads (s : str) : etag :=
  let '(weak, v) := match s with
                    | w :: sl :: rest => if ((w =? 87) || (w =? 119)) && (sl =? 47)
                                         then (true, rest) else (false, s)
                    | _ => (false, s)
                    end in
  (* value[:1] == value[-1:] == DQUOTE *)
  match v with
  | c :: tl => if (c =? dq) && (last v 0 =? dq) then Tag weak (removelast tl) else Tag weak v
  | [] => Tag weak v
  end.

(* up to the next DQUOTE: (content, rest after it) *)
Fixpoint until_quote (s : str) : option (str * str) :=
  match s with
  | [] => None
  | c :: tl => if c =? dq then Some ([], tl)
               else match until_quote tl with Some (v, r) => Some (c :: v, r) | None => None end
  end.

(* _ENTITY_TAG_PATTERN.findall: optional W/ or w/, DQUOTE, any non-DQUOTE characters, DQUOTE *)
Fixpoint etag_scan (fuel : nat) (s : str) : list etag :=
  match fuel with
  | O => []
  | S f =>
    match s with
    | [] => []
    | c :: tl =>
      let plain :=
        if c =? dq then
          match until_quote tl with
          | Some (v, r) => Tag false v :: etag_scan f r
          | None => []          (* no later quote at all: nothing further can match *)
          end
        else etag_scan f tl in
      if (c =? 87) || (c =? 119) then
        match tl with
        | sl :: q :: rest =>
          if (sl =? 47) && (q =? dq) then
            match until_quote rest with
            | Some (v, r) => Tag true v :: etag_scan f r
            | None => []
            end
          else plain
        | _ => plain
        end
      else plain
    end
  end.

Definition star_c : N := 42.

Definition parse_etags (s : str) : option (list etag) :=
  let s := strip_ws s in
  match s with
  | [] => None
  | _ =>
    if str_eqb s [star_c] then Some [Star]
    else if negb (char_in comma s) then Some [etag_loads s]
    else match etag_scan (List.length s) s with [] => None | l => Some l end
  end.

(* req.if_match / req.if_none_match: `if header_value:` *)
Definition if_match_acc (hdr : option str) : option (list etag) :=
  match hdr with
  | Some (c :: s) => parse_etags (c :: s)
  | _ => None
  end.

(* ---- Cookie *)
Inductive cval := Raw (s : str) | Unq (s : str).   (* Unq s = http.cookies._unquote(s), oracle *)

Definition semicolon : N := 59.

Fixpoint cookie_add (d : list (str * list cval)) (n : str) (v : cval) : list (str * list cval) :=
  match d with
  | [] => [(n, [v])]
  | (k, vs) :: tl => if str_eqb n k then (k, vs ++ [v]) :: tl else (k, vs) :: cookie_add tl n v
  end.

Definition cookie_token (fixed : bool) (d : list (str * list cval)) (token : str)
  : list (str * list cval) :=
  let '(name, _, value) := partition_chr eq_c token in
  let name := strip_ws name in
  let value := strip_ws value in
  if negb (nonempty name) then d
  else if existsb (fun c => char_in c cookie_name_reserved) name then d
  else
    let long_enough := if fixed then (2 <=? List.length value)%nat else (3 <=? List.length value)%nat in
    let v := if long_enough && (hd 0 value =? dq) && (last value 0 =? dq) then Unq value else Raw value in
    cookie_add d name v.

Definition parse_cookie_header (fixed : bool) (h : str) : list (str * list cval) :=
  fold_left (cookie_token fixed) (split_chr semicolon h) [].

(* req.cookies: first value of each name; req.get_cookie_values(name) *)
Definition cookies_acc (fixed : bool) (hdr : option str) : list (str * cval) :=
  match hdr with
  | Some (c :: s) => map (fun p => (fst p, hd (Raw []) (snd p))) (parse_cookie_header fixed (c :: s))
  | _ => []
  end.

(* ---- Forwarded *)
Record fwd := { f_src : option str; f_dest : option str; f_host : option str; f_scheme : option str }.
Definition fwd0 : fwd := {| f_src := None; f_dest := None; f_host := None; f_scheme := None |}.

Fixpoint take_while (p : N -> bool) (s : str) : str * str :=
  match s with
  | c :: tl => if p c then let '(a, b) := take_while p tl in (c :: a, b) else ([], s)
  | [] => ([], [])
  end.

Definition is_tchar (c : N) : bool := char_in c fwd_tchar.

(* body of a quoted-string after the opening quote, with the regex's backtracking order:
   quoted-pair first, then qdtext (which contains the backslash) -> (matched text, rest) *)
Fixpoint qs_body (s : str) : option (str * str) :=
  match s with
  | [] => None
  | c :: tl =>
    let as_qdtext :=
      if char_in c fwd_qdtext then
        match qs_body tl with Some (m, r) => Some (c :: m, r) | None => None end
      else None in
    if c =? dq then Some ([dq], tl)
    else if c =? bsl then
      match tl with
      | d :: tl' =>
        if char_in d fwd_qpchar then
          match qs_body tl' with
          | Some (m, r) => Some (c :: d :: m, r)
          | None => as_qdtext
          end
        else as_qdtext
      | [] => None
      end
    else as_qdtext
  end.

(* _FORWARDED_PAIR_RE.match at the head of s: (name, value text, rest) *)
Definition pair_match (s : str) : option (str * str * str) :=
  let '(name, r1) := take_while is_tchar s in
  match name, r1 with
  | _ :: _, e :: r2 =>
    if e =? eq_c then
      let '(tok, r3) := take_while is_tchar r2 in
      match tok with
      | _ :: _ => Some (name, tok, r3)
      | [] =>
        match r2 with
        | q :: r4 => if q =? dq then
                       match qs_body r4 with
                       | Some (m, r5) => Some (name, dq :: m, r5)
                       | None => None
                       end
                     else None
        | [] => None
        end
      end
    else None
  | _, _ => None
  end.

(* uri.unquote_string: the model of C10 (coq/C10/Model.v), where it is tied to the code and proved
   to be the quoted-pair reading *)
Definition unquote_string : str -> str := Falcon.C10.Model.unquote_string.

Definition s_by : str := Eval vm_compute in lit "by".
Definition s_for : str := Eval vm_compute in lit "for".
Definition s_host : str := Eval vm_compute in lit "host".
Definition s_proto : str := Eval vm_compute in lit "proto".

Definition fwd_set (e : fwd) (name value : str) : fwd :=
  let name := lower name in
  let value := match value with c :: _ => if c =? dq then unquote_string value else value | [] => value end in
  if str_eqb name s_by then {| f_src := f_src e; f_dest := Some value; f_host := f_host e; f_scheme := f_scheme e |}
  else if str_eqb name s_for then {| f_src := Some value; f_dest := f_dest e; f_host := f_host e; f_scheme := f_scheme e |}
  else if str_eqb name s_host then {| f_src := f_src e; f_dest := f_dest e; f_host := Some value; f_scheme := f_scheme e |}
  else if str_eqb name s_proto then {| f_src := f_src e; f_dest := f_dest e; f_host := f_host e; f_scheme := Some (lower value) |}
  else e.

(* forwarded.find(',', pos): the suffix starting at the next comma *)
Fixpoint skip_to_comma (s : str) : option str :=
  match s with
  | [] => None
  | c :: tl => if c =? comma then Some s else skip_to_comma tl
  end.

(* the while loop of _parse_forwarded_header over the unread suffix *)
Fixpoint fwd_loop (fuel : nat) (s : str) (need_sep : bool) (cur : option fwd) (acc : list fwd)
  : list fwd :=
  let finish := match cur with Some e => acc ++ [e] | None => acc end in
  match fuel with
  | O => finish
  | S f =>
    match s with
    | [] => finish
    | c :: tl =>
      match pair_match s with
      | Some (name, value, rest) =>
        if need_sep then
          match skip_to_comma s with Some s' => fwd_loop f s' need_sep cur acc | None => finish end
        else
          let e := match cur with Some e => e | None => fwd0 end in
          fwd_loop f rest true (Some (fwd_set e name value)) acc
      | None =>
        if c =? comma then
          fwd_loop f tl false None (match cur with Some e => acc ++ [e] | None => acc end)
        else if c =? semicolon then fwd_loop f tl false cur acc
        else if (c =? 32) || (c =? 9) then fwd_loop f tl need_sep cur acc
        else match skip_to_comma s with Some s' => fwd_loop f s' need_sep cur acc | None => finish end
      end
    end
  end.

Definition parse_forwarded (h : str) : list fwd := fwd_loop (S (List.length h)) h false None [].

(* req.access_route; [fwd_hdr] etc. = Some v iff the header is present *)
Fixpoint route_of_hops (fixed : bool) (l : list fwd) : res (list str) :=
  match l with
  | [] => Ok []
  | hop :: tl =>
    match f_src hop with
    | None => route_of_hops fixed tl
    | Some src =>
      match parse_host fixed src None with
      | Ok (h, _) => match route_of_hops fixed tl with
                     | Ok r => Ok (h :: r)
                     | Http400 => Http400
                     | Crash k => Crash k
                     end
      | Http400 => Http400
      | Crash k => Crash k
      end
    end
  end.

Definition access_route (fixed asgi : bool) (fwd_hdr xff xreal : option str) (remote : str)
  : res (list str) :=
  let base :=
    match fwd_hdr with
    | Some h => route_of_hops fixed (parse_forwarded h)
    | None =>
      match xff with
      | Some v => Ok (map strip_ws (split_chr comma v))
      | None => match xreal with Some v => Ok [v] | None => Ok [] end
      end
    end in
  match base with
  | Ok [] => Ok (if asgi && negb (nonempty remote) then [] else [remote])
  | Ok r => Ok (if str_eqb (last r []) remote then r else r ++ [remote])
  | Http400 => Http400
  | Crash k => Crash k
  end.

(* ---- URL composition, with the memoisation fields of the Request object *)
Record env := {
  e_scheme : str; e_netloc : str; e_root_path : str; e_path : str; e_query : str;
  e_fwd_scheme : str; e_fwd_host : str }.

Definition s_sep : str := Eval vm_compute in lit "://".

Inductive uacc := A_uri | A_prefix | A_relative_uri | A_forwarded_uri | A_forwarded_prefix.

Record cache := {
  c_uri : option str; c_prefix : option str; c_relative_uri : option str;
  c_forwarded_uri : option str; c_forwarded_prefix : option str }.
Definition cache0 : cache :=
  {| c_uri := None; c_prefix := None; c_relative_uri := None; c_forwarded_uri := None;
     c_forwarded_prefix := None |}.

Definition read_relative (e : env) (c : cache) : str * cache :=
  match c_relative_uri c with
  | Some v => (v, c)
  | None =>
    let v := if nonempty (e_query e) then e_root_path e ++ e_path e ++ [63] ++ e_query e
             else e_root_path e ++ e_path e in
    (v, {| c_uri := c_uri c; c_prefix := c_prefix c; c_relative_uri := Some v;
           c_forwarded_uri := c_forwarded_uri c; c_forwarded_prefix := c_forwarded_prefix c |})
  end.

Definition read (e : env) (a : uacc) (c : cache) : str * cache :=
  match a with
  | A_relative_uri => read_relative e c
  | A_uri =>
    match c_uri c with
    | Some v => (v, c)
    | None =>
      let '(rel, c1) := read_relative e c in
      let v := e_scheme e ++ s_sep ++ e_netloc e ++ rel in
      (v, {| c_uri := Some v; c_prefix := c_prefix c1; c_relative_uri := c_relative_uri c1;
             c_forwarded_uri := c_forwarded_uri c1; c_forwarded_prefix := c_forwarded_prefix c1 |})
    end
  | A_prefix =>
    match c_prefix c with
    | Some v => (v, c)
    | None =>
      let v := e_scheme e ++ s_sep ++ e_netloc e ++ e_root_path e in
      (v, {| c_uri := c_uri c; c_prefix := Some v; c_relative_uri := c_relative_uri c;
             c_forwarded_uri := c_forwarded_uri c; c_forwarded_prefix := c_forwarded_prefix c |})
    end
  | A_forwarded_uri =>
    match c_forwarded_uri c with
    | Some v => (v, c)
    | None =>
      let '(rel, c1) := read_relative e c in
      let v := e_fwd_scheme e ++ s_sep ++ e_fwd_host e ++ rel in
      (v, {| c_uri := c_uri c1; c_prefix := c_prefix c1; c_relative_uri := c_relative_uri c1;
             c_forwarded_uri := Some v; c_forwarded_prefix := c_forwarded_prefix c1 |})
    end
  | A_forwarded_prefix =>
    match c_forwarded_prefix c with
    | Some v => (v, c)
    | None =>
      let v := e_fwd_scheme e ++ s_sep ++ e_fwd_host e ++ e_root_path e in
      (v, {| c_uri := c_uri c; c_prefix := c_prefix c; c_relative_uri := c_relative_uri c;
             c_forwarded_uri := c_forwarded_uri c; c_forwarded_prefix := Some v |})
    end
  end.

Fixpoint reads (e : env) (l : list uacc) (c : cache) : list str * cache :=
  match l with
  | [] => ([], c)
  | a :: tl => let '(v, c1) := read e a c in
               let '(vs, c2) := reads e tl c1 in (v :: vs, c2)
  end.

(* forwarded_scheme / forwarded_host *)
Definition forwarded_scheme (fwd_hdr xproto : option str) (scheme : str) : str :=
  match fwd_hdr with
  | Some h => match parse_forwarded h with
              | e :: _ => match f_scheme e with Some (c :: s) => c :: s | _ => scheme end
              | [] => scheme
              end
  | None => match xproto with Some v => lower v | None => scheme end
  end.

Definition forwarded_host (fwd_hdr xhost : option str) (netloc : str) : str :=
  match fwd_hdr with
  | Some h => match parse_forwarded h with
              | e :: _ => match f_host e with Some (c :: s) => c :: s | _ => netloc end
              | [] => netloc
              end
  | None => match xhost with Some v => v | None => netloc end
  end.

(* ---- header lookup: WSGI name mangling.  The environ key a PEP 3333 server builds for a
   header field name, and the key Request.get_header looks up. *)
Definition mangle (name : str) : str := replace_chr dash underscore (upper name).
