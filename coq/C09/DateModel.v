(* C09 — HTTP dates: executable model of falcon.util.misc.dt_to_http / http_date_to_dt, i.e. of
   datetime.strftime / datetime.strptime for the formats falcon uses, of the request accessors built
   on them (get_header_as_datetime, date, if_modified_since, if_unmodified_since) and of the response
   setters last_modified / expires.

   strptime is CPython's Lib/_strptime.py: the format becomes a case-insensitive regular expression
   (a blank -> \s+, %d -> 3[0-1]|[1-2]\d|0[1-9]|[1-9]| [1-9], %H -> 2[0-3]|[0-1]\d|\d,
   %M -> [0-5]\d|\d, %S -> 6[0-1]|[0-5]\d|\d, %Y -> \d\d\d\d, %y -> \d\d, names from the locale),
   matched at the start of the text, which must then be used up; the weekday is ignored; the fields
   are then checked by the datetime constructor.  The model is the deterministic scanner that this
   regular expression amounts to (every numeric field is followed by a non-digit, so the
   alternation order never matters beyond "two digits if they form an allowed value").
   Header text is latin-1, where \d is [0-9] and \s is str.isspace (ConstsC09.str_ws_latin1). *)
From Coq Require Import ZArith NArith List Bool.
From Falcon.lib Require Import PyStr.
From Falcon.gen Require Import ConstsC09.
From Falcon.C09 Require Import Model.
Import ListNotations.
Open Scope Z_scope.

Record date := mk_date { yr : Z; mo : Z; dy : Z; hh : Z; mi : Z; ss : Z }.

Definition is_leap (y : Z) : bool := (y mod 4 =? 0) && (negb (y mod 100 =? 0) || (y mod 400 =? 0)).
Definition dim (y m : Z) : Z :=
  if m =? 2 then (if is_leap y then 29 else 28)
  else if (m =? 4) || (m =? 6) || (m =? 9) || (m =? 11) then 30 else 31.

(* what the datetime constructor accepts *)
Definition validb (d : date) : bool :=
  (1 <=? yr d) && (yr d <=? 9999) && (1 <=? mo d) && (mo d <=? 12) && (1 <=? dy d) && (dy d <=? dim (yr d) (mo d))
  && (0 <=? hh d) && (hh d <=? 23) && (0 <=? mi d) && (mi d <=? 59) && (0 <=? ss d) && (ss d <=? 59).

(* proleptic Gregorian day number, 1970-01-01 = 0 *)
Definition days_from_civil (y m d : Z) : Z :=
  let y' := if m <=? 2 then y - 1 else y in
  let era := y' / 400 in
  let yoe := y' - era * 400 in
  let doy := (153 * (if 2 <? m then m - 3 else m + 9) + 2) / 5 + d - 1 in
  let doe := yoe * 365 + yoe / 4 - yoe / 100 + doy in
  era * 146097 + doe - 719468.

Definition civil_from_days (z : Z) : Z * Z * Z :=
  let z := z + 719468 in
  let era := z / 146097 in
  let doe := z - era * 146097 in
  let yoe := (doe - doe / 1460 + doe / 36524 - doe / 146096) / 365 in
  let y := yoe + era * 400 in
  let doy := doe - (365 * yoe + yoe / 4 - yoe / 100) in
  let mp := (5 * doy + 2) / 153 in
  let d := doy - (153 * mp + 2) / 5 + 1 in
  let m := if mp <? 10 then mp + 3 else mp - 9 in
  ((if m <=? 2 then y + 1 else y), m, d).

(* date.weekday(): Monday = 0 *)
Definition weekday (d : date) : Z := (days_from_civil (yr d) (mo d) (dy d) + 3) mod 7.

(* ------------------------------------------------------------------ strftime *)
Definition digit_chr (n : Z) : N := 48 + Z.to_N n.
Definition pad2 (n : Z) : str := [digit_chr (n / 10); digit_chr (n mod 10)].
Definition pad4 (n : Z) : str :=
  [digit_chr (n / 1000); digit_chr ((n / 100) mod 10); digit_chr ((n / 10) mod 10); digit_chr (n mod 10)].
(* '%d' % n  for 0 <= n <= 9999 *)
Definition unpadded (n : Z) : str :=
  if n <? 10 then [digit_chr n]
  else if n <? 100 then pad2 n
  else if n <? 1000 then [digit_chr (n / 100); digit_chr ((n / 10) mod 10); digit_chr (n mod 10)]
  else pad4 n.

Definition nth_name (tbl : list str) (i : Z) : str := nth (Z.to_nat i) tbl [].

Definition s_gmt : str := [71%N; 77%N; 84%N].
Definition sp : N := 32%N.

(* dt.strftime('%a, %d %b %Y %H:%M:%S GMT'); [pad_year] = the platform's %Y pads to four digits, or
   the repaired code writes the year itself *)
Definition strftime_http (pad_year : bool) (d : date) : str :=
  nth_name date_a_weekday (weekday d) ++ [44%N; sp] ++ pad2 (dy d) ++ [sp]
  ++ nth_name date_a_month (mo d - 1) ++ [sp]
  ++ (if pad_year then pad4 (yr d) else unpadded (yr d)) ++ [sp]
  ++ pad2 (hh d) ++ [58%N] ++ pad2 (mi d) ++ [58%N] ++ pad2 (ss d) ++ [sp] ++ s_gmt.

(* a datetime as given to a setter: the wall-clock fields and, for an aware one, utcoffset() in whole
   seconds *)
Record pydt := mk_pydt { fields : date; offset : option Z }.

(* dt.astimezone(timezone.utc) on the fields; None = OverflowError (outside year 1..9999) *)
Definition to_utc (p : pydt) : option date :=
  match offset p with
  | None => Some (fields p)
  | Some 0 => Some (fields p)
  | Some off =>
    let f := fields p in
    let total := days_from_civil (yr f) (mo f) (dy f) * 86400 + hh f * 3600 + mi f * 60 + ss f - off in
    let '(y, m, d) := civil_from_days (total / 86400) in
    let rem := total mod 86400 in
    if (1 <=? y) && (y <=? 9999)
    then Some (mk_date y m d (rem / 3600) ((rem / 60) mod 60) (rem mod 60))
    else None
  end.

Inductive setres := SText (s : str) | SOverflow.

(* dt_to_http.  As found: the fields are formatted as they are (an aware non-UTC datetime is
   mislabelled GMT) with the platform's %Y.  Repaired (fixes/C09-dt-to-http-utc-and-year.patch):
   aware datetimes are converted to UTC first and the year is always written with four digits. *)
Definition dt_to_http (fixed : bool) (p : pydt) : setres :=
  if fixed then
    match to_utc p with
    | Some u => SText (strftime_http true u)
    | None => SOverflow
    end
  else SText (strftime_http strftime_Y_padded (fields p)).

(* resp.last_modified = dt / resp.expires = dt: the header text *)
Definition set_date_header := dt_to_http.

(* ------------------------------------------------------------------ strptime *)
Open Scope N_scope.
Definition dval (c : N) : Z := Z.of_N (c - 48).
Definition is_ws (c : N) : bool := char_in c str_ws_latin1.

(* \s+ *)
Fixpoint skip_ws (s : str) : str :=
  match s with c :: tl => if is_ws c then skip_ws tl else s | [] => [] end.
Definition ws1 (s : str) : option str :=
  match s with c :: tl => if is_ws c then Some (skip_ws tl) else None | [] => None end.

(* a literal under re.IGNORECASE *)
Fixpoint lit_ci (l s : str) : option str :=
  match l, s with
  | [], _ => Some s
  | x :: l', c :: s' => if lower_chr c =? lower_chr x then lit_ci l' s' else None
  | _ :: _, [] => None
  end.

(* (?P<x>name1|name2|...) : the first alternative that matches; its position in [order] *)
Fixpoint name_alt (order : list str) (s : str) : option (str * str) :=
  match order with
  | [] => None
  | n :: tl => match lit_ci n s with Some r => Some (n, r) | None => name_alt tl s end
  end.

Fixpoint index_of (n : str) (tbl : list str) (i : Z) : option Z :=
  match tbl with
  | [] => None
  | x :: tl => if str_eqb n (lower x) then Some i else index_of n tl (i + 1)%Z
  end.

(* a numeric field: two digits when [ok2] allows them, else one digit allowed by [ok1] *)
Definition num21 (ok2 : N -> N -> bool) (ok1 : N -> bool) (s : str) : option (Z * str) :=
  match s with
  | a :: tl =>
    if negb (isdigit a) then None else
    match tl with
    | b :: r => if isdigit b && ok2 a b then Some ((dval a * 10 + dval b)%Z, r)
                else if ok1 a then Some (dval a, tl) else None
    | [] => if ok1 a then Some (dval a, tl) else None
    end
  | [] => None
  end.

(* %d: 3[0-1]|[1-2]\d|0[1-9]|[1-9]| [1-9] *)
Definition p_day (s : str) : option (Z * str) :=
  match s with
  | a :: b :: r =>
    if (a =? 32) && isdigit b && negb (b =? 48) then Some (dval b, r)
    else num21 (fun a b => ((a =? 51) && (b <=? 49)) || (a =? 49) || (a =? 50) || ((a =? 48) && negb (b =? 48)))
               (fun a => negb (a =? 48)) s
  | _ => num21 (fun _ _ => false) (fun a => negb (a =? 48)) s
  end.
(* %H: 2[0-3]|[0-1]\d|\d *)
Definition p_hour := num21 (fun a b => ((a =? 50) && (b <=? 51)) || (a <=? 49)) (fun _ => true).
(* %M: [0-5]\d|\d *)
Definition p_min := num21 (fun a _ => a <=? 53) (fun _ => true).
(* %S: 6[0-1]|[0-5]\d|\d *)
Definition p_sec := num21 (fun a b => ((a =? 54) && (b <=? 49)) || (a <=? 53)) (fun _ => true).
(* %Y: \d\d\d\d *)
Definition p_year4 (s : str) : option (Z * str) :=
  match s with
  | a :: b :: c :: d :: r =>
    if isdigit a && isdigit b && isdigit c && isdigit d
    then Some ((dval a * 1000 + dval b * 100 + dval c * 10 + dval d)%Z, r) else None
  | _ => None
  end.
(* %y: \d\d, pivot 69 *)
Definition p_year2 (s : str) : option (Z * str) :=
  match s with
  | a :: b :: r =>
    if isdigit a && isdigit b
    then let y := (dval a * 10 + dval b)%Z in Some ((if (y <=? 68)%Z then 2000 + y else 1900 + y)%Z, r)
    else None
  | _ => None
  end.

Inductive item :=
| ILit (l : str) | IWs | Ia | IA | Ib | Id | IY | Iy | IH | IM | IS | IZ.

(* fields found so far; strptime's defaults are 1900-01-01 00:00:00 *)
Definition date0 : date := mk_date 1900 1 1 0 0 0.

Fixpoint run_items (its : list item) (s : str) (d : date) : option date :=
  match its with
  | [] => match s with [] => Some d | _ :: _ => None end      (* unconverted data remains *)
  | it :: rest =>
    match it with
    | ILit l => match lit_ci l s with Some r => run_items rest r d | None => None end
    | IWs => match ws1 s with Some r => run_items rest r d | None => None end
    | Ia => match name_alt strp_a_order s with Some (_, r) => run_items rest r d | None => None end
    | IA => match name_alt strp_A_order s with Some (_, r) => run_items rest r d | None => None end
    | IZ => match name_alt strp_Z_order s with Some (_, r) => run_items rest r d | None => None end
    | Ib => match name_alt strp_b_order s with
            | Some (n, r) => match index_of n date_a_month 1%Z with
                             | Some m => run_items rest r (mk_date (yr d) m (dy d) (hh d) (mi d) (ss d))
                             | None => None
                             end
            | None => None
            end
    | Id => match p_day s with
            | Some (v, r) => run_items rest r (mk_date (yr d) (mo d) v (hh d) (mi d) (ss d)) | None => None end
    | IY => match p_year4 s with
            | Some (v, r) => run_items rest r (mk_date v (mo d) (dy d) (hh d) (mi d) (ss d)) | None => None end
    | Iy => match p_year2 s with
            | Some (v, r) => run_items rest r (mk_date v (mo d) (dy d) (hh d) (mi d) (ss d)) | None => None end
    | IH => match p_hour s with
            | Some (v, r) => run_items rest r (mk_date (yr d) (mo d) (dy d) v (mi d) (ss d)) | None => None end
    | IM => match p_min s with
            | Some (v, r) => run_items rest r (mk_date (yr d) (mo d) (dy d) (hh d) v (ss d)) | None => None end
    | IS => match p_sec s with
            | Some (v, r) => run_items rest r (mk_date (yr d) (mo d) (dy d) (hh d) (mi d) v) | None => None end
    end
  end.

(* datetime.strptime(text, fmt): None = ValueError (no match, trailing data, or the datetime
   constructor rejects the fields: year 0, day out of range for the month, second 60/61) *)
Definition strptime (fmt : list item) (s : str) : option date :=
  match run_items fmt s date0 with
  | Some d => if validb d then Some d else None
  | None => None
  end.

Definition comma_ws : list item := [ILit [44]; IWs].
Definition hms : list item := [IH; ILit [58]; IM; ILit [58]; IS].
(* '%a, %d %b %Y %H:%M:%S GMT' *)
Definition fmt_imf : list item := [Ia] ++ comma_ws ++ [Id; IWs; Ib; IWs; IY; IWs] ++ hms ++ [IWs; ILit s_gmt].
(* '%a, %d %b %Y %H:%M:%S %Z', '%a, %d-%b-%Y %H:%M:%S %Z', '%A, %d-%b-%y %H:%M:%S %Z', '%a %b %d %H:%M:%S %Y' *)
Definition fmt_obs : list (list item) :=
  [ [Ia] ++ comma_ws ++ [Id; IWs; Ib; IWs; IY; IWs] ++ hms ++ [IWs; IZ];
    [Ia] ++ comma_ws ++ [Id; ILit [45]; Ib; ILit [45]; IY; IWs] ++ hms ++ [IWs; IZ];
    [IA] ++ comma_ws ++ [Id; ILit [45]; Ib; ILit [45]; Iy; IWs] ++ hms ++ [IWs; IZ];
    [Ia; IWs; Ib; IWs; Id; IWs] ++ hms ++ [IWs; IY] ].

Fixpoint first_format (fmts : list (list item)) (s : str) : option date :=
  match fmts with
  | [] => None
  | f :: tl => match strptime f s with Some d => Some d | None => first_format tl s end
  end.

(* http_date_to_dt: the (UTC) fields, None = ValueError *)
Definition http_date_to_dt (s : str) (obs_date : bool) : option date :=
  if obs_date then first_format fmt_obs s else strptime fmt_imf s.

(* req.get_header_as_datetime(name, obs_date=...) on the header value; date, if_modified_since and
   if_unmodified_since are this with obs_date=False *)
Definition header_as_datetime (hdr : option str) (obs_date : bool) : res (option date) :=
  match hdr with
  | None => Ok None
  | Some v => match http_date_to_dt v obs_date with Some d => Ok (Some d) | None => Http400 end
  end.
