(* C09 — Cookie: a valid RFC 6265 cookie-string is read exactly (pairs in order, grouped by name). *)
From Coq Require Import ZArith NArith List Bool Lia ZifyBool ZifyN Arith.
From Falcon.lib Require Import PyStr.
From Falcon.gen Require Import ConstsC09.
From Falcon.C09 Require Import Model Spec SpecRfc Proofs ProofsEtag.
Import ListNotations.
Open Scope N_scope.

(* ------------------------------------------------------------------ generic list facts *)
Lemma take_while_spec p s : forall a b, take_while p s = (a, b) ->
  s = a ++ b /\ forallb p a = true /\ match b with c :: _ => p c = false | [] => True end.
Proof.
  induction s as [|c tl IH]; intros a b H; cbn [take_while] in H.
  - injection H as <- <-. repeat split.
  - destruct (p c) eqn:P.
    + destruct (take_while p tl) as [a' b'] eqn:T. injection H as <- <-.
      destruct (IH _ _ eq_refl) as (-> & F & G). cbn [app forallb]. rewrite P, F. repeat split. exact G.
    + injection H as <- <-. repeat split. exact P.
Qed.

Definition N_range (n : nat) : list N := map N.of_nat (seq 0 n).
Lemma in_N_range c n : c < N.of_nat n -> In c (N_range n).
Proof.
  intro H. unfold N_range. apply in_map_iff. exists (N.to_nat c). split; [lia|]. apply in_seq. lia.
Qed.

Lemma char_in_cons c x s : char_in c (x :: s) = (c =? x) || char_in c s.
Proof. reflexivity. Qed.

Lemma forallb_no p c (s : str) : forallb p s = true -> p c = false -> char_in c s = false.
Proof.
  intros F P. destruct (char_in c s) eqn:E; [|reflexivity].
  apply char_in_In in E. rewrite forallb_forall in F. apply F in E. congruence.
Qed.

Lemma split_cons_ne sep c tl : (c =? sep) = false ->
  split_chr sep (c :: tl) = match split_chr sep tl with [] => [[c]] | h :: t => (c :: h) :: t end.
Proof. intro E. cbn [split_chr]. rewrite E. reflexivity. Qed.

Lemma split_no_sep sep s : char_in sep s = false -> split_chr sep s = [s].
Proof.
  induction s as [|c tl IH]; [reflexivity|]. rewrite char_in_cons. intro H.
  apply orb_false_iff in H as [H1 H2]. rewrite N.eqb_sym in H1.
  rewrite (split_cons_ne sep c tl H1), (IH H2). reflexivity.
Qed.

Lemma split_app_sep sep a r :
  char_in sep a = false -> split_chr sep (a ++ sep :: r) = a :: split_chr sep r.
Proof.
  induction a as [|c a IH]; cbn [app].
  - intros _. cbn [split_chr]. rewrite N.eqb_refl. reflexivity.
  - rewrite char_in_cons. intro H. apply orb_false_iff in H as [H1 H2]. rewrite N.eqb_sym in H1.
    rewrite (split_cons_ne sep c _ H1), (IH H2). reflexivity.
Qed.

Lemma partition_app sep a b :
  char_in sep a = false -> partition_chr sep (a ++ sep :: b) = (a, true, b).
Proof.
  induction a as [|c a IH]; cbn [app partition_chr].
  - intros _. rewrite N.eqb_refl. reflexivity.
  - rewrite char_in_cons. intro H. apply orb_false_iff in H as [H1 H2]. rewrite N.eqb_sym in H1.
    rewrite H1, (IH H2). reflexivity.
Qed.

(* ------------------------------------------------------------------ character-class facts *)
Lemma ctoken_lt c : is_ctoken c = true -> c < 127.
Proof. unfold is_ctoken. lia. Qed.

(* no RFC 2616 token character is in falcon's reserved class (live table) *)
Lemma ctoken_not_reserved c : is_ctoken c = true -> char_in c cookie_name_reserved = false.
Proof.
  intro H.
  assert (T : forallb (fun c => negb (is_ctoken c) || negb (char_in c cookie_name_reserved)) (N_range 127) = true)
    by (vm_compute; reflexivity).
  rewrite forallb_forall in T. specialize (T c (in_N_range c 127 (ctoken_lt c H))).
  rewrite H in T. cbn [negb orb] in T. apply negb_true_iff in T. exact T.
Qed.

Lemma ctoken_not_ws c : is_ctoken c = true -> char_in c str_ws_latin1 = false.
Proof.
  intro H.
  assert (T : forallb (fun c => negb (is_ctoken c) || negb (char_in c str_ws_latin1)) (N_range 127) = true)
    by (vm_compute; reflexivity).
  rewrite forallb_forall in T. specialize (T c (in_N_range c 127 (ctoken_lt c H))).
  rewrite H in T. cbn [negb orb] in T. apply negb_true_iff in T. exact T.
Qed.

Lemma octet_lt c : is_cookie_octet c = true -> c < 127.
Proof. unfold is_cookie_octet. lia. Qed.

Lemma octet_not_ws c : is_cookie_octet c = true -> char_in c str_ws_latin1 = false.
Proof.
  intro H.
  assert (T : forallb (fun c => negb (is_cookie_octet c) || negb (char_in c str_ws_latin1)) (N_range 127) = true)
    by (vm_compute; reflexivity).
  rewrite forallb_forall in T. specialize (T c (in_N_range c 127 (octet_lt c H))).
  rewrite H in T. cbn [negb orb] in T. apply negb_true_iff in T. exact T.
Qed.

Lemma ctoken_not c x : is_ctoken c = true -> is_ctoken x = false -> (c =? x) = false.
Proof. intros H1 H2. destruct (c =? x) eqn:E; [|reflexivity]. apply N.eqb_eq in E. congruence. Qed.

(* ------------------------------------------------------------------ one cookie-pair *)
Definition cval_text (v : cval) : str := match v with Raw b => b | Unq q => q end.
Definition wf_name (n : str) : Prop := n <> [] /\ forallb is_ctoken n = true.
Definition wf_val (v : cval) : Prop :=
  match v with
  | Raw b => forallb is_cookie_octet b = true
  | Unq q => exists b, q = dq :: b ++ [dq] /\ forallb is_cookie_octet b = true
  end.

Lemma cookie_pair_text s n v r :
  cookie_pair s = Some (n, v, r) -> s = n ++ eq_c :: cval_text v ++ r /\ wf_name n /\ wf_val v.
Proof.
  unfold cookie_pair. destruct (take_while is_ctoken s) as [name r1] eqn:T1.
  destruct (take_while_spec _ _ _ _ T1) as (-> & Fn & _).
  destruct name as [|n0 name']; [discriminate|]. destruct r1 as [|e r2]; [discriminate|].
  destruct (e =? eq_c) eqn:Ee; [|discriminate]. apply N.eqb_eq in Ee. subst e.
  destruct r2 as [|q r3].
  - intro H. injection H as <- <- <-. repeat split; [discriminate | exact Fn].
  - destruct (q =? dq) eqn:Eq.
    + apply N.eqb_eq in Eq. subst q.
      destruct (take_while is_cookie_octet r3) as [body r4] eqn:T2.
      destruct (take_while_spec _ _ _ _ T2) as (-> & Fb & _).
      destruct r4 as [|q2 r5]; [discriminate|]. destruct (q2 =? dq) eqn:Eq2; [|discriminate].
      apply N.eqb_eq in Eq2. subst q2. intro H. injection H as <- <- <-.
      repeat split; [| discriminate | exact Fn | exists body; auto].
      cbn [cval_text app]. rewrite <- app_assoc. reflexivity.
    + destruct (take_while is_cookie_octet (q :: r3)) as [body r4] eqn:T2.
      destruct (take_while_spec _ _ _ _ T2) as (E & Fb & _).
      intro H. injection H as <- <- <-. rewrite E. repeat split; [discriminate | exact Fn | exact Fb].
Qed.

(* what the accessor does with the text of one valid pair, possibly after the "; " space *)
Lemma strip_lead (lead s : str) :
  forallb (fun c => char_in c str_ws_latin1) lead = true -> strip_ws (lead ++ s) = strip_ws s.
Proof.
  intro H. unfold strip_ws, strip_set. f_equal.
  induction lead as [|c lead IH]; [reflexivity|]. cbn [forallb] in H. apply andb_true_iff in H as [Hc Hl].
  cbn [app lstrip_set]. rewrite Hc. apply IH, Hl.
Qed.

Lemma strip_name n : wf_name n -> strip_ws n = n.
Proof.
  intros [Ne F]. apply strip_set_id; [exact Ne | |]; apply ctoken_not_ws; rewrite forallb_forall in F; apply F.
  - destruct n; [contradiction | left; reflexivity].
  - destruct n as [|c n']; [contradiction|]. rewrite (app_removelast_last 0 (l := c :: n')) by discriminate.
    rewrite last_app_single. apply in_or_app. right. left. reflexivity.
Qed.

Lemma last_in {A} (s : list A) d : s <> [] -> In (last s d) s.
Proof.
  intro H. rewrite (app_removelast_last d H) at 2. apply in_or_app. right. left. reflexivity.
Qed.

Lemma strip_val v : wf_val v -> strip_ws (cval_text v) = cval_text v.
Proof.
  destruct v as [b|q]; cbn [wf_val cval_text].
  - intro F. destruct b as [|c b']; [reflexivity|].
    apply strip_set_id; [discriminate | |]; apply octet_not_ws; rewrite forallb_forall in F; apply F.
    + left. reflexivity.
    + apply last_in. discriminate.
  - intros (b & -> & _). apply strip_set_id; [discriminate | reflexivity |].
    change (dq :: b ++ [dq]) with ((dq :: b) ++ [dq]). rewrite last_app_single. reflexivity.
Qed.

Lemma classify v : wf_val v ->
  (if (2 <=? List.length (cval_text v))%nat && (hd 0 (cval_text v) =? dq) && (last (cval_text v) 0 =? dq)
   then Unq (cval_text v) else Raw (cval_text v)) = v.
Proof.
  destruct v as [b|q]; cbn [wf_val cval_text].
  - intro F. destruct b as [|c b']; [reflexivity|]. cbn [hd].
    assert (Hc : (c =? dq) = false).
    { cbn [forallb] in F. apply andb_true_iff in F as [Fc _]. unfold is_cookie_octet, dq in *. lia. }
    rewrite Hc, andb_false_r. reflexivity.
  - intros (b & -> & _). cbn [hd List.length]. rewrite app_length. cbn [List.length].
    change (dq :: b ++ [dq]) with ((dq :: b) ++ [dq]). rewrite last_app_single, !N.eqb_refl.
    replace (2 <=? S (List.length b + 1))%nat with true by (symmetry; apply Nat.leb_le; lia). reflexivity.
Qed.

Lemma token_step d lead n v :
  lead = [] \/ lead = [32] -> wf_name n -> wf_val v ->
  cookie_token true d (lead ++ n ++ eq_c :: cval_text v) = cookie_add d n v.
Proof.
  intros Hl Wn Wv. unfold cookie_token.
  assert (Lws : forallb (fun c => char_in c str_ws_latin1) lead = true) by (destruct Hl as [-> | ->]; reflexivity).
  assert (Neq : char_in eq_c (lead ++ n) = false).
  { rewrite char_in_app. destruct Wn as [_ F].
    rewrite (forallb_no is_ctoken eq_c n F eq_refl). destruct Hl as [-> | ->]; reflexivity. }
  rewrite app_assoc, (partition_app eq_c (lead ++ n) (cval_text v) Neq).
  rewrite (strip_lead lead n Lws), (strip_name n Wn), (strip_val v Wv).
  destruct Wn as [Ne F]. destruct n as [|c n']; [contradiction|]. cbn [nonempty negb].
  assert (R : existsb (fun c => char_in c cookie_name_reserved) (c :: n') = false).
  { destruct (existsb (fun c => char_in c cookie_name_reserved) (c :: n')) eqn:E; [|reflexivity].
    apply existsb_exists in E as (x & Hx & Hr). rewrite forallb_forall in F.
    rewrite (ctoken_not_reserved x (F x Hx)) in Hr. discriminate. }
  rewrite R. rewrite (classify v Wv). reflexivity.
Qed.

(* ------------------------------------------------------------------ the whole cookie-string *)
Lemma pair_no_semicolon n v : wf_name n -> wf_val v -> char_in semicolon (n ++ eq_c :: cval_text v) = false.
Proof.
  intros [_ Fn] Wv. rewrite char_in_app, (forallb_no is_ctoken semicolon n Fn eq_refl). cbn [orb].
  rewrite char_in_cons. cbn [N.eqb Pos.eqb orb].
  destruct v as [b|q]; cbn [wf_val cval_text] in *.
  - apply (forallb_no is_cookie_octet semicolon b Wv eq_refl).
  - destruct Wv as (b & -> & Fb). rewrite char_in_cons, char_in_app.
    rewrite (forallb_no is_cookie_octet semicolon b Fb eq_refl). reflexivity.
Qed.

Theorem cookie_fold f : forall s pairs d lead,
  cookie_pairs f s = Some pairs -> lead = [] \/ lead = [32] ->
  fold_left (cookie_token true) (split_chr semicolon (lead ++ s)) d
  = fold_left (fun d p => cookie_add d (fst p) (snd p)) pairs d.
Proof.
  induction f as [|f IH]; intros s pairs d lead H Hl; [discriminate|].
  cbn [cookie_pairs] in H. destruct (cookie_pair s) as [[[n v] r]|] eqn:P; [|discriminate].
  destruct (cookie_pair_text _ _ _ _ P) as (-> & Wn & Wv).
  assert (NS : char_in semicolon (lead ++ n ++ eq_c :: cval_text v) = false).
  { rewrite char_in_app, (pair_no_semicolon n v Wn Wv). destruct Hl as [-> | ->]; reflexivity. }
  destruct r as [|a [|b r']]; try discriminate.
  - injection H as <-. rewrite app_nil_r. rewrite (split_no_sep _ _ NS). cbn [fold_left fst snd].
    apply token_step; assumption.
  - destruct ((a =? semicolon) && (b =? 32)) eqn:E; [|discriminate].
    apply andb_true_iff in E as [Ea Eb]. apply N.eqb_eq in Ea, Eb. subst a b.
    destruct (cookie_pairs f r') as [l|] eqn:CP; [|discriminate]. injection H as <-.
    replace (lead ++ n ++ eq_c :: cval_text v ++ semicolon :: 32 :: r')
      with ((lead ++ n ++ eq_c :: cval_text v) ++ semicolon :: [32] ++ r')
      by (rewrite <- !app_assoc; reflexivity).
    rewrite (split_app_sep semicolon _ _ NS). cbn [fold_left fst snd].
    rewrite (token_step d lead n v Hl Wn Wv). apply (IH r' l _ [32] CP). right. reflexivity.
Qed.

Theorem cookies_valid v pairs :
  rfc_cookie_string v = Some pairs -> parse_cookie_header true v = cookie_group pairs.
Proof.
  intro H. unfold parse_cookie_header, cookie_group.
  apply (cookie_fold _ v pairs [] [] H). left. reflexivity.
Qed.

(* req.cookies: the first value of every name; get_cookie_values: all of them *)
Theorem cookies_acc_valid v pairs :
  rfc_cookie_string v = Some pairs ->
  cookies_acc true (Some v) = map (fun p => (fst p, hd (Raw []) (snd p))) (cookie_group pairs).
Proof.
  intro H. unfold cookies_acc. destruct v as [|c s]; [discriminate|]. rewrite (cookies_valid _ _ H). reflexivity.
Qed.
