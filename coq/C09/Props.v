(* C09 — property theorems only. *)
From Coq Require Import ZArith NArith List Bool String.
From Falcon.lib Require Import PyStr.
From Falcon.C09 Require Import Model Spec Proofs.
Import ListNotations.

(* ---- for invalid input: a lenient reading or a 400-class error, never another exception *)
Theorem C09_content_length_no_crash : forall (asgi : bool) v k,
  (if asgi then content_length_asgi v else content_length_wsgi v) <> @Crash (option Z) k.
Proof. exact content_length_no_crash. Qed.
Print Assumptions C09_content_length_no_crash.

Theorem C09_range_no_crash : forall v k, range v <> Crash k.
Proof. exact range_no_crash. Qed.
Print Assumptions C09_range_no_crash.

Theorem C09_range_unit_no_crash : forall v k, range_unit v <> Crash k.
Proof. exact range_unit_no_crash. Qed.
Print Assumptions C09_range_unit_no_crash.

Theorem C09_parse_host_no_crash : forall h d k, parse_host true h d <> Crash k.
Proof. exact parse_host_no_crash. Qed.
Print Assumptions C09_parse_host_no_crash.

Theorem C09_host_no_crash : forall hdr sn k, host_acc true hdr sn <> Crash k.
Proof. exact host_no_crash. Qed.
Print Assumptions C09_host_no_crash.

Theorem C09_port_no_crash : forall hdr https sp k, port_acc true hdr https sp <> Crash k.
Proof. exact port_no_crash. Qed.
Print Assumptions C09_port_no_crash.

Theorem C09_subdomain_no_crash : forall hdr sn k, subdomain_acc true hdr sn <> Crash k.
Proof. exact subdomain_no_crash. Qed.
Print Assumptions C09_subdomain_no_crash.

Theorem C09_access_route_no_crash : forall asgi fw xff xreal remote k,
  access_route true asgi fw xff xreal remote <> Crash k.
Proof. exact access_route_no_crash. Qed.
Print Assumptions C09_access_route_no_crash.

(* the code as found: int(port) in uri.parse_host lets ValueError escape *)
Theorem C09_host_no_crash_refuted_before_fix :
  exists hdr sn k, host_acc false hdr sn = Crash k /\ port_acc false hdr false 80%Z = Crash k.
Proof. exact host_no_crash_refuted_before_fix. Qed.
Print Assumptions C09_host_no_crash_refuted_before_fix.

Theorem C09_host_valid_refuted_before_fix :
  exists v r, rfc_host v None = Some r /\ parse_host false v None <> Ok r.
Proof. exact host_valid_refuted_before_fix. Qed.
Print Assumptions C09_host_valid_refuted_before_fix.

Theorem C09_access_route_no_crash_refuted_before_fix :
  exists fw remote k, access_route false false (Some fw) None None remote = Crash k.
Proof. exact access_route_no_crash_refuted_before_fix. Qed.
Print Assumptions C09_access_route_no_crash_refuted_before_fix.

(* ---- syntactically valid => the value an independent RFC-level reader gives *)
Theorem C09_content_length_valid : forall (asgi : bool) v z,
  rfc_content_length v = Some z ->
  (if asgi then content_length_asgi (Some v) else content_length_wsgi (Some v)) = Ok (Some z).
Proof. exact content_length_valid. Qed.
Print Assumptions C09_content_length_valid.

Theorem C09_range_valid : forall v r, rfc_range v = Some r -> range (Some v) = Ok (Some r).
Proof. exact range_valid. Qed.
Print Assumptions C09_range_valid.

Theorem C09_host_valid : forall v d r, rfc_host v d = Some r -> parse_host true v d = Ok r.
Proof. exact host_valid. Qed.
Print Assumptions C09_host_valid.

(* entity-tags: a single rendered tag reads back.  Full statement (lists):
     forall l, l <> [] -> values without DQUOTE ->
       parse_etags (join ", " (map render_etag l)) = Some l
   is checked differentially only (generated lists, harness clause rfc-etag). *)
Theorem C09_etag_single_roundtrip_partial : forall w v,
  etag_loads (render_etag (Tag w v)) = Tag w v.
Proof. exact etag_loads_render. Qed.
Print Assumptions C09_etag_single_roundtrip_partial.

(* ---- repeated access: cached value = fresh value, for every interleaving of reads *)
Theorem C09_acc_stable : forall e l, fst (reads e l cache0) = map (fresh e) l.
Proof. exact acc_stable. Qed.
Print Assumptions C09_acc_stable.

(* ---- header lookup is case-insensitive (WSGI environ-key mangling) *)
Theorem C09_header_lookup_case_insensitive : forall n1 n2,
  lower n1 = lower n2 -> mangle n1 = mangle n2.
Proof. exact header_lookup_case_insensitive. Qed.
Print Assumptions C09_header_lookup_case_insensitive.

(* ---- the oracles applied to the implementation accept the model *)
Theorem C09_cl_oracle_sound : forall (asgi : bool) v,
  let r := if asgi then content_length_asgi (Some v) else content_length_wsgi (Some v) in
  cl_ok v (kind r) (match r with Ok x => x | _ => None end) = true.
Proof. exact cl_oracle_sound. Qed.
Print Assumptions C09_cl_oracle_sound.

Theorem C09_range_oracle_sound : forall v,
  range_ok v (kind (range (Some v))) (match range (Some v) with Ok x => x | _ => None end) = true.
Proof. exact range_oracle_sound. Qed.
Print Assumptions C09_range_oracle_sound.

Theorem C09_host_oracle_sound : forall v d,
  match parse_host true v d with
  | Ok (h, p) => host_ok v d 0 h p = true
  | Http400 => host_ok v d 1 [] None = true
  | Crash _ => False
  end.
Proof. exact host_oracle_sound. Qed.
Print Assumptions C09_host_oracle_sound.

(* ---- non-vacuity *)
Example C09_valid_inputs_exist :
  rfc_content_length (lit "0042") = Some 42%Z /\
  rfc_range (lit "bytes=10-20") = Some (10, 20)%Z /\
  rfc_range (lit "bytes=-5") = Some (-5, -1)%Z /\
  rfc_host (lit "[2001:db8::7]:8080") None = Some (lit "2001:db8::7", Some 8080%Z) /\
  rfc_host (lit "example.com:") (Some 80%Z) = Some (lit "example.com", Some 80%Z) /\
  range (Some (lit "bytes= 1 - +2")) = Ok (Some (1, 2)%Z) /\       (* a lenient reading *)
  range (Some (lit "bytes=5-1")) = Http400 /\
  access_route true false (Some (lit "for=""192.0.2.43:_obf"", for=198.51.100.17")) None None (lit "10.0.0.9")
    = Ok [lit "192.0.2.43"; lit "198.51.100.17"; lit "10.0.0.9"].
Proof. vm_compute. repeat split; reflexivity. Qed.
