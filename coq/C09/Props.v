From Coq Require Import ZArith NArith List Bool String.
From Falcon.lib Require Import PyStr.
From Falcon.C09 Require Import Model Spec Proofs.
Import ListNotations.
Theorem C09_tmp : True. Proof. exact I. Qed.
Print Assumptions C09_tmp.
