(* C09 — property theorems only. *)
From Coq Require Import ZArith NArith List Bool String.
From Falcon.lib Require Import PyStr.
From Falcon.C09 Require Import Model Spec SpecRfc Proofs ProofsEtag ProofsCookie ProofsForwarded ProofsRoute.
From Falcon.C09 Require Import DateModel DateSpec ProofsDate.
Import ListNotations.

(* ---- for invalid input: a lenient reading or a 400-class error, never another exception *)
Theorem C09_content_length_no_crash : forall (asgi : bool) v k,
  (if asgi then content_length_asgi v else content_length_wsgi v) <> @Crash (option Z) k.
Proof. exact content_length_no_crash. Qed.
Print Assumptions C09_content_length_no_crash.

Theorem C09_range_no_crash : forall v k, range v <> Crash k.
Proof. exact range_no_crash. Qed.
Print Assumptions C09_range_no_crash.

Theorem C09_range_unit_no_crash : forall v k, range_unit v <> Crash k.
Proof. exact range_unit_no_crash. Qed.
Print Assumptions C09_range_unit_no_crash.

Theorem C09_parse_host_no_crash : forall h d k, parse_host true h d <> Crash k.
Proof. exact parse_host_no_crash. Qed.
Print Assumptions C09_parse_host_no_crash.

Theorem C09_host_no_crash : forall hdr sn k, host_acc true hdr sn <> Crash k.
Proof. exact host_no_crash. Qed.
Print Assumptions C09_host_no_crash.

Theorem C09_port_no_crash : forall hdr https sp k, port_acc true hdr https sp <> Crash k.
Proof. exact port_no_crash. Qed.
Print Assumptions C09_port_no_crash.

Theorem C09_subdomain_no_crash : forall hdr sn k, subdomain_acc true hdr sn <> Crash k.
Proof. exact subdomain_no_crash. Qed.
Print Assumptions C09_subdomain_no_crash.

Theorem C09_access_route_no_crash : forall asgi fw xff xreal remote k,
  access_route true asgi fw xff xreal remote <> Crash k.
Proof. exact access_route_no_crash. Qed.
Print Assumptions C09_access_route_no_crash.

(* the code as found: int(port) in uri.parse_host lets ValueError escape *)
Theorem C09_host_no_crash_refuted_before_fix :
  exists hdr sn k, host_acc false hdr sn = Crash k /\ port_acc false hdr false 80%Z = Crash k.
Proof. exact host_no_crash_refuted_before_fix. Qed.
Print Assumptions C09_host_no_crash_refuted_before_fix.

Theorem C09_host_valid_refuted_before_fix :
  exists v r, rfc_host v None = Some r /\ parse_host false v None <> Ok r.
Proof. exact host_valid_refuted_before_fix. Qed.
Print Assumptions C09_host_valid_refuted_before_fix.

Theorem C09_access_route_no_crash_refuted_before_fix :
  exists fw remote k, access_route false false (Some fw) None None remote = Crash k.
Proof. exact access_route_no_crash_refuted_before_fix. Qed.
Print Assumptions C09_access_route_no_crash_refuted_before_fix.

(* ---- syntactically valid => the value an independent RFC-level reader gives *)
Theorem C09_content_length_valid : forall (asgi : bool) v z,
  rfc_content_length v = Some z ->
  (if asgi then content_length_asgi (Some v) else content_length_wsgi (Some v)) = Ok (Some z).
Proof. exact content_length_valid. Qed.
Print Assumptions C09_content_length_valid.

Theorem C09_range_valid : forall v r, rfc_range v = Some r -> range (Some v) = Ok (Some r).
Proof. exact range_valid. Qed.
Print Assumptions C09_range_valid.

Theorem C09_host_valid : forall v d r, rfc_host v d = Some r -> parse_host true v d = Ok r.
Proof. exact host_valid. Qed.
Print Assumptions C09_host_valid.

(* entity-tags: a single rendered tag reads back.  Full statement (lists):
     forall l, l <> [] -> values without DQUOTE ->
       parse_etags (join ", " (map render_etag l)) = Some l
   is checked differentially only (generated lists, harness clause rfc-etag). *)
Theorem C09_etag_single_roundtrip_partial : forall w v,
  etag_loads (render_etag (Tag w v)) = Tag w v.
Proof. exact etag_loads_render. Qed.
Print Assumptions C09_etag_single_roundtrip_partial.

(* ---- the list-valued headers: whenever the independent recursive-descent reader of SpecRfc.v
   accepts the header, the accessor returns exactly its reading.  (These accessors have no raising
   primitive in the model: they are total functions; "never another exception" for the real code is
   the harness's binding clause.) *)

(* If-Match / If-None-Match = "*" / 1#entity-tag (RFC 9110 8.8.3, 13.1) *)
Theorem C09_if_match_valid : forall v l, rfc_etags v = Some l -> if_match_acc (Some v) = Some l.
Proof. exact if_match_valid. Qed.
Print Assumptions C09_if_match_valid.

(* Cookie = cookie-string (RFC 6265 4.2.1): the pairs in order, grouped by name; quoted values go
   through the unquoting oracle (Unq), exactly the ones the RFC grammar quotes *)
Theorem C09_cookies_valid : forall v pairs,
  rfc_cookie_string v = Some pairs -> parse_cookie_header true v = cookie_group pairs.
Proof. exact cookies_valid. Qed.
Print Assumptions C09_cookies_valid.

Theorem C09_cookies_acc_valid : forall v pairs,
  rfc_cookie_string v = Some pairs ->
  cookies_acc true (Some v) = map (fun p => (fst p, hd (Raw []) (snd p))) (cookie_group pairs).
Proof. exact cookies_acc_valid. Qed.
Print Assumptions C09_cookies_acc_valid.

(* Forwarded (RFC 7239 4): elements in order, parameters case-insensitive, quoted-pairs resolved *)
Theorem C09_forwarded_valid : forall v l, rfc_forwarded v = Some l -> parse_forwarded v = l.
Proof. exact forwarded_valid. Qed.
Print Assumptions C09_forwarded_valid.

(* RFC 7239 6 node (IPv4 / bracketed IPv6 / unknown / obfuscated, optional port or obfuscated port):
   the nodename without brackets and port *)
Theorem C09_node_valid : forall v n, rfc_node v = Some n -> exists p, parse_host true v None = Ok (n, p).
Proof. exact node_valid. Qed.
Print Assumptions C09_node_valid.

(* access_route: Forwarded > X-Forwarded-For > X-Real-IP > remote address *)
Theorem C09_access_route_valid : forall asgi fw xff xreal remote r,
  rfc_access_route asgi fw xff xreal remote = Some r ->
  access_route true asgi fw xff xreal remote = Ok r.
Proof. exact access_route_valid. Qed.
Print Assumptions C09_access_route_valid.

Theorem C09_forwarded_scheme_valid : forall fw xproto scheme s,
  rfc_forwarded_scheme fw xproto scheme = Some s -> forwarded_scheme fw xproto scheme = s.
Proof. exact forwarded_scheme_valid. Qed.
Print Assumptions C09_forwarded_scheme_valid.

Theorem C09_forwarded_host_valid : forall fw xhost netloc s,
  rfc_forwarded_host fw xhost netloc = Some s -> forwarded_host fw xhost netloc = s.
Proof. exact forwarded_host_valid. Qed.
Print Assumptions C09_forwarded_host_valid.

(* forwarded_uri / forwarded_prefix: composed from those readings, under any interleaving of reads *)
Theorem C09_forwarded_uri_valid : forall fw xproto xhost e s h l,
  rfc_forwarded_scheme fw xproto (e_scheme e) = Some s ->
  rfc_forwarded_host fw xhost (e_netloc e) = Some h ->
  e_fwd_scheme e = forwarded_scheme fw xproto (e_scheme e) ->
  e_fwd_host e = forwarded_host fw xhost (e_netloc e) ->
  fst (reads e l cache0) = map (fresh e) l /\
  fresh e A_forwarded_uri = s ++ s_sep ++ h ++ fresh_relative e /\
  fresh e A_forwarded_prefix = s ++ s_sep ++ h ++ e_root_path e.
Proof.
  intros fw xp xh e s h l Hs Hh Es Eh. split; [apply acc_stable|].
  apply forwarded_scheme_valid in Hs. apply forwarded_host_valid in Hh.
  cbn [fresh]. rewrite Es, Eh, Hs, Hh. split; reflexivity.
Qed.
Print Assumptions C09_forwarded_uri_valid.

(* ---- HTTP dates (DateModel.v: strftime / strptime / dt_to_http / http_date_to_dt modelled, no oracle) *)

(* date values written by the response API read back to the same values: for ALL valid datetimes *)
Theorem C09_date_roundtrip : forall d,
  validb d = true -> http_date_to_dt (strftime_http true d) false = Some d.
Proof. exact date_roundtrip. Qed.
Print Assumptions C09_date_roundtrip.

(* resp.last_modified / resp.expires = dt (naive = UTC, or aware in any zone), then a date accessor on
   the header text: the UTC instant *)
Theorem C09_date_setter_roundtrip : forall p t,
  dt_to_http true p = SText t ->
  exists u, to_utc p = Some u /\ t = strftime_http true u /\
            (validb u = true -> header_as_datetime (Some t) false = Ok (Some u)).
Proof. exact setter_roundtrip. Qed.
Print Assumptions C09_date_setter_roundtrip.

Theorem C09_date_setter_roundtrip_utc : forall f off,
  validb f = true -> off = None \/ off = Some 0%Z ->
  exists t, dt_to_http true (mk_pydt f off) = SText t /\ header_as_datetime (Some t) false = Ok (Some f).
Proof. exact setter_roundtrip_utc. Qed.
Print Assumptions C09_date_setter_roundtrip_utc.

(* what the setters write is a strict RFC 9110 IMF-fixdate (fixed width, four-digit year, GMT) *)
Theorem C09_date_written_is_imf_fixdate : forall d,
  validb d = true -> rfc_imf_fixdate (strftime_http true d) = Some d.
Proof. exact strftime_is_imf. Qed.
Print Assumptions C09_date_written_is_imf_fixdate.

(* a strict IMF-fixdate is read exactly (with and without obs_date) *)
Theorem C09_imf_fixdate_valid : forall s d,
  rfc_imf_fixdate s = Some d ->
  header_as_datetime (Some s) false = Ok (Some d) /\ header_as_datetime (Some s) true = Ok (Some d).
Proof.
  intros s d H. split; [apply imf_fixdate_acc_valid, H|].
  unfold header_as_datetime. rewrite (imf_fixdate_valid_obs s d H). reflexivity.
Qed.
Print Assumptions C09_imf_fixdate_valid.

(* a value, None, or a 400-class error *)
Theorem C09_date_acc_no_crash : forall hdr obs k, header_as_datetime hdr obs <> Crash k.
Proof. exact date_acc_no_crash. Qed.
Print Assumptions C09_date_acc_no_crash.

Theorem C09_date_invalid_is_400 : forall v obs,
  http_date_to_dt v obs = None -> header_as_datetime (Some v) obs = Http400.
Proof. exact date_invalid_is_400. Qed.
Print Assumptions C09_date_invalid_is_400.

(* the code as found (fixes/C09-dt-to-http-utc-and-year.patch) *)
Theorem C09_date_roundtrip_refuted_before_fix_year :
  ConstsC09.strftime_Y_padded = false ->
  exists d t, validb d = true /\ dt_to_http false (mk_pydt d None) = SText t /\
              http_date_to_dt t false = None /\ rfc_imf_fixdate t = None.
Proof. exact roundtrip_refuted_before_fix_year. Qed.
Print Assumptions C09_date_roundtrip_refuted_before_fix_year.

Theorem C09_date_roundtrip_refuted_before_fix_tz :
  exists p t u r, dt_to_http false p = SText t /\ to_utc p = Some u /\
                  http_date_to_dt t false = Some r /\ r <> u.
Proof. exact roundtrip_refuted_before_fix_tz. Qed.
Print Assumptions C09_date_roundtrip_refuted_before_fix_tz.

(* ---- repeated access: cached value = fresh value, for every interleaving of reads *)
Theorem C09_acc_stable : forall e l, fst (reads e l cache0) = map (fresh e) l.
Proof. exact acc_stable. Qed.
Print Assumptions C09_acc_stable.

(* ---- header lookup is case-insensitive (WSGI environ-key mangling) *)
Theorem C09_header_lookup_case_insensitive : forall n1 n2,
  lower n1 = lower n2 -> mangle n1 = mangle n2.
Proof. exact header_lookup_case_insensitive. Qed.
Print Assumptions C09_header_lookup_case_insensitive.

(* ---- the oracles applied to the implementation accept the model *)
Theorem C09_cl_oracle_sound : forall (asgi : bool) v,
  let r := if asgi then content_length_asgi (Some v) else content_length_wsgi (Some v) in
  cl_ok v (kind r) (match r with Ok x => x | _ => None end) = true.
Proof. exact cl_oracle_sound. Qed.
Print Assumptions C09_cl_oracle_sound.

Theorem C09_range_oracle_sound : forall v,
  range_ok v (kind (range (Some v))) (match range (Some v) with Ok x => x | _ => None end) = true.
Proof. exact range_oracle_sound. Qed.
Print Assumptions C09_range_oracle_sound.

Theorem C09_host_oracle_sound : forall v d,
  match parse_host true v d with
  | Ok (h, p) => host_ok v d 0 h p = true
  | Http400 => host_ok v d 1 [] None = true
  | Crash _ => False
  end.
Proof. exact host_oracle_sound. Qed.
Print Assumptions C09_host_oracle_sound.

(* ---- non-vacuity *)
Example C09_valid_inputs_exist :
  rfc_content_length (lit "0042") = Some 42%Z /\
  rfc_range (lit "bytes=10-20") = Some (10, 20)%Z /\
  rfc_range (lit "bytes=-5") = Some (-5, -1)%Z /\
  rfc_host (lit "[2001:db8::7]:8080") None = Some (lit "2001:db8::7", Some 8080%Z) /\
  rfc_host (lit "example.com:") (Some 80%Z) = Some (lit "example.com", Some 80%Z) /\
  range (Some (lit "bytes= 1 - +2")) = Ok (Some (1, 2)%Z) /\       (* a lenient reading *)
  range (Some (lit "bytes=5-1")) = Http400 /\
  access_route true false (Some (lit "for=""192.0.2.43:_obf"", for=198.51.100.17")) None None (lit "10.0.0.9")
    = Ok [lit "192.0.2.43"; lit "198.51.100.17"; lit "10.0.0.9"].
Proof. vm_compute. repeat split; reflexivity. Qed.

(* dates: the RFC's own example in all three forms, leniencies, the calendar, zones *)
Example C09_date_examples :
  rfc_imf_fixdate (lit "Sun, 06 Nov 1994 08:49:37 GMT") = Some (mk_date 1994 11 6 8 49 37) /\
  strftime_http true (mk_date 1994 11 6 8 49 37) = lit "Sun, 06 Nov 1994 08:49:37 GMT" /\
  http_date_to_dt (lit "Sunday, 06-Nov-94 08:49:37 GMT") true = Some (mk_date 1994 11 6 8 49 37) /\
  http_date_to_dt (lit "Sun Nov  6 08:49:37 1994") true = Some (mk_date 1994 11 6 8 49 37) /\
  http_date_to_dt (lit "Sunday, 06-Nov-94 08:49:37 GMT") false = None /\
  http_date_to_dt (lit "mon,  6 nov 1994 8:49:7 gmt") false = Some (mk_date 1994 11 6 8 49 7) /\
  http_date_to_dt (lit "Tue, 29 Feb 1900 00:00:00 GMT") false = None /\
  http_date_to_dt (lit "Tue, 29 Feb 2000 00:00:00 GMT") false = Some (mk_date 2000 2 29 0 0 0) /\
  http_date_to_dt (lit "Tue, 15 Nov 1994 23:59:60 GMT") false = None /\
  weekday (mk_date 1 1 1 0 0 0) = 0%Z /\ weekday (mk_date 9999 12 31 0 0 0) = 4%Z /\
  to_utc (mk_pydt (mk_date 2024 3 1 0 30 0) (Some 3600%Z)) = Some (mk_date 2024 2 29 23 30 0) /\
  dt_to_http true (mk_pydt (mk_date 1 1 1 0 0 0) (Some 7200%Z)) = SOverflow /\
  dt_to_http true (mk_pydt (mk_date 999 12 31 23 0 0) (Some (-3600)%Z)) = SText (lit "Wed, 01 Jan 1000 00:00:00 GMT") /\
  dt_to_http true (mk_pydt (mk_date 7 5 4 3 2 1) None) = SText (lit "Fri, 04 May 0007 03:02:01 GMT").
Proof. vm_compute. repeat split; reflexivity. Qed.

(* the valid languages of SpecRfc.v are inhabited by the RFCs' own examples *)
Example C09_rfc_examples :
  rfc_etags (lit "W/""67ab43"", ""54ed21"",""7892dd""")
    = Some [Tag true (lit "67ab43"); Tag false (lit "54ed21"); Tag false (lit "7892dd")] /\
  rfc_etags (lit "*") = Some [Star] /\
  rfc_etags (lit """a,b""") = Some [Tag false (lit "a,b")] /\
  rfc_etags (lit """a"" ") = None /\
  rfc_cookie_string (lit "SID=31d4d96e407aad42; lang=""en-US""; SID=2")
    = Some [(lit "SID", Raw (lit "31d4d96e407aad42")); (lit "lang", Unq (lit """en-US""")); (lit "SID", Raw (lit "2"))] /\
  rfc_cookie_string (lit "a=1;b=2") = None /\
  rfc_forwarded (lit "For=""[2001:db8:cafe::17]:4711"";proto=HTTPS, for=192.0.2.43;by=_hidden;host=""a\""b""")
    = Some [{| f_src := Some (lit "[2001:db8:cafe::17]:4711"); f_dest := None; f_host := None;
               f_scheme := Some (lit "https") |};
            {| f_src := Some (lit "192.0.2.43"); f_dest := Some (lit "_hidden");
               f_host := Some (lit "a""b"); f_scheme := None |}] /\
  rfc_forwarded (lit "for=a;for=b") = None /\
  rfc_node (lit "[2001:db8:cafe::17]:_obf") = Some (lit "2001:db8:cafe::17") /\
  rfc_access_route false (Some (lit "for=""[::1]:_p"", for=unknown;by=x, proto=http")) None None (lit "10.0.0.9")
    = Some [lit "::1"; lit "unknown"; lit "10.0.0.9"] /\
  rfc_access_route false None (Some (lit "1.1.1.1 ,2.2.2.2")) (Some (lit "9.9.9.9")) (lit "2.2.2.2")
    = Some [lit "1.1.1.1"; lit "2.2.2.2"] /\
  rfc_forwarded_scheme (Some (lit "for=x;proto=HTTPS, proto=ws")) (Some (lit "ftp")) (lit "http") = Some (lit "https") /\
  rfc_forwarded_host (Some (lit "for=x")) (Some (lit "ignored")) (lit "h:81") = Some (lit "h:81").
Proof. vm_compute. repeat split; reflexivity. Qed.
