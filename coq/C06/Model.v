(* C06 — the two encodings of one HTTP request (PEP 3333 environ vs ASGI scope) and the request
   views falcon.Request / falcon.asgi.Request compute from them (falcon/request.py:__init__,
   get_header; falcon/asgi/request.py:__init__, get_header).  The typed accessors on top of the
   header values are C09's model (imported). *)
From Coq Require Import ZArith NArith List Bool String.
From Falcon.lib Require Import PyStr.
From Falcon.gen Require Import ConstsC06.
From Falcon.C09 Require Import Model.
Import ListNotations.
Open Scope N_scope.

Definition is_ascii (s : str) : bool := forallb (fun c => c <? 128) s.
Definition slash : N := 47.

(* options.strip_url_path_trailing_slash and len(path) != 1 and path.endswith('/') *)
Definition strip_slash (strip : bool) (p : str) : str :=
  if strip && negb (Nat.eqb (List.length p) 1) && (last p 0 =? slash) && nonempty p
  then removelast p else p.

(* WSGI: PATH_INFO is the percent-decoded path, its bytes tunnelled as latin-1 (code points =
   byte values).  [dec] = bytes.decode('utf-8', 'replace') of those bytes (oracle). *)
Definition wsgi_path (strip : bool) (path_bytes : str) (dec : str) : str :=
  let p := match path_bytes with [] => [slash] | _ => path_bytes end in
  let p := if is_ascii p then p else dec in
  strip_slash strip p.

(* ASGI: scope['path'] is already decoded by the server with utf-8/replace *)
Definition asgi_path (strip : bool) (dec : str) : str :=
  let p := match dec with [] => [slash] | _ => dec end in
  strip_slash strip p.

(* ---- header stores *)
Definition store := list (str * str).

Fixpoint lookup (d : store) (k : str) : option str :=
  match d with
  | [] => None
  | (k', v) :: tl => if str_eqb k k' then Some v else lookup tl k
  end.
Fixpoint setk (d : store) (k v : str) : store :=
  match d with
  | [] => [(k, v)]
  | (k', v') :: tl => if str_eqb k k' then (k', v) :: tl else (k', v') :: setk tl k v
  end.

Definition s_http : str := Eval vm_compute in lit "HTTP_".

(* the environ key a PEP 3333 server builds for a header field *)
Definition env_key (name : str) : str :=
  let m := mangle name in if mem m wsgi_content_headers then m else s_http ++ m.

(* PEP 3333 server: duplicates joined with a comma *)
Definition env_add (d : store) (h : str * str) : store :=
  let k := env_key (fst h) in
  match lookup d k with
  | Some old => setk d k (old ++ [comma] ++ snd h)
  | None => setk d k (snd h)
  end.
Definition env_of (hs : list (str * str)) : store := fold_left env_add hs [].

(* falcon.asgi.Request.__init__ over scope['headers'] (names lower-cased by the server) *)
Definition scope_add (d : store) (h : str * str) : store :=
  let k := lower (fst h) in
  match lookup d k with
  | None => setk d k (snd h)
  | Some old => if mem k singleton_headers then setk d k (snd h)
                else setk d k (old ++ [comma] ++ snd h)
  end.
Definition scope_of (hs : list (str * str)) : store := fold_left scope_add hs [].

(* Request.get_header *)
Definition wsgi_get (env : store) (name : str) : option str :=
  let m := mangle name in
  match lookup env (s_http ++ m) with
  | Some v => Some v
  | None => if mem m wsgi_content_headers then lookup env m else None
  end.
Definition asgi_get (hdrs : store) (name : str) : option str := lookup hdrs (lower name).

(* query string: WSGI reads the server's latin-1 str, ASGI does bytes.decode() = strict UTF-8.
   None = UnicodeDecodeError; non-ASCII valid UTF-8 is out of the model (returns the oracle). *)
Definition wsgi_query (q : str) : option str := Some q.
Definition asgi_query (q : str) (utf8_strict : option str) : option str :=
  if is_ascii q then Some q else utf8_strict.

(* ---- access_route / remote_addr: the two classes carry their own copy of the computation
   (falcon/request.py:Request.access_route, remote_addr; falcon/asgi/request.py likewise).
   Header arguments are Some v iff the header is present; [peer] = REMOTE_ADDR resp. the host of
   scope['client'] (None = key missing). *)
Definition s_localhost : str := Eval vm_compute in lit "127.0.0.1".

Definition wsgi_header_route (fixed : bool) (fwd xff xreal : option str) : res (list str) :=
  match fwd with
  | Some h => route_of_hops fixed (parse_forwarded h)      (* for hop in self.forwarded or () *)
  | None =>
    match xff with
    | Some v => Ok (map strip_ws (split_chr comma v))
    | None => match xreal with Some v => Ok [v] | None => Ok [] end
    end
  end.

Definition wsgi_remote_addr (peer : option str) : str :=
  match peer with Some v => v | None => s_localhost end.

Definition wsgi_access_route (fixed : bool) (fwd xff xreal peer : option str) : res (list str) :=
  match wsgi_header_route fixed fwd xff xreal with
  | Ok (x :: r) =>
    if negb (str_eqb (last (x :: r) []) (wsgi_remote_addr peer))
    then Ok ((x :: r) ++ [wsgi_remote_addr peer]) else Ok (x :: r)
  | Ok [] => Ok [wsgi_remote_addr peer]
  | Http400 => Http400
  | Crash k => Crash k
  end.

Definition asgi_header_route (fixed : bool) (fwd xff xreal : option str) : res (list str) :=
  match fwd with
  | Some h => route_of_hops fixed (parse_forwarded h)
  | None =>
    match xff with
    | Some v => Ok (map strip_ws (split_chr comma v))
    | None => match xreal with Some v => Ok [v] | None => Ok [] end
    end
  end.

Definition asgi_access_route (fixed : bool) (fwd xff xreal peer : option str) : res (list str) :=
  let client := match peer with Some c => c | None => s_localhost end in
  match asgi_header_route fixed fwd xff xreal with
  | Ok (x :: r) =>
    if negb (str_eqb (last (x :: r) []) client) then Ok ((x :: r) ++ [client]) else Ok (x :: r)
  | Ok [] => Ok (if nonempty client then [client] else [])
  | Http400 => Http400
  | Crash k => Crash k
  end.

(* asgi remote_addr: route = self.access_route; return route[-1] *)
Definition asgi_remote_addr (fixed : bool) (fwd xff xreal peer : option str) : res str :=
  match asgi_access_route fixed fwd xff xreal peer with
  | Ok r => match rev r with x :: _ => Ok x | [] => Crash CIndexError end
  | Http400 => Http400
  | Crash k => Crash k
  end.

(* ---- response body selection: Response.render_body (used by falcon.App) and the copy inlined
   in falcon.asgi.App.__call__ for the stock response class.  [text] = Some (utf-8 bytes of
   resp.text) iff resp.text is not None; [media] = Some (handler.serialize(resp.media)) iff
   resp.media is not None (serialization: oracle). *)
Definition wsgi_render_body (text data media : option str) : option str :=
  match text with
  | None => match data with
            | None => match media with Some rendered => Some rendered | None => None end
            | Some d => Some d
            end
  | Some t => Some t
  end.

Definition asgi_inline_render_body (text data media : option str) : option str :=
  match text with
  | None => match data with
            | None => match media with Some rendered => Some rendered | None => None end
            | Some d => Some d
            end
  | Some t => Some t
  end.

(* what is sent: (body bytes, Content-Length) *)
Definition sent (body : option str) : str * nat :=
  match body with Some b => (b, List.length b) | None => ([], O) end.

(* ---- request target: a server splits the request-target at the FIRST "?" (RFC 9112 3.2:
   origin-form = absolute-path [ "?" query ]); falcon.testing._prepare_sim_args does
   path.split('?', 1) when the path carries the query inline *)
Definition qmark : N := 63.
Definition target_split (target : str) : str * str :=
  let '(p, _, q) := partition_chr qmark target in (p, q).
Definition sim_split (path : str) (query_string : option str) : option (str * str) :=
  if char_in qmark path then
    match query_string with
    | Some (_ :: _) => None                      (* ValueError: two ways of giving the query *)
    | _ => match split_chr qmark path with
           | p :: rest => Some (p, join_chr qmark rest)      (* path.split('?', 1) *)
           | [] => None
           end
    end
  else Some (path, match query_string with Some q => q | None => [] end).
