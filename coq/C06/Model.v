(* C06 — the two encodings of one HTTP request (PEP 3333 environ vs ASGI scope) and the request
   views falcon.Request / falcon.asgi.Request compute from them (falcon/request.py:__init__,
   get_header; falcon/asgi/request.py:__init__, get_header).  The typed accessors on top of the
   header values are C09's model (imported). *)
From Coq Require Import ZArith NArith List Bool String.
From Falcon.lib Require Import PyStr.
From Falcon.gen Require Import ConstsC06.
From Falcon.C09 Require Import Model.
Import ListNotations.
Open Scope N_scope.

Definition is_ascii (s : str) : bool := forallb (fun c => c <? 128) s.
Definition slash : N := 47.

(* options.strip_url_path_trailing_slash and len(path) != 1 and path.endswith('/') *)
Definition strip_slash (strip : bool) (p : str) : str :=
  if strip && negb (Nat.eqb (List.length p) 1) && (last p 0 =? slash) && nonempty p
  then removelast p else p.

(* WSGI: PATH_INFO is the percent-decoded path, its bytes tunnelled as latin-1 (code points =
   byte values).  [dec] = bytes.decode('utf-8', 'replace') of those bytes (oracle). *)
Definition wsgi_path (strip : bool) (path_bytes : str) (dec : str) : str :=
  let p := match path_bytes with [] => [slash] | _ => path_bytes end in
  let p := if is_ascii p then p else dec in
  strip_slash strip p.

(* ASGI: scope['path'] is already decoded by the server with utf-8/replace *)
Definition asgi_path (strip : bool) (dec : str) : str :=
  let p := match dec with [] => [slash] | _ => dec end in
  strip_slash strip p.

(* ---- header stores *)
Definition store := list (str * str).

Fixpoint lookup (d : store) (k : str) : option str :=
  match d with
  | [] => None
  | (k', v) :: tl => if str_eqb k k' then Some v else lookup tl k
  end.
Fixpoint setk (d : store) (k v : str) : store :=
  match d with
  | [] => [(k, v)]
  | (k', v') :: tl => if str_eqb k k' then (k', v) :: tl else (k', v') :: setk tl k v
  end.

Definition s_http : str := Eval vm_compute in lit "HTTP_".

(* the environ key a PEP 3333 server builds for a header field *)
Definition env_key (name : str) : str :=
  let m := mangle name in if mem m wsgi_content_headers then m else s_http ++ m.

(* PEP 3333 server: duplicates joined with a comma *)
Definition env_add (d : store) (h : str * str) : store :=
  let k := env_key (fst h) in
  match lookup d k with
  | Some old => setk d k (old ++ [comma] ++ snd h)
  | None => setk d k (snd h)
  end.
Definition env_of (hs : list (str * str)) : store := fold_left env_add hs [].

(* falcon.asgi.Request.__init__ over scope['headers'] (names lower-cased by the server) *)
Definition scope_add (d : store) (h : str * str) : store :=
  let k := lower (fst h) in
  match lookup d k with
  | None => setk d k (snd h)
  | Some old => if mem k singleton_headers then setk d k (snd h)
                else setk d k (old ++ [comma] ++ snd h)
  end.
Definition scope_of (hs : list (str * str)) : store := fold_left scope_add hs [].

(* Request.get_header *)
Definition wsgi_get (env : store) (name : str) : option str :=
  let m := mangle name in
  match lookup env (s_http ++ m) with
  | Some v => Some v
  | None => if mem m wsgi_content_headers then lookup env m else None
  end.
Definition asgi_get (hdrs : store) (name : str) : option str := lookup hdrs (lower name).

(* query string: WSGI reads the server's latin-1 str, ASGI does bytes.decode() = strict UTF-8.
   None = UnicodeDecodeError; non-ASCII valid UTF-8 is out of the model (returns the oracle). *)
Definition wsgi_query (q : str) : option str := Some q.
Definition asgi_query (q : str) (utf8_strict : option str) : option str :=
  if is_ascii q then Some q else utf8_strict.
