From Coq Require Import ZArith NArith List Bool String.
From Coq Require Import ExtrOcamlBasic.
From Falcon.lib Require Import Wire PyStr.
From Falcon.C09 Require Import Model.
From Falcon.C06 Require Import Model Spec.
Import ListNotations.
Open Scope Z_scope.

Definition v_route (r : res (list (list N))) : val :=
  match r with Ok l => L [I 0; vlist vstr l] | Http400 => L [I 1] | Crash _ => L [I 2] end.

Definition d_hdr (v : val) : list N * list N := (dstr (nth_val 0 v), dstr (nth_val 1 v)).

(* 0: [path bytes; utf-8/replace decoding (oracle); query; headers; strip; names] ->
      [wsgi path; asgi path; headers valid && lookups agree; wsgi lookups; asgi lookups] *)
Definition run (v : val) : val :=
  match v with
  | L [I 0; pb; dec; q; hs; strip; names] =>
    let hs := dlist d_hdr hs in
    let names := dlist dstr names in
    L [vstr (wsgi_path (dbool strip) (dstr pb) (dstr dec));
       vstr (asgi_path (dbool strip) (dstr dec));
       vbool (valid_headers hs && lookups_agree hs names);
       vlist (fun n => vopt vstr (wsgi_get (env_of hs) n)) names;
       vlist (fun n => vopt vstr (asgi_get (scope_of hs) n)) names]
  | L [I 1; f; fw; xff; xreal; peer] =>
    let a := dopt dstr in
    L [v_route (wsgi_access_route (dbool f) (a fw) (a xff) (a xreal) (a peer));
       v_route (asgi_access_route (dbool f) (a fw) (a xff) (a xreal) (a peer));
       match asgi_remote_addr (dbool f) (a fw) (a xff) (a xreal) (a peer) with
       | Ok x => L [I 0; vstr x] | Http400 => L [I 1] | Crash _ => L [I 2]
       end;
       vstr (wsgi_remote_addr (a peer))]
  | L [I 2; text; data; media] =>
    let a := dopt dstr in
    L [vopt vstr (wsgi_render_body (a text) (a data) (a media));
       vopt vstr (asgi_inline_render_body (a text) (a data) (a media))]
  | L [I 3; path; qs] =>
    L [vopt (vpair vstr vstr) (sim_split (dstr path) (dopt dstr qs));
       vpair vstr vstr (target_split (dstr path))]
  | _ => L [I (-1)]
  end.

Extraction "C06/model.ml" run.
