From Coq Require Import ZArith NArith List Bool String.
From Coq Require Import ExtrOcamlBasic.
From Falcon.lib Require Import Wire PyStr.
From Falcon.C09 Require Import Model.
From Falcon.C06 Require Import Model Spec.
Import ListNotations.
Open Scope Z_scope.

Definition d_hdr (v : val) : list N * list N := (dstr (nth_val 0 v), dstr (nth_val 1 v)).

(* 0: [path bytes; utf-8/replace decoding (oracle); query; headers; strip; names] ->
      [wsgi path; asgi path; headers valid && lookups agree; wsgi lookups; asgi lookups] *)
Definition run (v : val) : val :=
  match v with
  | L [I 0; pb; dec; q; hs; strip; names] =>
    let hs := dlist d_hdr hs in
    let names := dlist dstr names in
    L [vstr (wsgi_path (dbool strip) (dstr pb) (dstr dec));
       vstr (asgi_path (dbool strip) (dstr dec));
       vbool (valid_headers hs && lookups_agree hs names);
       vlist (fun n => vopt vstr (wsgi_get (env_of hs) n)) names;
       vlist (fun n => vopt vstr (asgi_get (scope_of hs) n)) names]
  | _ => L [I (-1)]
  end.

Extraction "C06/model.ml" run.
