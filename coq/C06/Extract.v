From Coq Require Import ZArith NArith List Bool String.
From Coq Require Import ExtrOcamlBasic.
From Falcon.lib Require Import Wire PyStr.
From Falcon.C09 Require Import Model.
Require Falcon.C10.Model Falcon.C08.Model.
From Falcon.C06 Require Import Model Spec View.
Import ListNotations.
Open Scope Z_scope.

Definition v_route (r : res (list (list N))) : val :=
  match r with Ok l => L [I 0; vlist vstr l] | Http400 => L [I 1] | Crash _ => L [I 2] end.

Definition v_res {A} (f : A -> val) (r : res A) : val :=
  match r with Ok a => L [I 0; f a] | Http400 => L [I 1] | Crash _ => L [I 2] end.

Definition v_pval (p : Falcon.C08.Model.pval) : val :=
  match p with
  | Falcon.C08.Model.VStr s => L [I 0; vstr s]
  | Falcon.C08.Model.VList l => L [I 1; vlist vstr l]
  end.

Definition w_params (r : Falcon.C10.Model.res Falcon.C08.Model.params) : val :=
  match r with
  | Falcon.C10.Model.Ok p => L [I 0; vlist (fun kv => L [vstr (fst kv); v_pval (snd kv)]) p]
  | Falcon.C10.Model.Crash _ => L [I 2]
  end.

Definition v_etag (e : etag) : val :=
  match e with Star => L [I 0] | Tag w v => L [I 1; vbool w; vstr v] end.
Definition v_cval (c : cval) : val :=
  match c with Raw s => L [I 0; vstr s] | Unq s => L [I 1; vstr s] end.

Definition v_view (v : view) : val :=
  L [vstr (v_method v); vstr (v_path v); vopt vstr (v_query_string v); vopt w_params (v_params v);
     vopt vstr (v_content_type v); v_res (vopt I) (v_content_length v); vstr (v_scheme v);
     v_res vstr (v_host v); v_res (vopt I) (v_port v); vstr (v_netloc v);
     v_res (vopt vstr) (v_subdomain v); vstr (v_root_path v); vstr (v_relative_uri v);
     vstr (v_uri v); vstr (v_prefix v); vstr (v_forwarded_scheme v); vstr (v_forwarded_host v);
     vstr (v_forwarded_uri v); vstr (v_forwarded_prefix v);
     v_res (vlist vstr) (v_access_route v); v_res vstr (v_remote_addr v);
     vlist (fun p => L [vstr (fst p); v_cval (snd p)]) (v_cookies v);
     v_res (vopt (fun p => L [I (fst p); I (snd p)])) (v_range v); v_res (vopt vstr) (v_range_unit v);
     vopt (vlist v_etag) (v_if_match v); vopt (vlist v_etag) (v_if_none_match v);
     vstr (v_accept v); vopt vstr (v_user_agent v); vopt vstr (v_referer v); vopt vstr (v_expect v);
     vopt vstr (v_if_range v); vopt vstr (v_auth v)].

Definition d_areq (v : val) : areq :=
  {| a_method := dstr (nth_val 0 v); a_path := dstr (nth_val 1 v); a_path_dec := dstr (nth_val 2 v);
     a_query := dstr (nth_val 3 v); a_query_dec := dopt dstr (nth_val 4 v);
     a_headers := dlist (fun p => (dstr (nth_val 0 p), dstr (nth_val 1 p))) (nth_val 5 v);
     a_scheme := dstr (nth_val 6 v); a_server_name := dstr (nth_val 7 v); a_port := dZ (nth_val 8 v);
     a_port_text := dstr (nth_val 9 v); a_root_path := dstr (nth_val 10 v); a_peer := dstr (nth_val 11 v) |}.

Definition d_hdr (v : val) : list N * list N := (dstr (nth_val 0 v), dstr (nth_val 1 v)).

(* 0: [path bytes; utf-8/replace decoding (oracle); query; headers; strip; names] ->
      [wsgi path; asgi path; headers valid && lookups agree; wsgi lookups; asgi lookups] *)
Definition run (v : val) : val :=
  match v with
  | L [I 0; pb; dec; q; hs; strip; names] =>
    let hs := dlist d_hdr hs in
    let names := dlist dstr names in
    L [vstr (wsgi_path (dbool strip) (dstr pb) (dstr dec));
       vstr (asgi_path (dbool strip) (dstr dec));
       vbool (valid_headers hs && lookups_agree hs names);
       vlist (fun n => vopt vstr (wsgi_get (env_of hs) n)) names;
       vlist (fun n => vopt vstr (asgi_get (scope_of hs) n)) names]
  | L [I 1; f; fw; xff; xreal; peer] =>
    let a := dopt dstr in
    L [v_route (wsgi_access_route (dbool f) (a fw) (a xff) (a xreal) (a peer));
       v_route (asgi_access_route (dbool f) (a fw) (a xff) (a xreal) (a peer));
       match asgi_remote_addr (dbool f) (a fw) (a xff) (a xreal) (a peer) with
       | Ok x => L [I 0; vstr x] | Http400 => L [I 1] | Crash _ => L [I 2]
       end;
       vstr (wsgi_remote_addr (a peer))]
  | L [I 2; text; data; media] =>
    let a := dopt dstr in
    L [vopt vstr (wsgi_render_body (a text) (a data) (a media));
       vopt vstr (asgi_inline_render_body (a text) (a data) (a media))]
  | L [I 3; path; qs] =>
    L [vopt (vpair vstr vstr) (sim_split (dstr path) (dopt dstr qs));
       vpair vstr vstr (target_split (dstr path))]
  | L [I 4; r; strip; kb; csv] =>
    let r := d_areq r in
    let o := {| o_strip := dbool strip; o_keep_blank := dbool kb; o_csv := dbool csv |} in
    L [v_view (wsgi_view true o (env_of_req r)); v_view (asgi_view true o (scope_of_req r));
       vbool (valid_headers (a_headers r))]
  | _ => L [I (-1)]
  end.

Extraction "C06/model.ml" run.
