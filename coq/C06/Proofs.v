(* C06 — the two views agree: path (given the decoder's ASCII contract), header-name keys,
   Content-Length and query string on ASCII values; counter-examples outside HTTP-valid input. *)
From Coq Require Import ZArith NArith List Bool String Lia ZifyBool ZifyN.
From Falcon.lib Require Import PyStr.
From Falcon.gen Require Import ConstsC09.
From Falcon.C09 Require Import Model.
From Falcon.C06 Require Import Model Spec.
Import ListNotations.
Open Scope N_scope.
Local Arguments str_eqb : simpl never.

(* ---- path: PEP 3333 latin-1 tunnelling followed by falcon's re-decoding = the ASGI server's
   decoding, for ANY decoder [dec] that maps ASCII bytes to themselves *)
Theorem path_agree strip (bs dec : str) :
  (is_ascii bs = true -> dec = bs) -> (bs <> [] -> dec <> []) ->
  wsgi_path strip bs dec = asgi_path strip dec.
Proof.
  intros C NE. unfold wsgi_path, asgi_path. destruct bs as [|b tl].
  - rewrite (C eq_refl). reflexivity.
  - destruct (is_ascii (b :: tl)) eqn:A.
    + rewrite (C eq_refl). reflexivity.
    + destruct dec as [|d dl]; [|reflexivity]. exfalso. apply NE; [discriminate|reflexivity].
Qed.

(* ---- header names: the CGI-style key identifies the field name up to case, provided the name
   has no underscore *)
Lemma key_chr c1 c2 :
  (c1 =? underscore) = false -> (c2 =? underscore) = false ->
  (if upper_chr c1 =? dash then underscore else upper_chr c1) =
  (if upper_chr c2 =? dash then underscore else upper_chr c2) ->
  lower_chr c1 = lower_chr c2.
Proof.
  unfold upper_chr, lower_chr, underscore, dash.
  destruct ((97 <=? c1) && (c1 <=? 122)) eqn:A1; destruct ((97 <=? c2) && (c2 <=? 122)) eqn:A2;
    destruct ((65 <=? c1) && (c1 <=? 90)) eqn:B1; destruct ((65 <=? c2) && (c2 <=? 90)) eqn:B2;
    intros U1 U2;
    repeat match goal with |- context [if ?b then _ else _] => destruct b eqn:? end; lia.
Qed.

Theorem mangle_injective n1 n2 :
  uf n1 = true -> uf n2 = true -> mangle n1 = mangle n2 -> lower n1 = lower n2.
Proof.
  unfold uf, mangle, replace_chr, upper, lower. revert n2.
  induction n1 as [|c1 t1 IH]; intros [|c2 t2] U1 U2 H; cbn [map] in *; try discriminate; [reflexivity|].
  injection H as Hc Ht.
  unfold char_in in U1, U2. cbn [existsb] in U1, U2.
  apply negb_true_iff in U1, U2. apply orb_false_iff in U1 as [U1 V1]. apply orb_false_iff in U2 as [U2 V2].
  f_equal.
  - apply key_chr; [rewrite N.eqb_sym; exact U1 | rewrite N.eqb_sym; exact U2 | exact Hc].
  - apply IH; [apply negb_true_iff; exact V1 | apply negb_true_iff; exact V2 | exact Ht].
Qed.

(* without that proviso the WSGI view conflates two distinct fields *)
Theorem mangle_injective_refuted_with_underscore :
  exists n1 n2, mangle n1 = mangle n2 /\ lower n1 <> lower n2.
Proof. exists (lit "X-A"), (lit "X_A"). split; [reflexivity | vm_compute; discriminate]. Qed.

(* conversely, names equal up to case always share their key (C09) *)
Theorem same_name_same_key n1 n2 : lower n1 = lower n2 -> env_key n1 = env_key n2.
Proof.
  intro H. unfold env_key.
  assert (E : mangle n1 = mangle n2).
  { unfold mangle. f_equal. unfold upper, lower in *.
    assert (U : forall s, map upper_chr (map lower_chr s) = map upper_chr s).
    { intro s. rewrite map_map. apply map_ext. intro c. unfold upper_chr, lower_chr.
      destruct ((65 <=? c) && (c <=? 90)) eqn:E1; [|reflexivity].
      replace ((97 <=? c + 32) && (c + 32 <=? 122)) with true by lia.
      replace ((97 <=? c) && (c <=? 122)) with false by lia. lia. }
    rewrite <- (U n1), <- (U n2), H. reflexivity. }
  rewrite E. reflexivity.
Qed.

(* ---- Content-Length: int(str) (WSGI) and int(bytes) (ASGI) agree on ASCII values *)
Lemma lstrip_ascii_agree s : is_ascii s = true ->
  lstrip_set int_ws_str s = lstrip_set int_ws_bytes s.
Proof.
  induction s as [|c tl IH]; intro A; [reflexivity|].
  unfold is_ascii in A. cbn [forallb] in A. apply andb_true_iff in A as [Ac At].
  cbn [lstrip_set].
  assert (E : char_in c int_ws_str = char_in c int_ws_bytes).
  { unfold char_in, int_ws_str, int_ws_bytes. cbn [existsb].
    replace (c =? 133) with false by lia. replace (c =? 160) with false by lia.
    rewrite !orb_false_r. reflexivity. }
  rewrite E. destruct (char_in c int_ws_bytes); [apply IH; exact At | reflexivity].
Qed.

Lemma is_ascii_rev s : is_ascii (rev s) = is_ascii s.
Proof.
  unfold is_ascii. induction s as [|c tl IH]; [reflexivity|].
  cbn [rev forallb]. rewrite forallb_app, IH. cbn [forallb]. rewrite andb_true_r. apply andb_comm.
Qed.

Lemma lstrip_ascii ws s : is_ascii s = true -> is_ascii (lstrip_set ws s) = true.
Proof.
  induction s as [|c tl IH]; intro A; [reflexivity|]. cbn [lstrip_set].
  destruct (char_in c ws); [|exact A]. apply IH.
  unfold is_ascii in *. cbn [forallb] in A. apply andb_true_iff in A as [_ A]. exact A.
Qed.

Lemma strip_ascii_agree s : is_ascii s = true ->
  strip_set int_ws_str s = strip_set int_ws_bytes s.
Proof.
  intro A. unfold strip_set, rstrip_set. rewrite (lstrip_ascii_agree s A).
  rewrite lstrip_ascii_agree; [reflexivity|]. rewrite is_ascii_rev. apply lstrip_ascii. exact A.
Qed.

Theorem content_length_views_agree v :
  is_ascii v = true -> content_length_wsgi (Some v) = content_length_asgi (Some v).
Proof.
  intro A. unfold content_length_wsgi, content_length_asgi, py_int, py_int_bytes, py_int_ws.
  rewrite (strip_ascii_agree v A).
  destruct v as [|c tl]; [reflexivity|]. cbn [nonempty negb].
  destruct (strip_set int_ws_bytes (c :: tl)) as [|x r]; [reflexivity|].
  destruct (x =? 45); [destruct (option_map Z.opp (int_body r)); reflexivity|].
  destruct (x =? 43); [destruct (int_body r); reflexivity|].
  destruct (int_body (x :: r)); reflexivity.
Qed.

(* outside HTTP-valid input the twins differ: U+00A0 is whitespace for int(str) only *)
Theorem content_length_views_agree_refuted_non_ascii :
  exists v, content_length_wsgi (Some v) <> content_length_asgi (Some v).
Proof. exists [160; 53]. vm_compute. discriminate. Qed.

(* ---- query string *)
Theorem query_views_agree q u : is_ascii q = true -> wsgi_query q = asgi_query q u.
Proof. intro A. unfold wsgi_query, asgi_query. rewrite A. reflexivity. Qed.

(* raw non-ASCII bytes: ASGI raises (strict UTF-8) where WSGI reads latin-1 *)
Theorem query_views_agree_refuted_non_ascii :
  exists q, wsgi_query q <> asgi_query q None.
Proof. exists [113; 61; 255]. vm_compute. discriminate. Qed.
