(* C06 — property theorems only.  The property is partial by nature: what is proved is the
   agreement of the two request views for the modelled part (path, header-name keys,
   Content-Length, query string) on HTTP-valid requests; "falcon.testing = spec-faithful driver"
   and the response side are differential only. *)
From Coq Require Import ZArith NArith List Bool String.
From Falcon.lib Require Import PyStr.
From Falcon.C09 Require Import Model.
From Falcon.C06 Require Import Model Spec Proofs.
Import ListNotations.

(* Full statement (DESIGN.md): forall r, valid_areq r -> wsgi_view (env_of r) = asgi_view (scope_of r).
   Proved components: *)

(* path: for every decoder that is the identity on ASCII and maps non-empty input to non-empty
   output (CPython's utf-8/replace decoder: oracle), with and without trailing-slash stripping *)
Theorem C06_path_views_agree : forall strip (bs dec : str),
  (is_ascii bs = true -> dec = bs) -> (bs <> [] -> dec <> []) ->
  wsgi_path strip bs dec = asgi_path strip dec.
Proof. exact path_agree. Qed.
Print Assumptions C06_path_views_agree.

(* header names: same field (up to case) <=> same environ key, for names without underscore *)
Theorem C06_header_key_injective : forall n1 n2,
  uf n1 = true -> uf n2 = true -> mangle n1 = mangle n2 -> lower n1 = lower n2.
Proof. exact mangle_injective. Qed.
Print Assumptions C06_header_key_injective.

Theorem C06_same_name_same_key : forall n1 n2, lower n1 = lower n2 -> env_key n1 = env_key n2.
Proof. exact same_name_same_key. Qed.
Print Assumptions C06_same_name_same_key.

Theorem C06_header_key_injective_refuted_with_underscore :
  exists n1 n2, mangle n1 = mangle n2 /\ lower n1 <> lower n2.
Proof. exact mangle_injective_refuted_with_underscore. Qed.
Print Assumptions C06_header_key_injective_refuted_with_underscore.

(* The header-store agreement
     forall hs names, valid_headers hs = true -> forallb uf names = true -> lookups_agree hs names = true
   is NOT proved in Coq: it is evaluated by the extracted model on every generated request
   (a counter-example would be reported as model-views-disagree). *)

(* Content-Length and query string: the twins agree on ASCII values ... *)
Theorem C06_content_length_views_agree_partial : forall v,
  is_ascii v = true -> content_length_wsgi (Some v) = content_length_asgi (Some v).
Proof. exact content_length_views_agree. Qed.
Print Assumptions C06_content_length_views_agree_partial.

Theorem C06_query_views_agree_partial : forall q u,
  is_ascii q = true -> wsgi_query q = asgi_query q u.
Proof. exact query_views_agree. Qed.
Print Assumptions C06_query_views_agree_partial.

(* ... and differ outside HTTP-valid input (observed asymmetries, by design of the two specs) *)
Theorem C06_content_length_views_agree_refuted_non_ascii :
  exists v, content_length_wsgi (Some v) <> content_length_asgi (Some v).
Proof. exact content_length_views_agree_refuted_non_ascii. Qed.
Print Assumptions C06_content_length_views_agree_refuted_non_ascii.

Theorem C06_query_views_agree_refuted_non_ascii :
  exists q, wsgi_query q <> asgi_query q None.
Proof. exact query_views_agree_refuted_non_ascii. Qed.
Print Assumptions C06_query_views_agree_refuted_non_ascii.

Example C06_views_nontrivial :
  let hs := [(lit "X-Custom", lit "a"); (lit "x-custom", lit "b"); (lit "Host", lit "h:81");
             (lit "Content-Length", lit "5")] in
  valid_headers hs = true /\
  wsgi_get (env_of hs) (lit "X-CUSTOM") = Some (lit "a,b") /\
  asgi_get (scope_of hs) (lit "X-CUSTOM") = Some (lit "a,b") /\
  wsgi_get (env_of hs) (lit "content-length") = Some (lit "5") /\
  wsgi_path true [47; 195; 169; 47] [47; 233; 47] = [47; 233] /\
  asgi_path true [47; 233; 47] = [47; 233].
Proof. vm_compute. repeat split; reflexivity. Qed.
