(* C06 — property theorems only.  The property is partial by nature: what is proved is the
   agreement of the two request views for the modelled part (path, header-name keys,
   Content-Length, query string) on HTTP-valid requests; "falcon.testing = spec-faithful driver"
   and the response side are differential only. *)
From Coq Require Import ZArith NArith List Bool String.
From Falcon.lib Require Import PyStr.
From Falcon.C09 Require Import Model.
From Falcon.C06 Require Import Model Spec Proofs View ProofsView.
Import ListNotations.


(* ---- THE RECORD THEOREM.  For every HTTP-valid abstract request and all request options, the
   view falcon.Request computes from the PEP 3333 encoding equals the view falcon.asgi.Request
   computes from the ASGI encoding: method, path, query_string, params, content_type,
   content_length, scheme, host, port, netloc, subdomain, root_path, relative_uri, uri, prefix,
   forwarded_scheme/host/uri/prefix, access_route, remote_addr, cookies, range, range_unit,
   if_match, if_none_match, accept, user_agent, referer, expect, if_range, auth.
   valid_areq: header names without underscore, no duplicated singleton header, ASCII query string
   and Content-Length value, scheme http/https, a non-empty peer address, and the contracts of the
   three stdlib oracles (utf-8/replace decoding of the path, str(port)/int(text)). *)
Theorem C06_views_agree : forall r o,
  valid_areq r -> wsgi_view true o (env_of_req r) = asgi_view true o (scope_of_req r).
Proof. exact views_agree. Qed.
Print Assumptions C06_views_agree.

(* Request.get_header agrees for EVERY field name in every casing (the view record holds the named
   accessors only) *)
Theorem C06_headers_agree : forall hs n,
  valid_headers hs = true -> uf n = true ->
  wsgi_get (env_of hs) n = asgi_get (scope_of hs) n.
Proof. exact headers_agree. Qed.
Print Assumptions C06_headers_agree.

Theorem C06_store_keys_agree : forall hs n,
  valid_headers hs = true -> uf n = true ->
  lookup (env_of hs) (env_key n) = lookup (scope_of hs) (lower n).
Proof. exact store_keys_agree. Qed.
Print Assumptions C06_store_keys_agree.

Theorem C06_env_key_injective : forall n1 n2,
  uf n1 = true -> uf n2 = true -> env_key n1 = env_key n2 -> lower n1 = lower n2.
Proof. exact env_key_injective. Qed.
Print Assumptions C06_env_key_injective.

Theorem C06_lookups_agree_sound : forall hs names,
  valid_headers hs = true -> forallb uf names = true -> lookups_agree hs names = true.
Proof. exact lookups_agree_sound. Qed.
Print Assumptions C06_lookups_agree_sound.

(* per-field theorems for the accessors the two classes implement separately *)
Theorem C06_port_field : forall r,
  valid_areq r -> wsgi_port true (env_of_req r) = asgi_port true (scope_of_req r).
Proof. exact port_field. Qed.
Print Assumptions C06_port_field.

Theorem C06_netloc_field : forall r,
  valid_areq r -> wsgi_netloc (env_of_req r) = asgi_netloc (scope_of_req r).
Proof. exact netloc_field. Qed.
Print Assumptions C06_netloc_field.

Theorem C06_content_length_field : forall r,
  valid_areq r ->
  content_length_wsgi (wk (env_of_req r) n_content_length) =
  content_length_asgi (ak (scope_of_req r) n_content_length).
Proof. exact content_length_field. Qed.
Print Assumptions C06_content_length_field.

Theorem C06_remote_addr_field : forall fwd xff xreal peer,
  peer <> [] ->
  asgi_remote_addr true fwd xff xreal (Some peer) = Ok (wsgi_remote_addr (Some peer)).
Proof. exact remote_addr_field. Qed.
Print Assumptions C06_remote_addr_field.

Theorem C06_literal_keys :
  env_key n_host = lit "HTTP_HOST" /\ env_key n_content_type = lit "CONTENT_TYPE" /\
  env_key n_content_length = lit "CONTENT_LENGTH" /\ env_key n_forwarded = lit "HTTP_FORWARDED" /\
  env_key n_xff = lit "HTTP_X_FORWARDED_FOR" /\ env_key n_xreal = lit "HTTP_X_REAL_IP" /\
  env_key n_xproto = lit "HTTP_X_FORWARDED_PROTO" /\ env_key n_xhost = lit "HTTP_X_FORWARDED_HOST" /\
  env_key n_if_match = lit "HTTP_IF_MATCH" /\ env_key n_if_none_match = lit "HTTP_IF_NONE_MATCH" /\
  env_key n_accept = lit "HTTP_ACCEPT" /\ env_key n_user_agent = lit "HTTP_USER_AGENT" /\
  env_key n_referer = lit "HTTP_REFERER" /\ env_key n_expect = lit "HTTP_EXPECT" /\
  env_key n_if_range = lit "HTTP_IF_RANGE" /\ env_key n_auth = lit "HTTP_AUTHORIZATION".
Proof. exact literal_keys. Qed.
Print Assumptions C06_literal_keys.

(* outside valid_areq: a duplicated singleton header is comma-joined by the PEP 3333 server but
   last-wins in the ASGI class *)
Theorem C06_headers_agree_refuted_duplicated_singleton :
  exists hs n, forallb (fun h => uf (fst h)) hs = true /\ uf n = true /\
               wsgi_get (env_of hs) n <> asgi_get (scope_of hs) n.
Proof.
  exists [(lit "Host", lit "a"); (lit "host", lit "b")], (lit "Host").
  split; [reflexivity|]. split; [reflexivity|]. vm_compute. discriminate.
Qed.
Print Assumptions C06_headers_agree_refuted_duplicated_singleton.

(* path: for every decoder that is the identity on ASCII and maps non-empty input to non-empty
   output (CPython's utf-8/replace decoder: oracle), with and without trailing-slash stripping *)
Theorem C06_path_views_agree : forall strip (bs dec : str),
  (is_ascii bs = true -> dec = bs) -> (bs <> [] -> dec <> []) ->
  wsgi_path strip bs dec = asgi_path strip dec.
Proof. exact path_agree. Qed.
Print Assumptions C06_path_views_agree.

(* header names: same field (up to case) <=> same environ key, for names without underscore *)
Theorem C06_header_key_injective : forall n1 n2,
  uf n1 = true -> uf n2 = true -> mangle n1 = mangle n2 -> lower n1 = lower n2.
Proof. exact mangle_injective. Qed.
Print Assumptions C06_header_key_injective.

Theorem C06_same_name_same_key : forall n1 n2, lower n1 = lower n2 -> env_key n1 = env_key n2.
Proof. exact same_name_same_key. Qed.
Print Assumptions C06_same_name_same_key.

Theorem C06_header_key_injective_refuted_with_underscore :
  exists n1 n2, mangle n1 = mangle n2 /\ lower n1 <> lower n2.
Proof. exact mangle_injective_refuted_with_underscore. Qed.
Print Assumptions C06_header_key_injective_refuted_with_underscore.


(* access_route / remote_addr: the two classes' computations agree for EVERY combination of
   Forwarded / X-Forwarded-For / X-Real-IP and peer address (non-empty peer): the peer is appended
   unless it already is the LAST hop, so it always ends the route and remote_addr is the peer *)
Theorem C06_access_route_views_agree : forall f fwd xff xreal peer,
  peer <> Some [] ->
  wsgi_access_route f fwd xff xreal peer = asgi_access_route f fwd xff xreal peer.
Proof. exact access_route_views_agree. Qed.
Print Assumptions C06_access_route_views_agree.

Theorem C06_access_route_ends_with_peer : forall f fwd xff xreal peer r,
  peer <> Some [] ->
  asgi_access_route f fwd xff xreal peer = Ok r -> last r [] = wsgi_remote_addr peer.
Proof. exact access_route_ends_with_peer. Qed.
Print Assumptions C06_access_route_ends_with_peer.

Theorem C06_remote_addr_views_agree : forall f fwd xff xreal peer,
  peer <> Some [] ->
  match asgi_remote_addr f fwd xff xreal peer with
  | Ok a => a = wsgi_remote_addr peer
  | Http400 => asgi_access_route f fwd xff xreal peer = Http400
  | Crash k => asgi_access_route f fwd xff xreal peer = Crash k
  end.
Proof. exact remote_addr_views_agree. Qed.
Print Assumptions C06_remote_addr_views_agree.

Theorem C06_peer_inside_chain_is_still_appended :
  wsgi_access_route true None (Some (lit "10.0.0.1, 10.0.0.2")) None (Some (lit "10.0.0.1"))
  = Ok [lit "10.0.0.1"; lit "10.0.0.2"; lit "10.0.0.1"].
Proof. exact peer_inside_chain_is_still_appended. Qed.
Print Assumptions C06_peer_inside_chain_is_still_appended.

(* response body: Response.render_body (WSGI app) and the copy inlined in asgi.App.__call__ pick
   the same source for every subset of text / data / media, empty values included *)
Theorem C06_render_body_views_agree : forall text data media,
  wsgi_render_body text data media = asgi_inline_render_body text data media.
Proof. exact render_body_views_agree. Qed.
Print Assumptions C06_render_body_views_agree.

Theorem C06_empty_text_takes_precedence : forall data media,
  asgi_inline_render_body (Some []) data media = Some [] /\
  asgi_inline_render_body None (Some []) media = Some [].
Proof. exact empty_text_takes_precedence. Qed.
Print Assumptions C06_empty_text_takes_precedence.

(* request target: falcon.testing splits an inline query at the FIRST question mark, like a server *)
Theorem C06_sim_split_is_target_split : forall path,
  char_in qmark path = true -> sim_split path None = Some (target_split path).
Proof. exact sim_split_is_target_split. Qed.
Print Assumptions C06_sim_split_is_target_split.

Theorem C06_sim_split_separate : forall path q,
  char_in qmark path = false ->
  sim_split path (Some q) = Some (target_split (path ++ qmark :: q)).
Proof. exact sim_split_separate. Qed.
Print Assumptions C06_sim_split_separate.

(* Content-Length and query string: the twins agree on ASCII values ... *)
Theorem C06_content_length_views_agree_partial : forall v,
  is_ascii v = true -> content_length_wsgi (Some v) = content_length_asgi (Some v).
Proof. exact content_length_views_agree. Qed.
Print Assumptions C06_content_length_views_agree_partial.

Theorem C06_query_views_agree_partial : forall q u,
  is_ascii q = true -> wsgi_query q = asgi_query q u.
Proof. exact query_views_agree. Qed.
Print Assumptions C06_query_views_agree_partial.

(* ... and differ outside HTTP-valid input (observed asymmetries, by design of the two specs) *)
Theorem C06_content_length_views_agree_refuted_non_ascii :
  exists v, content_length_wsgi (Some v) <> content_length_asgi (Some v).
Proof. exact content_length_views_agree_refuted_non_ascii. Qed.
Print Assumptions C06_content_length_views_agree_refuted_non_ascii.

Theorem C06_query_views_agree_refuted_non_ascii :
  exists q, wsgi_query q <> asgi_query q None.
Proof. exact query_views_agree_refuted_non_ascii. Qed.
Print Assumptions C06_query_views_agree_refuted_non_ascii.

Example C06_views_nontrivial :
  let hs := [(lit "X-Custom", lit "a"); (lit "x-custom", lit "b"); (lit "Host", lit "h:81");
             (lit "Content-Length", lit "5")] in
  valid_headers hs = true /\
  wsgi_get (env_of hs) (lit "X-CUSTOM") = Some (lit "a,b") /\
  asgi_get (scope_of hs) (lit "X-CUSTOM") = Some (lit "a,b") /\
  wsgi_get (env_of hs) (lit "content-length") = Some (lit "5") /\
  wsgi_path true [47; 195; 169; 47] [47; 233; 47] = [47; 233] /\
  asgi_path true [47; 233; 47] = [47; 233].
Proof. vm_compute. repeat split; reflexivity. Qed.

(* the hypotheses of the record theorem are satisfiable by a non-trivial request *)
Definition example_req : areq :=
  {| a_method := lit "POST"; a_path := [47; 195; 169; 47]; a_path_dec := [47; 233; 47];
     a_query := lit "a=1&b=%20"; a_query_dec := Some (lit "a=1&b=%20");
     a_headers := [(lit "X-Forwarded-For", lit "10.0.0.1, 10.0.0.2"); (lit "x-custom", lit "a");
                   (lit "X-Custom", lit "b"); (lit "Content-Length", lit "5");
                   (lit "Cookie", lit "a=1; b=2"); (lit "If-Match", lit "W/""x"", ""y""")];
     a_scheme := lit "https"; a_server_name := lit "srv"; a_port := 8443%Z; a_port_text := lit "8443";
     a_root_path := lit "/app"; a_peer := lit "10.0.0.1" |}.

Example C06_valid_areq_satisfiable :
  valid_areq example_req /\
  let v := asgi_view true {| o_strip := true; o_keep_blank := true; o_csv := false |} (scope_of_req example_req) in
  v_path v = [47; 233] /\ v_netloc v = lit "srv:8443" /\ v_content_length v = Ok (Some 5%Z) /\
  v_access_route v = Ok [lit "10.0.0.1"; lit "10.0.0.2"; lit "10.0.0.1"] /\
  v_uri v = lit "https://srv:8443/app" ++ [47; 233] ++ lit "?a=1&b=%20".
Proof.
  split.
  - constructor.
    + reflexivity.
    + split; reflexivity.
    + intros v H. vm_compute in H. injection H as <-. reflexivity.
    + right. reflexivity.
    + discriminate.
    + split; [intro H; discriminate H | intros _; discriminate].
    + repeat split; reflexivity.
  - vm_compute. repeat split; reflexivity.
Qed.
