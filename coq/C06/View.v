(* C06 — the request views: one abstract HTTP request, its two encodings (PEP 3333 environ, ASGI
   scope) and the record of accessor values falcon.Request computes from the first and
   falcon.asgi.Request from the second.  Where the two classes share a helper (or inherit the
   accessor) the same C09 / C08 model function appears on both sides, fed with the raw header
   value each class looks up; where they carry their own code (header stores and lookup, path,
   query string, content_length, port default, netloc, access_route) each side has its own
   definition (Model.v). *)
From Coq Require Import ZArith NArith List Bool String.
From Falcon.lib Require Import PyStr.
From Falcon.gen Require Import ConstsC06.
Require Falcon.C10.Model Falcon.C08.Model.
Require Falcon.C09.Spec.
From Falcon.C09 Require Import Model.
From Falcon.C06 Require Import Model Spec.
Import ListNotations.
Open Scope N_scope.

(* ---- the abstract request.  Oracles carried as data: [a_path_dec] = bytes.decode('utf-8',
   'replace') of the percent-decoded path, [a_query_dec] = bytes.decode() (strict) of the query
   (None = UnicodeDecodeError), [a_port_text] = str(port). *)
Record areq := {
  a_method : str; a_path : str; a_path_dec : str; a_query : str; a_query_dec : option str;
  a_headers : list (str * str); a_scheme : str; a_server_name : str; a_port : Z;
  a_port_text : str; a_root_path : str; a_peer : str }.

Record wenv := {
  we_method : str; we_path_info : str; we_path_dec : str; we_query : str; we_store : store;
  we_scheme : str; we_server_name : str; we_server_port : str; we_script_name : str;
  we_remote_addr : option str }.

Record ascope := {
  sc_method : str; sc_path : str; sc_query : str; sc_query_dec : option str; sc_store : store;
  sc_scheme : str; sc_server : str * Z; sc_port_text : str; sc_root_path : str;
  sc_client : option str }.

(* what a PEP 3333 server hands over *)
Definition env_of_req (r : areq) : wenv :=
  {| we_method := a_method r; we_path_info := a_path r; we_path_dec := a_path_dec r;
     we_query := a_query r; we_store := env_of (a_headers r); we_scheme := a_scheme r;
     we_server_name := a_server_name r; we_server_port := a_port_text r;
     we_script_name := a_root_path r; we_remote_addr := Some (a_peer r) |}.

(* what an ASGI server hands over *)
Definition scope_of_req (r : areq) : ascope :=
  {| sc_method := a_method r; sc_path := a_path_dec r; sc_query := a_query r;
     sc_query_dec := a_query_dec r; sc_store := scope_of (a_headers r); sc_scheme := a_scheme r;
     sc_server := (a_server_name r, a_port r); sc_port_text := a_port_text r;
     sc_root_path := a_root_path r; sc_client := Some (a_peer r) |}.

(* request options *)
Record ropts := { o_strip : bool; o_keep_blank : bool; o_csv : bool }.

Record view := {
  v_method : str; v_path : str; v_query_string : option str;
  v_params : option (Falcon.C10.Model.res Falcon.C08.Model.params);
  v_content_type : option str; v_content_length : res (option Z);
  v_scheme : str; v_host : res str; v_port : res (option Z); v_netloc : str;
  v_subdomain : res (option str); v_root_path : str;
  v_relative_uri : str; v_uri : str; v_prefix : str;
  v_forwarded_scheme : str; v_forwarded_host : str; v_forwarded_uri : str; v_forwarded_prefix : str;
  v_access_route : res (list str); v_remote_addr : res str;
  v_cookies : list (str * cval); v_range : res (option (Z * Z)); v_range_unit : res (option str);
  v_if_match : option (list etag); v_if_none_match : option (list etag);
  v_accept : str; v_user_agent : option str; v_referer : option str; v_expect : option str;
  v_if_range : option str; v_auth : option str }.

Definition s_http_scheme : str := Eval vm_compute in lit "http".
Definition s_https : str := Eval vm_compute in lit "https".
Definition s_wss : str := Eval vm_compute in lit "wss".
Definition s_80 : str := Eval vm_compute in lit "80".
Definition s_443 : str := Eval vm_compute in lit "443".
Definition any_type : str := Eval vm_compute in lit "*/*".

(* `value or None` *)
Definition or_none (v : option str) : option str :=
  match v with Some (c :: s) => Some (c :: s) | _ => None end.
(* `value or '*/*'` *)
Definition or_any (v : option str) : str :=
  match v with Some (c :: s) => c :: s | _ => any_type end.

Definition url_env (scheme netloc root path : str) (query : option str) (fs fh : str) : env :=
  {| e_scheme := scheme; e_netloc := netloc; e_root_path := root; e_path := path;
     e_query := match query with Some q => q | None => [] end;
     e_fwd_scheme := fs; e_fwd_host := fh |}.

Definition params_of (o : ropts) (query : option str) :=
  option_map (fun q => Falcon.C08.Model.req_params q (o_keep_blank o) (o_csv o)) query.

(* header field names as the classes spell them *)
Definition n_content_type : str := Eval vm_compute in lit "Content-Type".
Definition n_content_length : str := Eval vm_compute in lit "Content-Length".
Definition n_host : str := Eval vm_compute in lit "Host".
Definition n_forwarded : str := Eval vm_compute in lit "Forwarded".
Definition n_xff : str := Eval vm_compute in lit "X-Forwarded-For".
Definition n_xreal : str := Eval vm_compute in lit "X-Real-IP".
Definition n_xproto : str := Eval vm_compute in lit "X-Forwarded-Proto".
Definition n_xhost : str := Eval vm_compute in lit "X-Forwarded-Host".
Definition n_cookie : str := Eval vm_compute in lit "Cookie".
Definition n_range : str := Eval vm_compute in lit "Range".
Definition n_if_match : str := Eval vm_compute in lit "If-Match".
Definition n_if_none_match : str := Eval vm_compute in lit "If-None-Match".
Definition n_accept : str := Eval vm_compute in lit "Accept".
Definition n_user_agent : str := Eval vm_compute in lit "User-Agent".
Definition n_referer : str := Eval vm_compute in lit "Referer".
Definition n_expect : str := Eval vm_compute in lit "Expect".
Definition n_if_range : str := Eval vm_compute in lit "If-Range".
Definition n_auth : str := Eval vm_compute in lit "Authorization".

(* ---- falcon.Request over the environ.  env['HTTP_X'] / env['CONTENT_TYPE'] reads are lookups
   of the literal key, which is [env_key] of the field name (literal_keys below). *)
Definition wk (e : wenv) (name : str) : option str := lookup (we_store e) (env_key name).

Definition wsgi_netloc (e : wenv) : str :=
  match wk e n_host with
  | Some h => h
  | None =>
    if str_eqb (we_scheme e) s_https
    then (if negb (str_eqb (we_server_port e) s_443) then we_server_name e ++ [colon] ++ we_server_port e
          else we_server_name e)
    else (if negb (str_eqb (we_server_port e) s_80) then we_server_name e ++ [colon] ++ we_server_port e
          else we_server_name e)
  end.

Definition wsgi_port (fixed : bool) (e : wenv) : res (option Z) :=
  match wk e n_host with
  | Some h =>
    match parse_host fixed h (Some (if str_eqb (we_scheme e) s_http_scheme then 80 else 443)%Z) with
    | Ok (_, p) => Ok p
    | Http400 => Http400
    | Crash k => Crash k
    end
  | None => match py_int (we_server_port e) with
            | Some p => Ok (Some p)
            | None => Crash CValueError
            end
  end.

Definition wsgi_view (fixed : bool) (o : ropts) (e : wenv) : view :=
  let path := wsgi_path (o_strip o) (we_path_info e) (we_path_dec e) in
  let query := wsgi_query (we_query e) in
  let netloc := wsgi_netloc e in
  let fwd := wsgi_get (we_store e) n_forwarded in
  let fs := forwarded_scheme fwd (wk e n_xproto) (we_scheme e) in
  let fh := forwarded_host fwd (wk e n_xhost) netloc in
  let ue := url_env (we_scheme e) netloc (we_script_name e) path query fs fh in
  {| v_method := we_method e; v_path := path; v_query_string := query;
     v_params := params_of o query;
     v_content_type := wk e n_content_type;
     v_content_length := content_length_wsgi (wk e n_content_length);
     v_scheme := we_scheme e;
     v_host := host_acc fixed (wk e n_host) (we_server_name e);
     v_port := wsgi_port fixed e;
     v_netloc := netloc;
     v_subdomain := subdomain_acc fixed (wk e n_host) (we_server_name e);
     v_root_path := we_script_name e;
     v_relative_uri := Falcon.C09.Spec.fresh ue A_relative_uri;
     v_uri := Falcon.C09.Spec.fresh ue A_uri;
     v_prefix := Falcon.C09.Spec.fresh ue A_prefix;
     v_forwarded_scheme := fs; v_forwarded_host := fh;
     v_forwarded_uri := Falcon.C09.Spec.fresh ue A_forwarded_uri;
     v_forwarded_prefix := Falcon.C09.Spec.fresh ue A_forwarded_prefix;
     v_access_route := wsgi_access_route fixed (wk e n_forwarded) (wk e n_xff) (wk e n_xreal)
                                         (we_remote_addr e);
     v_remote_addr := Ok (wsgi_remote_addr (we_remote_addr e));
     v_cookies := cookies_acc fixed (wsgi_get (we_store e) n_cookie);
     v_range := range (wsgi_get (we_store e) n_range);
     v_range_unit := range_unit (wsgi_get (we_store e) n_range);
     v_if_match := if_match_acc (wk e n_if_match);
     v_if_none_match := if_match_acc (wk e n_if_none_match);
     v_accept := or_any (wk e n_accept);
     v_user_agent := or_none (wk e n_user_agent); v_referer := or_none (wk e n_referer);
     v_expect := or_none (wk e n_expect); v_if_range := or_none (wk e n_if_range);
     v_auth := or_none (wk e n_auth) |}.

(* ---- falcon.asgi.Request over the scope *)
Definition ak (s : ascope) (name : str) : option str := lookup (sc_store s) (lower name).

Definition asgi_secure (s : ascope) : bool := str_eqb (sc_scheme s) s_https || str_eqb (sc_scheme s) s_wss.

Definition asgi_netloc (s : ascope) : str :=
  match ak s n_host with
  | Some h => h
  | None =>
    let '(name, port) := sc_server s in
    if asgi_secure s
    then (if negb (Z.eqb port 443) then name ++ [colon] ++ sc_port_text s else name)
    else (if negb (Z.eqb port 80) then name ++ [colon] ++ sc_port_text s else name)
  end.

Definition asgi_port (fixed : bool) (s : ascope) : res (option Z) :=
  match ak s n_host with
  | Some h =>
    match parse_host fixed h (Some (if asgi_secure s then 443 else 80)%Z) with
    | Ok (_, p) => Ok p
    | Http400 => Http400
    | Crash k => Crash k
    end
  | None => Ok (Some (snd (sc_server s)))
  end.

Definition asgi_view (fixed : bool) (o : ropts) (s : ascope) : view :=
  let path := asgi_path (o_strip o) (sc_path s) in
  let query := asgi_query (sc_query s) (sc_query_dec s) in
  let netloc := asgi_netloc s in
  let fwd := asgi_get (sc_store s) n_forwarded in
  let fs := forwarded_scheme fwd (ak s n_xproto) (sc_scheme s) in
  let fh := forwarded_host fwd (ak s n_xhost) netloc in
  let ue := url_env (sc_scheme s) netloc (sc_root_path s) path query fs fh in
  {| v_method := sc_method s; v_path := path; v_query_string := query;
     v_params := params_of o query;
     v_content_type := ak s n_content_type;
     v_content_length := content_length_asgi (ak s n_content_length);
     v_scheme := sc_scheme s;
     v_host := host_acc fixed (ak s n_host) (fst (sc_server s));
     v_port := asgi_port fixed s;
     v_netloc := netloc;
     v_subdomain := subdomain_acc fixed (ak s n_host) (fst (sc_server s));
     v_root_path := sc_root_path s;
     v_relative_uri := Falcon.C09.Spec.fresh ue A_relative_uri;
     v_uri := Falcon.C09.Spec.fresh ue A_uri;
     v_prefix := Falcon.C09.Spec.fresh ue A_prefix;
     v_forwarded_scheme := fs; v_forwarded_host := fh;
     v_forwarded_uri := Falcon.C09.Spec.fresh ue A_forwarded_uri;
     v_forwarded_prefix := Falcon.C09.Spec.fresh ue A_forwarded_prefix;
     v_access_route := asgi_access_route fixed (ak s n_forwarded) (ak s n_xff) (ak s n_xreal) (sc_client s);
     v_remote_addr := asgi_remote_addr fixed (ak s n_forwarded) (ak s n_xff) (ak s n_xreal) (sc_client s);
     v_cookies := cookies_acc fixed (asgi_get (sc_store s) n_cookie);
     v_range := range (asgi_get (sc_store s) n_range);
     v_range_unit := range_unit (asgi_get (sc_store s) n_range);
     v_if_match := if_match_acc (ak s n_if_match);
     v_if_none_match := if_match_acc (ak s n_if_none_match);
     v_accept := or_any (ak s n_accept);
     v_user_agent := or_none (ak s n_user_agent); v_referer := or_none (ak s n_referer);
     v_expect := or_none (ak s n_expect); v_if_range := or_none (ak s n_if_range);
     v_auth := or_none (ak s n_auth) |}.

(* ---- HTTP-valid abstract requests *)
Record valid_areq (r : areq) : Prop := {
  va_headers : valid_headers (a_headers r) = true;
  (* the query string is ASCII (RFC 3986), so the strict decoder returns it *)
  va_query : is_ascii (a_query r) = true /\ a_query_dec r = Some (a_query r);
  (* Content-Length, if any, is ASCII (RFC 9110: 1*DIGIT) *)
  va_cl : forall v, lookup (scope_of (a_headers r)) (lower n_content_length) = Some v -> is_ascii v = true;
  va_scheme : a_scheme r = s_http_scheme \/ a_scheme r = s_https;
  va_peer : a_peer r <> [];
  (* contract of the utf-8/replace decoder *)
  va_dec : (is_ascii (a_path r) = true -> a_path_dec r = a_path r) /\ (a_path r <> [] -> a_path_dec r <> []);
  (* contract of str(port) / int(text) *)
  va_port : py_int (a_port_text r) = Some (a_port r) /\
            (str_eqb (a_port_text r) s_80 = Z.eqb (a_port r) 80) /\
            (str_eqb (a_port_text r) s_443 = Z.eqb (a_port r) 443) }.
