(* C06 — HTTP-valid abstract requests, and the agreement oracle. *)
From Coq Require Import ZArith NArith List Bool String.
From Falcon.lib Require Import PyStr.
From Falcon.gen Require Import ConstsC06.
From Falcon.C09 Require Import Model.
From Falcon.C06 Require Import Model.
Import ListNotations.
Open Scope N_scope.

(* a header field name without underscore (servers drop or reject those: they collide with
   the dash in the CGI-style environ key) *)
Definition uf (n : str) : bool := negb (char_in underscore n).

Definition opt_eqb (a b : option str) : bool :=
  match a, b with Some x, Some y => str_eqb x y | None, None => true | _, _ => false end.

(* no singleton header occurs twice *)
Fixpoint no_dup_singleton (seen : list str) (hs : list (str * str)) : bool :=
  match hs with
  | [] => true
  | (n, _) :: tl =>
    let k := lower n in
    if mem k singleton_headers && mem k seen then false else no_dup_singleton (k :: seen) tl
  end.

Definition valid_headers (hs : list (str * str)) : bool :=
  forallb (fun h => uf (fst h)) hs && no_dup_singleton [] hs.

(* the oracle: both views of the header list answer the same for the given names *)
Definition lookups_agree (hs : list (str * str)) (names : list str) : bool :=
  forallb (fun n => opt_eqb (wsgi_get (env_of hs) n) (asgi_get (scope_of hs) n)) names.
