(* C06 — the two header stores answer every lookup alike, and the request views agree. *)
From Coq Require Import ZArith NArith List Bool String Lia.
From Falcon.lib Require Import PyStr.
From Falcon.gen Require Import ConstsC06.
Require Falcon.C10.Model Falcon.C08.Model Falcon.C09.Spec.
From Falcon.C09 Require Import Model.
From Falcon.C06 Require Import Model Spec Proofs View.
Import ListNotations.
Open Scope N_scope.
Local Arguments str_eqb : simpl never.

(* ------------------------------------------------------------------ the stores are maps *)
Lemma lookup_setk d k v k' :
  lookup (setk d k v) k' = if str_eqb k' k then Some v else lookup d k'.
Proof.
  induction d as [|[k0 v0] tl IH]; cbn [setk lookup].
  - destruct (str_eqb k' k); reflexivity.
  - destruct (str_eqb k k0) eqn:E; cbn [lookup].
    + apply str_eqb_eq in E. subst k0. destruct (str_eqb k' k); reflexivity.
    + destruct (str_eqb k' k0) eqn:E2.
      * apply str_eqb_eq in E2. subst k0. rewrite (str_eqb_sym k' k), E. reflexivity.
      * exact IH.
Qed.

(* ------------------------------------------------------------------ environ keys *)
Lemma content_not_http m : mem m wsgi_content_headers = true -> startswith m s_http = false.
Proof.
  intro H. apply mem_In in H.
  assert (F : forallb (fun c => negb (startswith c s_http)) wsgi_content_headers = true)
    by (vm_compute; reflexivity).
  rewrite forallb_forall in F. apply negb_true_iff. apply F. exact H.
Qed.

Lemma http_prefix_starts m : startswith (s_http ++ m) s_http = true.
Proof. apply startswith_app. exists m. reflexivity. Qed.

(* the environ key identifies the field name up to case (names without underscore) *)
Theorem env_key_injective n1 n2 :
  uf n1 = true -> uf n2 = true -> env_key n1 = env_key n2 -> lower n1 = lower n2.
Proof.
  intros U1 U2. unfold env_key.
  destruct (mem (mangle n1) wsgi_content_headers) eqn:C1;
    destruct (mem (mangle n2) wsgi_content_headers) eqn:C2; intro H.
  - apply mangle_injective; assumption.
  - exfalso. apply content_not_http in C1. rewrite H, http_prefix_starts in C1. discriminate.
  - exfalso. apply content_not_http in C2. rewrite <- H, http_prefix_starts in C2. discriminate.
  - apply app_inv_head in H. apply mangle_injective; assumption.
Qed.

Lemma key_eqb n n0 : uf n = true -> uf n0 = true ->
  str_eqb (env_key n) (env_key n0) = str_eqb (lower n) (lower n0).
Proof.
  intros U U0. destruct (str_eqb (lower n) (lower n0)) eqn:E.
  - apply str_eqb_eq in E. apply str_eqb_eq. apply same_name_same_key. exact E.
  - apply str_eqb_neq. intro H. apply str_eqb_neq in E. apply E. apply env_key_injective; assumption.
Qed.

(* ------------------------------------------------------------------ the fold invariant *)
Definition inv (dw da : store) (seen : list str) : Prop :=
  (forall k v, lookup dw k = Some v -> exists n, k = env_key n) /\
  (forall n, uf n = true -> lookup dw (env_key n) = lookup da (lower n)) /\
  (forall k v, lookup da k = Some v -> mem k seen = true).

Lemma step_inv dw da seen n0 v0 :
  inv dw da seen -> uf n0 = true ->
  mem (lower n0) singleton_headers && mem (lower n0) seen = false ->
  inv (env_add dw (n0, v0)) (scope_add da (n0, v0)) (lower n0 :: seen).
Proof.
  intros (I1 & I2 & I3) U0 V.
  assert (E : exists x, env_add dw (n0, v0) = setk dw (env_key n0) x /\
                        scope_add da (n0, v0) = setk da (lower n0) x).
  { unfold env_add, scope_add. cbn [fst snd]. rewrite (I2 n0 U0).
    destruct (lookup da (lower n0)) as [old|] eqn:L.
    - assert (S : mem (lower n0) singleton_headers = false).
      { destruct (mem (lower n0) singleton_headers) eqn:M; [|reflexivity].
        rewrite (I3 _ _ L) in V. discriminate V. }
      rewrite S. eexists. split; reflexivity.
    - eexists. split; reflexivity. }
  destruct E as [x [-> ->]]. repeat split.
  - intros k v H. rewrite lookup_setk in H. destruct (str_eqb k (env_key n0)) eqn:K.
    + apply str_eqb_eq in K. exists n0. exact K.
    + apply (I1 _ _ H).
  - intros n U. rewrite !lookup_setk, (key_eqb n n0 U U0).
    destruct (str_eqb (lower n) (lower n0)); [reflexivity | apply I2; exact U].
  - intros k v H. rewrite lookup_setk in H. unfold mem. cbn [existsb].
    destruct (str_eqb k (lower n0)); [reflexivity|]. cbn [orb]. apply (I3 _ _ H).
Qed.

Lemma fold_inv hs : forall dw da seen,
  inv dw da seen -> forallb (fun h => uf (fst h)) hs = true -> no_dup_singleton seen hs = true ->
  exists seen', inv (fold_left env_add hs dw) (fold_left scope_add hs da) seen'.
Proof.
  induction hs as [|[n0 v0] tl IH]; intros dw da seen I U N; cbn [fold_left].
  - exists seen. exact I.
  - cbn [forallb fst] in U. apply andb_true_iff in U as [U0 Ut]. cbn [no_dup_singleton] in N.
    destruct (mem (lower n0) singleton_headers && mem (lower n0) seen) eqn:V; [discriminate|].
    apply (IH _ _ (lower n0 :: seen)); [apply step_inv; assumption | exact Ut | exact N].
Qed.

Lemma stores_inv hs : valid_headers hs = true -> exists seen, inv (env_of hs) (scope_of hs) seen.
Proof.
  unfold valid_headers, env_of, scope_of. intro V. apply andb_true_iff in V as [U N].
  apply (fold_inv hs [] [] []); [|exact U|exact N].
  repeat split; intros; discriminate.
Qed.

(* a field's raw value is the same under its environ key and under its lower-case name *)
Theorem store_keys_agree hs n :
  valid_headers hs = true -> uf n = true ->
  lookup (env_of hs) (env_key n) = lookup (scope_of hs) (lower n).
Proof. intros V U. destruct (stores_inv hs V) as [seen (_ & I2 & _)]. apply I2. exact U. Qed.

(* Request.get_header on both stacks, for every field name in every casing *)
Theorem headers_agree hs n :
  valid_headers hs = true -> uf n = true ->
  wsgi_get (env_of hs) n = asgi_get (scope_of hs) n.
Proof.
  intros V U. destruct (stores_inv hs V) as [seen (I1 & I2 & _)].
  unfold wsgi_get, asgi_get. rewrite <- (I2 n U). unfold env_key.
  destruct (mem (mangle n) wsgi_content_headers) eqn:C.
  - destruct (lookup (env_of hs) (s_http ++ mangle n)) as [v|] eqn:L; [|reflexivity].
    exfalso. destruct (I1 _ _ L) as [n' K]. unfold env_key in K.
    destruct (mem (mangle n') wsgi_content_headers) eqn:C'.
    + apply content_not_http in C'. rewrite <- K, http_prefix_starts in C'. discriminate.
    + apply app_inv_head in K. rewrite K, C' in C. discriminate.
  - destruct (lookup (env_of hs) (s_http ++ mangle n)); reflexivity.
Qed.

Theorem lookups_agree_sound hs names :
  valid_headers hs = true -> forallb uf names = true -> lookups_agree hs names = true.
Proof.
  intros V U. unfold lookups_agree. apply forallb_forall. intros n Hn.
  rewrite forallb_forall in U. rewrite (headers_agree hs n V (U n Hn)).
  destruct (asgi_get (scope_of hs) n); cbn; [apply str_eqb_refl | reflexivity].
Qed.

(* the literal environ keys of falcon/request.py are the environ keys of the field names *)
Theorem literal_keys :
  env_key n_host = lit "HTTP_HOST" /\ env_key n_content_type = lit "CONTENT_TYPE" /\
  env_key n_content_length = lit "CONTENT_LENGTH" /\ env_key n_forwarded = lit "HTTP_FORWARDED" /\
  env_key n_xff = lit "HTTP_X_FORWARDED_FOR" /\ env_key n_xreal = lit "HTTP_X_REAL_IP" /\
  env_key n_xproto = lit "HTTP_X_FORWARDED_PROTO" /\ env_key n_xhost = lit "HTTP_X_FORWARDED_HOST" /\
  env_key n_if_match = lit "HTTP_IF_MATCH" /\ env_key n_if_none_match = lit "HTTP_IF_NONE_MATCH" /\
  env_key n_accept = lit "HTTP_ACCEPT" /\ env_key n_user_agent = lit "HTTP_USER_AGENT" /\
  env_key n_referer = lit "HTTP_REFERER" /\ env_key n_expect = lit "HTTP_EXPECT" /\
  env_key n_if_range = lit "HTTP_IF_RANGE" /\ env_key n_auth = lit "HTTP_AUTHORIZATION".
Proof. vm_compute. repeat split; reflexivity. Qed.

(* ------------------------------------------------------------------ scalar sources *)
Lemma parse_host_ok h d : exists r, parse_host true h d = Ok r.
Proof.
  unfold parse_host. destruct h as [|c tl]; [eexists; reflexivity|].
  assert (P : forall p, exists x, port_of true p d = Ok x)
    by (intro p; unfold port_of; destruct (py_int p); eexists; reflexivity).
  destruct (c =? lbr).
  - destruct (rfind2 rbr colon (c :: tl)) as [pos|]; [|eexists; reflexivity].
    destruct (P (skipn (pos + 2) (c :: tl))) as [x ->]. eexists. reflexivity.
  - destruct (negb (Nat.eqb (count_chr colon (c :: tl)) 1)); [eexists; reflexivity|].
    destruct (partition_chr colon (c :: tl)) as [[n f] p]. destruct (P p) as [x ->]. eexists. reflexivity.
Qed.

Lemma route_of_hops_ok l : exists r, route_of_hops true l = Ok r.
Proof.
  induction l as [|hop tl [r IH]]; cbn [route_of_hops]; [eexists; reflexivity|].
  destruct (f_src hop) as [src|]; [|exists r; exact IH].
  destruct (parse_host_ok src None) as [[h p] ->]. rewrite IH. eexists. reflexivity.
Qed.

Lemma asgi_access_route_ok fwd xff xreal peer : exists r, asgi_access_route true fwd xff xreal peer = Ok r.
Proof.
  unfold asgi_access_route, asgi_header_route. cbv zeta.
  destruct fwd as [h|].
  - destruct (route_of_hops_ok (parse_forwarded h)) as [[|x t] ->];
      [|match goal with |- context [if ?b then _ else _] => destruct b end]; eexists; reflexivity.
  - destruct xff as [v|].
    + destruct (map strip_ws (split_chr comma v)) as [|x t];
        [|match goal with |- context [if ?b then _ else _] => destruct b end]; eexists; reflexivity.
    + destruct xreal as [v|];
        [match goal with |- context [if ?b then _ else _] => destruct b end|]; eexists; reflexivity.
Qed.

Theorem remote_addr_field fwd xff xreal peer :
  peer <> [] ->
  asgi_remote_addr true fwd xff xreal (Some peer) = Ok (wsgi_remote_addr (Some peer)).
Proof.
  intro NE. assert (NP : Some peer <> Some []) by (intro H; injection H as H; contradiction).
  pose proof (remote_addr_views_agree true fwd xff xreal (Some peer) NP) as R.
  destruct (asgi_access_route_ok fwd xff xreal (Some peer)) as [r E].
  destruct (asgi_remote_addr true fwd xff xreal (Some peer)) as [a| |k]; [rewrite R; reflexivity | |];
    rewrite R in E; discriminate.
Qed.

Definition scheme_ok (s : str) : Prop := s = s_http_scheme \/ s = s_https.

Theorem port_field r :
  valid_areq r ->
  wsgi_port true (env_of_req r) = asgi_port true (scope_of_req r).
Proof.
  intros V. unfold wsgi_port, asgi_port, wk, ak, asgi_secure. cbn [we_store sc_store env_of_req scope_of_req
    we_scheme sc_scheme we_server_port sc_server snd].
  assert (U : uf n_host = true) by reflexivity.
  rewrite (store_keys_agree _ _ (va_headers r V) U).
  destruct (lookup (scope_of (a_headers r)) (lower n_host)) as [h|].
  - destruct (va_scheme r V) as [-> | ->]; reflexivity.
  - destruct (va_port r V) as [P _]. rewrite P. reflexivity.
Qed.

Theorem netloc_field r :
  valid_areq r -> wsgi_netloc (env_of_req r) = asgi_netloc (scope_of_req r).
Proof.
  intros V. unfold wsgi_netloc, asgi_netloc, wk, ak, asgi_secure. cbn [we_store sc_store env_of_req scope_of_req
    we_scheme sc_scheme we_server_port we_server_name sc_server sc_port_text].
  assert (U : uf n_host = true) by reflexivity.
  rewrite (store_keys_agree _ _ (va_headers r V) U).
  destruct (lookup (scope_of (a_headers r)) (lower n_host)) as [h|]; [reflexivity|].
  destruct (va_port r V) as (_ & P80 & P443). rewrite P80, P443.
  destruct (va_scheme r V) as [-> | ->]; reflexivity.
Qed.

Theorem content_length_field r :
  valid_areq r ->
  content_length_wsgi (wk (env_of_req r) n_content_length) =
  content_length_asgi (ak (scope_of_req r) n_content_length).
Proof.
  intro V. unfold wk, ak. cbn [we_store sc_store env_of_req scope_of_req].
  assert (U : uf n_content_length = true) by reflexivity.
  rewrite (store_keys_agree _ _ (va_headers r V) U).
  destruct (lookup (scope_of (a_headers r)) (lower n_content_length)) as [v|] eqn:L; [|reflexivity].
  apply content_length_views_agree. apply (va_cl r V). exact L.
Qed.

Theorem path_field r o :
  valid_areq r ->
  wsgi_path (o_strip o) (we_path_info (env_of_req r)) (we_path_dec (env_of_req r)) =
  asgi_path (o_strip o) (sc_path (scope_of_req r)).
Proof.
  intro V. cbn [env_of_req scope_of_req we_path_info we_path_dec sc_path].
  destruct (va_dec r V) as [D1 D2]. apply path_agree; assumption.
Qed.

Theorem query_field r :
  valid_areq r ->
  wsgi_query (we_query (env_of_req r)) =
  asgi_query (sc_query (scope_of_req r)) (sc_query_dec (scope_of_req r)).
Proof.
  intro V. cbn [env_of_req scope_of_req we_query sc_query sc_query_dec].
  destruct (va_query r V) as [A _]. apply query_views_agree. exact A.
Qed.

(* ------------------------------------------------------------------ the record *)
Theorem views_agree r o :
  valid_areq r -> wsgi_view true o (env_of_req r) = asgi_view true o (scope_of_req r).
Proof.
  intro V. pose proof (va_headers r V) as VH.
  assert (K : forall n, uf n = true -> wk (env_of_req r) n = ak (scope_of_req r) n)
    by (intros n U; unfold wk, ak; cbn [we_store sc_store env_of_req scope_of_req];
        apply store_keys_agree; assumption).
  assert (G : forall n, uf n = true ->
              wsgi_get (we_store (env_of_req r)) n = asgi_get (sc_store (scope_of_req r)) n)
    by (intros n U; cbn [we_store sc_store env_of_req scope_of_req]; apply headers_agree; assumption).
  unfold wsgi_view, asgi_view. cbv zeta.
  rewrite (path_field r o V), (query_field r V), (netloc_field r V), (port_field r V),
          (content_length_field r V).
  rewrite !K by reflexivity. rewrite !G by reflexivity.
  cbn [env_of_req scope_of_req we_method sc_method we_scheme sc_scheme we_server_name sc_server fst
       we_script_name sc_root_path we_remote_addr sc_client].
  rewrite (access_route_views_agree true _ _ _ (Some (a_peer r)))
    by (intro H; injection H as H; exact (va_peer r V H)).
  rewrite (remote_addr_field _ _ _ (a_peer r) (va_peer r V)).
  reflexivity.
Qed.
