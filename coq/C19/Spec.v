(* C19 — the reference: every concurrent lookup answers like the lookup made alone, and the
   boolean oracle the harness applies to (concurrent, serial) observations. *)
From Coq Require Import ZArith NArith List Bool.
From Falcon.lib Require Import PyStr.
From Falcon.C01 Require Import Model Spec.
From Falcon.C19 Require Import Model.
Import ListNotations.

(* a lookup result as the harness sees it: None = the lookup raised *)
Definition obs := option (option (N * params)).

Definition obs_eqb (a b : obs) : bool :=
  match a, b with
  | Some x, Some y => result_eqb x y
  | None, None => true
  | _, _ => false
  end.

Definition obs_of (o : outcome) : obs :=
  match o with Ret r => Some r | _ => None end.

(* the i-th concurrent observation equals the i-th serial one *)
Fixpoint isolation_oracle (conc ser : list obs) : bool :=
  match conc, ser with
  | [], [] => true
  | c :: ct, s :: st => obs_eqb c s && isolation_oracle ct st
  | _, _ => false
  end.

(* finished threads of a state *)
Definition result_of (st : state) (i : nat) : option outcome :=
  match s_pc st i with PDone r => Some r | _ => None end.
