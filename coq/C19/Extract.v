From Coq Require Import ZArith NArith List Bool.
From Coq Require Import ExtrOcamlBasic.
From Falcon.lib Require Import Wire PyStr.
From Falcon.gen Require Import ConstsC01.
From Falcon.C01 Require Import Model Spec Extract.
From Falcon.C19 Require Import Model Spec.
Import ListNotations.
Open Scope Z_scope.

Definition d_obs (v : val) : obs :=
  match v with
  | L [I 0; r] => Some (d_result r)
  | _ => None
  end.

Definition build_tree ci cm (adds : list val) : list node :=
  fold_left (fun roots a =>
               fst (add_route ci cm ident_strict insert_atomic roots (dstr (nth_val 0 a)) (dN (nth_val 1 a))))
            adds [].

Definition v_pc (p : pc) : val :=
  match p with
  | PDone r => L [I 1; v_outcome r]
  | PAcq => L [I 2]
  | _ => L [I 0]
  end.

(* 0: run the protocol model: [0; ctab; multi; adds; uris; use_lock; recheck; schedule]
      -> per thread (one per uri): state at the end, and the serial answer
   1: the isolation oracle on (concurrent, serial) observations *)
Definition run (v : val) : val :=
  match v with
  | L [I 0; ct; ml; L adds; L uris; ul; rc; sched] =>
    let ci := tab_cinst (d_ctab ct) in
    let cm := tab_multi (dlist dstr ml) in
    let roots := build_tree ci cm adds in
    let paths := fun i => segs_of (dstr (nth i uris (L []))) in
    let st := Model.run_sched ci cm roots paths (dbool ul) (dbool rc) (dlist dnat sched) in
    L [vbool (wf ci cm roots);
       L (map (fun i => L [v_pc (s_pc st i); v_outcome (serial ci cm roots paths i)])
              (seq 0 (length uris)))]
  | L [I 1; conc; ser] => L [vbool (isolation_oracle (dlist d_obs conc) (dlist d_obs ser))]
  | _ => L [I (-1)]
  end.

Extraction "C19/model.ml" run.
