(* C19 — proofs: the lock + re-check protocol is race-safe for every schedule and any number
   of threads; without the lock it is not; memo caches are transparent. *)
From Coq Require Import ZArith NArith List Bool Lia Arith.
From Falcon.lib Require Import PyStr.
From Falcon.gen Require Import ConstsC01.
From Falcon.C01 Require Import Model Spec ProofsRouter.
From Falcon.C19 Require Import Model Spec.
Import ListNotations.
Close Scope N_scope.
Open Scope nat_scope.

(* ---- remapping converter indices by the identity changes nothing *)
Fixpoint remap_id (m : nat -> nat) (H : forall i, m i = i) (c : cx) {struct c} : remap m c = c.
Proof.
  destruct c; simpl; try reflexivity; try rewrite H; f_equal;
    (induction body as [|a b IH]; simpl; [reflexivity | f_equal; [apply remap_id; exact H | exact IH]]).
Qed.

Lemma remap_id_list m l : (forall i, m i = i) -> map (remap m) l = l.
Proof. intro H. induction l as [|c l IH]; simpl; [reflexivity|]. rewrite remap_id, IH; auto. Qed.

Lemma cmap_seq k i : cmap_fun (seq 0 k) i = i.
Proof.
  unfold cmap_fun. destruct (Nat.lt_ge_cases i k) as [H|H].
  - rewrite seq_nth; auto.
  - apply nth_overflow. rewrite seq_length. exact H.
Qed.

(* ---- what the appends of a (prefix of a) compilation have produced *)
Definition rvs_of (l : list ev) : list N :=
  flat_map (fun e => match e with AppRv r => [r] | _ => [] end) l.
Definition pats_of (l : list ev) : list (list piece) :=
  flat_map (fun e => match e with AppPat p => [p] | _ => [] end) l.
Definition convs_of (l : list ev) : list convspec :=
  flat_map (fun e => match e with AppConv c => [c] | _ => [] end) l.

Lemma flat_map_map_nil {A B C} (g : A -> B) (h : B -> list C) l :
  (forall a, h (g a) = []) -> flat_map h (map g l) = [].
Proof. intro H. induction l; simpl; [reflexivity|]. rewrite H. assumption. Qed.
Lemma flat_map_map_single {A B} (g : A -> B) (h : B -> list A) l :
  (forall a, h (g a) = [a]) -> flat_map h (map g l) = l.
Proof. intro H. induction l; simpl; [reflexivity|]. rewrite H. simpl. f_equal. assumption. Qed.

Section Safe.
Variable cinst : str -> option str -> cres.
Variable cmulti : str -> bool.
Variable roots : list node.
Variable paths : nat -> list str.
Hypothesis Hwf : wf cinst cmulti roots = true.

Notation T0 := (T0 cinst cmulti roots).
Notation ast0 := (ast0 cinst cmulti roots).
Notation script := (script cinst cmulti roots).
Notation step := (step cinst cmulti roots paths true true).
Notation serial := (serial cinst cmulti roots paths).

Lemma script_rvs : rvs_of script = t_rvs T0.
Proof.
  unfold rvs_of, Model.script. rewrite !flat_map_app.
  rewrite flat_map_map_single, !flat_map_map_nil, !app_nil_r; auto.
Qed.
Lemma script_pats : pats_of script = t_pats T0.
Proof.
  unfold pats_of, Model.script. rewrite !flat_map_app.
  rewrite flat_map_map_single, !flat_map_map_nil, app_nil_r; auto.
Qed.
Lemma script_convs : convs_of script = t_convs T0.
Proof.
  unfold convs_of, Model.script. rewrite !flat_map_app.
  rewrite flat_map_map_single, !flat_map_map_nil; auto.
Qed.

(* the compiler has performed the appends [done], [todo] remain *)
Definition prog (c : heapcell) (todo : list ev) (cmap : list nat) : Prop :=
  exists done, script = done ++ todo /\ h_rv c = rvs_of done /\ h_pat c = pats_of done /\
               h_conv c = convs_of done /\ cmap = seq 0 (length (convs_of done)).

(* the tables the slot's finder needs are in place *)
Definition final (st : state) (v : list nat) : Prop :=
  v = seq 0 (length (t_convs T0)) /\
  exists u, s_rv st = ROwn u /\ s_pat st = ROwn u /\ s_conv st = ROwn u /\
            h_rv (s_heap st u) = t_rvs T0 /\ h_pat (s_heap st u) = t_pats T0 /\
            h_conv (s_heap st u) = t_convs T0.

Definition GI (st : state) : Prop :=
  match s_slot st with Delayed => True | Compiled v => final st v end.

Definition TI (st : state) (j : nat) (p : pc) : Prop :=
  match p with
  | P1 (Compiled v) => s_slot st = Compiled v
  | P2 (Compiled v) rv => s_slot st = Compiled v /\ rv = s_rv st
  | P3 (Compiled v) rv pat => s_slot st = Compiled v /\ rv = s_rv st /\ pat = s_pat st
  | PCall (Compiled v) rv pat cv =>
    s_slot st = Compiled v /\ rv = s_rv st /\ pat = s_pat st /\ cv = s_conv st
  | PChk | PRel => s_lock st = Some j
  | PC1 => s_lock st = Some j /\ s_slot st = Delayed
  | PC2 => s_lock st = Some j /\ s_slot st = Delayed /\ s_rv st = ROwn j /\ h_rv (s_heap st j) = []
  | PC3 => s_lock st = Some j /\ s_slot st = Delayed /\ s_rv st = ROwn j /\ s_pat st = ROwn j /\
           h_rv (s_heap st j) = [] /\ h_pat (s_heap st j) = []
  | PGen todo cmap =>
    s_lock st = Some j /\ s_slot st = Delayed /\ s_rv st = ROwn j /\ s_pat st = ROwn j /\
    s_conv st = ROwn j /\ prog (s_heap st j) todo cmap
  | PDone r => r = serial j
  | _ => True
  end.

Definition Inv (st : state) : Prop := GI st /\ forall j, TI st j (s_pc st j).

Lemma inv0 : Inv state0.
Proof. split; [exact I | intro j; exact I]. Qed.

(* a compiled finder called with the final tables answers like the serial lookup *)
Lemma call_final st v rv pat cv path :
  final st v -> rv = s_rv st -> pat = s_pat st -> cv = s_conv st ->
  call cinst cmulti roots st v rv pat cv path = Ret (dfs_level cinst cmulti roots path []).
Proof.
  intros (-> & u & Hr & Hp & Hc & H1 & H2 & H3) -> -> ->. unfold call.
  rewrite Hr, Hp, Hc. simpl deref. rewrite H1, H2, H3.
  rewrite remap_id_list by (apply cmap_seq).
  replace {| t_rvs := t_rvs T0; t_pats := t_pats T0; t_convs := t_convs T0; t_ok := t_ok T0 |} with T0
    by (destruct T0; reflexivity).
  replace (ast0, T0) with (compile cinst cmulti roots)
    by (unfold Model.ast0, Model.T0; destruct (compile cinst cmulti roots); reflexivity).
  apply (run_finder_spec cinst cmulti roots path Hwf). apply compiles_ok_wf. exact Hwf.
Qed.

Lemma fupd_same {A} (f : nat -> A) k v : fupd f k v k = v.
Proof. unfold fupd. rewrite Nat.eqb_refl. reflexivity. Qed.
Lemma fupd_other {A} (f : nat -> A) k v j : j <> k -> fupd f k v j = f j.
Proof. intro H. unfold fupd. destruct (Nat.eqb_spec j k); [contradiction | reflexivity]. Qed.

(* threads other than the one that moves: their clause survives when the shared fields they
   mention are unchanged *)
Lemma TI_frame st st' j p :
  s_slot st' = s_slot st -> s_rv st' = s_rv st -> s_pat st' = s_pat st -> s_conv st' = s_conv st ->
  s_lock st' = s_lock st -> s_heap st' j = s_heap st j -> TI st j p -> TI st' j p.
Proof.
  intros H1 H2 H3 H4 H5 H6. unfold TI. rewrite H1, H2, H3, H4, H5, H6. auto.
Qed.

Lemma GI_frame st st' :
  s_slot st' = s_slot st -> s_rv st' = s_rv st -> s_pat st' = s_pat st -> s_conv st' = s_conv st ->
  (forall u, s_heap st' u = s_heap st u) -> GI st -> GI st'.
Proof.
  intros H1 H2 H3 H4 H5. unfold GI, final. rewrite H1, H2, H3, H4.
  destruct (s_slot st); [auto|]. intros (A & u & B). split; [exact A|]. exists u. rewrite H5. exact B.
Qed.

(* a step that only moves thread i's program counter *)
Lemma inv_set_pc st i p : Inv st -> TI st i p -> Inv (set_pc st i p).
Proof.
  intros [HG HT] Hp. split.
  - eapply GI_frame; eauto; reflexivity.
  - intro j. simpl. destruct (Nat.eq_dec j i) as [->|Hne].
    + rewrite fupd_same. eapply TI_frame; eauto; reflexivity.
    + rewrite fupd_other by exact Hne. eapply TI_frame; [..|apply HT]; reflexivity.
Qed.

(* the allocator of params dicts is invisible to the protocol invariant *)
Definition with_dict (st : state) (d : nat -> option nat) (n : nat) : state :=
  {| s_slot := s_slot st; s_rv := s_rv st; s_pat := s_pat st; s_conv := s_conv st;
     s_lock := s_lock st; s_pc := s_pc st; s_heap := s_heap st; s_dict := d; s_next := n |}.

Lemma inv_with_dict st d n : Inv st -> Inv (with_dict st d n).
Proof.
  intros [HG HT]. split.
  - eapply GI_frame; eauto; reflexivity.
  - intro j. eapply TI_frame; [..|apply HT]; reflexivity.
Qed.

(* another thread cannot be in the critical section / read a compiled slot while i compiles *)
Lemma other_excluded st i j :
  j <> i -> s_lock st = Some i -> s_slot st = Delayed -> TI st j (s_pc st j) ->
  forall st', s_lock st' = Some i -> TI st' j (s_pc st j) \/ True.
Proof. auto. Qed.

Lemma TI_other_compiling st st' i j :
  j <> i -> s_lock st = Some i -> s_slot st = Delayed ->
  TI st j (s_pc st j) -> TI st' j (s_pc st j).
Proof.
  intros Hne HL HS H. destruct (s_pc st j) as [|f|f rv|f rv pat|f rv pat cv| | | | | |todo cmap| |r];
    simpl in *; auto; try (destruct f; auto);
    try (rewrite HS in H; first [discriminate | destruct H; discriminate]);
    try (rewrite HL in H; first [injection H; intros; subst; contradiction
                                 | destruct H as [H _]; injection H; intros; subst; contradiction]).
Qed.

Lemma step_inv st i : Inv st -> Inv (step st i).
Proof.
  intros [HG HT]. pose proof (HT i) as Hi. unfold Model.step.
  destruct (s_pc st i) as [|f|f rv|f rv pat|f rv pat cv| | | | | |todo cmap| |r] eqn:Hpc.
  - (* P0 *)
    assert (H1 : Inv (set_pc st i (P1 (s_slot st)))).
    { apply inv_set_pc; [split; assumption|]. unfold GI in HG. simpl.
      destruct (s_slot st); [exact I | reflexivity]. }
    destruct (s_dict st i); [exact H1|].
    exact (inv_with_dict _ (fupd (s_dict st) i (Some (s_next st))) (S (s_next st)) H1).
  - (* P1 *) apply inv_set_pc; [split; assumption|]. simpl in *. destruct f; auto.
  - (* P2 *) apply inv_set_pc; [split; assumption|]. simpl in *. destruct f; [auto | tauto].
  - (* P3 *) apply inv_set_pc; [split; assumption|]. simpl in *. destruct f; [auto | tauto].
  - (* PCall *) destruct f as [|v].
    + apply inv_set_pc; [split; assumption | exact I].
    + apply inv_set_pc; [split; assumption|]. simpl in *. destruct Hi as (Hs & -> & -> & ->).
      unfold GI in HG. rewrite Hs in HG. unfold Model.serial. apply call_final; auto.
  - (* PAcq *) destruct (s_lock st) as [k|] eqn:HL; [split; assumption|].
    split; [eapply GI_frame; eauto; reflexivity|].
    intro j. simpl. destruct (Nat.eq_dec j i) as [->|Hne].
    + rewrite fupd_same. reflexivity.
    + rewrite fupd_other by exact Hne. specialize (HT j).
      destruct (s_pc st j) as [|f|f rv|f rv pat|f rv pat cv| | | | | |todo cmap| |r]; simpl in *; auto;
        try (rewrite HL in HT; first [discriminate | destruct HT; discriminate]).
  - (* PChk *) simpl in Hi. destruct (s_slot st) eqn:HS.
    + apply inv_set_pc; [split; assumption|]. simpl. auto.
    + apply inv_set_pc; [split; assumption|]. simpl. exact Hi.
  - (* PC1 *) simpl in Hi. destruct Hi as [HL HS]. split.
    + unfold GI. simpl. rewrite HS. exact I.
    + intro j. simpl. destruct (Nat.eq_dec j i) as [->|Hne].
      * repeat (first [rewrite fupd_same | progress simpl]). repeat split; auto.
      * rewrite fupd_other by exact Hne. eapply TI_other_compiling; eauto.
  - (* PC2 *) simpl in Hi. destruct Hi as (HL & HS & H1 & H2). split.
    + unfold GI. simpl. rewrite HS. exact I.
    + intro j. simpl. destruct (Nat.eq_dec j i) as [->|Hne].
      * repeat (first [rewrite fupd_same | progress simpl]). repeat split; auto.
      * rewrite fupd_other by exact Hne. eapply TI_other_compiling; eauto.
  - (* PC3 *) simpl in Hi. destruct Hi as (HL & HS & H1 & H2 & H3 & H4). split.
    + unfold GI. simpl. rewrite HS. exact I.
    + intro j. simpl. destruct (Nat.eq_dec j i) as [->|Hne].
      * repeat (first [rewrite fupd_same | progress simpl]). repeat split; auto.
        exists []. simpl. repeat split; auto.
      * rewrite fupd_other by exact Hne. eapply TI_other_compiling; eauto.
  - (* PGen *) simpl in Hi. destruct Hi as (HL & HS & H1 & H2 & H3 & done & E & A & B & C & D).
    destruct todo as [|[r|p|c] todo].
    + (* the slot write *) split.
      * unfold GI. simpl. rewrite app_nil_r in E. subst done.
        split; [rewrite D, script_convs; reflexivity|]. exists i.
        rewrite <- script_rvs, <- script_pats, <- script_convs. auto 10.
      * intro j. simpl. destruct (Nat.eq_dec j i) as [->|Hne].
        -- rewrite fupd_same. simpl. exact HL.
        -- rewrite fupd_other by exact Hne. eapply TI_other_compiling; eauto.
    + split; [unfold GI; simpl; rewrite HS; exact I|].
      intro j. simpl. destruct (Nat.eq_dec j i) as [->|Hne].
      * repeat (first [rewrite fupd_same | progress simpl]). repeat split; auto.
        exists (done ++ [AppRv r]). rewrite <- app_assoc. simpl.
        unfold rvs_of, pats_of, convs_of in *. rewrite !flat_map_app. simpl. rewrite !app_nil_r.
        repeat split; auto. rewrite A. reflexivity.
      * rewrite fupd_other by exact Hne. eapply TI_other_compiling; eauto.
    + split; [unfold GI; simpl; rewrite HS; exact I|].
      intro j. simpl. destruct (Nat.eq_dec j i) as [->|Hne].
      * repeat (first [rewrite fupd_same | progress simpl]). repeat split; auto.
        exists (done ++ [AppPat p]). rewrite <- app_assoc. simpl.
        unfold rvs_of, pats_of, convs_of in *. rewrite !flat_map_app. simpl. rewrite !app_nil_r.
        repeat split; auto. rewrite B. reflexivity.
      * rewrite fupd_other by exact Hne. eapply TI_other_compiling; eauto.
    + rewrite H3. split; [unfold GI; simpl; rewrite HS; exact I|].
      intro j. simpl. destruct (Nat.eq_dec j i) as [->|Hne].
      * repeat (first [rewrite fupd_same | progress simpl]). repeat split; auto.
        exists (done ++ [AppConv c]). rewrite <- app_assoc. simpl.
        unfold rvs_of, pats_of, convs_of in *. rewrite !flat_map_app. simpl. rewrite !app_nil_r.
        repeat split; auto.
        -- rewrite C. reflexivity.
        -- rewrite app_length. simpl. rewrite Nat.add_1_r, seq_S. simpl. rewrite D, C. reflexivity.
      * rewrite fupd_other by exact Hne. eapply TI_other_compiling; eauto.
  - (* PRel *) simpl in Hi. split.
    + eapply GI_frame; eauto; reflexivity.
    + intro j. simpl. destruct (Nat.eq_dec j i) as [->|Hne].
      * rewrite fupd_same. exact I.
      * rewrite fupd_other by exact Hne. specialize (HT j).
        destruct (s_pc st j) as [|f|f rv|f rv pat|f rv pat cv| | | | | |todo cmap| |r]; simpl in *; auto;
          try (rewrite Hi in HT; first [injection HT; intros; subst; contradiction
                                        | destruct HT as [HT _]; injection HT; intros; subst; contradiction]).
  - (* PDone *) split; assumption.
Qed.

Lemma run_inv sched : Inv (run_sched cinst cmulti roots paths true true sched).
Proof.
  unfold run_sched. assert (H : Inv state0) by apply inv0. revert H. generalize state0.
  induction sched as [|i sched IH]; intros st H; simpl; [exact H|]. apply IH, step_inv, H.
Qed.

(* every finished lookup, under every schedule and any number of threads, answered like the
   serial lookup *)
Theorem compile_race_safe sched i r :
  result_of (run_sched cinst cmulti roots paths true true sched) i = Some r -> r = serial i.
Proof.
  unfold result_of. intro H. destruct (run_inv sched) as [_ HT]. specialize (HT i).
  destruct (s_pc _ i); try discriminate. injection H as <-. exact HT.
Qed.

(* the slot only ever holds the compilation of the current tree, with its tables in place *)
Theorem slot_consistent sched v :
  s_slot (run_sched cinst cmulti roots paths true true sched) = Compiled v ->
  final (run_sched cinst cmulti roots paths true true sched) v.
Proof. intro H. destruct (run_inv sched) as [HG _]. unfold GI in HG. rewrite H in HG. exact HG. Qed.

(* mutual exclusion: two threads inside `with self._compile_lock` are the same thread *)
Definition crit (p : pc) : bool :=
  match p with PChk | PC1 | PC2 | PC3 | PGen _ _ | PRel => true | _ => false end.

Theorem mutual_exclusion sched i j :
  let st := run_sched cinst cmulti roots paths true true sched in
  crit (s_pc st i) = true -> crit (s_pc st j) = true -> i = j.
Proof.
  intros st Hi Hj. destruct (run_inv sched) as [_ HT]. fold st in HT.
  assert (H : forall k, crit (s_pc st k) = true -> s_lock st = Some k).
  { intros k Hk. specialize (HT k). destruct (s_pc st k); simpl in *; try discriminate; tauto. }
  pose proof (H i Hi) as A. pose proof (H j Hj) as B. congruence.
Qed.

(* once a finder is installed, the list OBJECTS it was compiled with are never touched again: a
   compile creates fresh lists (PC1-PC3 rebind the attributes to new objects) and appends only to
   those; nothing clears or refills the lists a finder in use is reading *)
Lemma step_stable st i v :
  Inv st -> s_slot st = Compiled v ->
  s_slot (step st i) = Compiled v /\ s_rv (step st i) = s_rv st /\ s_pat (step st i) = s_pat st /\
  s_conv (step st i) = s_conv st /\ forall u, s_heap (step st i) u = s_heap st u.
Proof.
  intros [HG HT] HS. pose proof (HT i) as Hi. unfold Model.step.
  destruct (s_pc st i) as [|f|f rv|f rv pat|f rv pat cv| | | | | |todo cmap| |r] eqn:Hpc; simpl in Hi;
    try (repeat split; auto; fail).
  all: try (destruct (s_dict st i); repeat split; auto; fail).
  all: try (destruct f; repeat split; auto; fail).
  all: try (destruct (s_lock st); repeat split; auto; fail).
  all: try (rewrite HS; repeat split; auto; fail).
  all: try (destruct Hi as [_ Hd]; congruence).
  all: try (destruct Hi as (_ & Hd & _); congruence).
Qed.

Theorem compiled_tables_stable sched1 sched2 v :
  let st1 := run_sched cinst cmulti roots paths true true sched1 in
  let st2 := run_sched cinst cmulti roots paths true true (sched1 ++ sched2) in
  s_slot st1 = Compiled v ->
  s_slot st2 = Compiled v /\ s_rv st2 = s_rv st1 /\ s_pat st2 = s_pat st1 /\ s_conv st2 = s_conv st1 /\
  forall u, s_heap st2 u = s_heap st1 u.
Proof.
  intros st1 st2 HS. unfold st2, run_sched. rewrite fold_left_app. fold (run_sched cinst cmulti roots paths true true sched1).
  fold st1. pose proof (run_inv sched1) as HI. fold st1 in HI. clearbody st1. clear st2.
  revert st1 HS HI. induction sched2 as [|i sched2 IH]; intros st1 HS HI; simpl; [repeat split; auto|].
  destruct (step_stable st1 i v HI HS) as (A & B & C & D & E).
  destruct (IH (step st1 i) A (step_inv st1 i HI)) as (A' & B' & C' & D' & E').
  repeat split; try congruence; intro u; rewrite E', E; reflexivity.
Qed.

End Safe.

(* ---- every lookup works on its own params dict: the dict a thread holds was created by that
   thread's own find() call, and no two threads hold the same one — whatever the schedule, with
   or without the lock *)
Section Fresh.
Variable cinst : str -> option str -> cres.
Variable cmulti : str -> bool.
Variable roots : list node.
Variable paths : nat -> list str.
Variable use_lock recheck : bool.
Notation step := (Model.step cinst cmulti roots paths use_lock recheck).

Definition DI (st : state) : Prop :=
  (forall i a, s_dict st i = Some a -> a < s_next st) /\
  (forall i j a, s_dict st i = Some a -> s_dict st j = Some a -> i = j).

Lemma step_dict st i :
  (s_dict (step st i) = s_dict st /\ s_next (step st i) = s_next st) \/
  (s_dict st i = None /\ s_dict (step st i) = fupd (s_dict st) i (Some (s_next st)) /\
   s_next (step st i) = S (s_next st)).
Proof.
  unfold Model.step.
  destruct (s_pc st i) as [|f|f rv|f rv pat|f rv pat cv| | | | | |todo cmap| |r]; simpl; auto.
  - destruct (s_dict st i) eqn:E; simpl; auto.
  - destruct f; simpl; auto.
  - destruct use_lock; simpl; auto. destruct (s_lock st); simpl; auto.
  - destruct (s_slot st); simpl; auto.
  - destruct todo as [|[r|p|c] todo]; simpl; auto. destruct (s_conv st); simpl; auto.
Qed.

Lemma step_DI st i : DI st -> DI (step st i).
Proof.
  intros [H1 H2]. destruct (step_dict st i) as [[E1 E2] | (E0 & E1 & E2)]; unfold DI; rewrite E1, E2.
  - split; assumption.
  - split.
    + intros k a. unfold fupd. destruct (Nat.eqb k i).
      * intro H. injection H as <-. lia.
      * intro H. specialize (H1 _ _ H). lia.
    + intros k j a. unfold fupd.
      destruct (Nat.eqb_spec k i) as [->|Hk]; destruct (Nat.eqb_spec j i) as [->|Hj]; auto.
      * intros H H'. injection H as <-. specialize (H1 _ _ H'). lia.
      * intros H H'. injection H' as <-. specialize (H1 _ _ H). lia.
      * apply H2.
Qed.

Theorem params_fresh sched :
  DI (run_sched cinst cmulti roots paths use_lock recheck sched).
Proof.
  unfold run_sched. assert (H : DI state0) by (split; intros; discriminate).
  revert H. generalize state0. induction sched as [|i sched IH]; intros st H; simpl; [exact H|].
  apply IH, step_DI, H.
Qed.
End Fresh.

(* ---- oracle *)
Lemma obs_eqb_refl o : obs_eqb o o = true.
Proof. destruct o as [r|]; simpl; [apply result_eqb_refl | reflexivity]. Qed.

Lemma isolation_oracle_refl l : isolation_oracle l l = true.
Proof. induction l; simpl; [reflexivity|]. rewrite obs_eqb_refl. assumption. Qed.

(* ---- memo transparency *)
Section MemoThms.
Variable K V : Type.
Variable keq : K -> K -> bool.
Variable f : K -> V.
Hypothesis keq_eq : forall a b, keq a b = true -> a = b.

Definition sound (c : list (K * V)) : Prop := forall k v, In (k, v) c -> v = f k.
(* eviction / ceiling policies never invent entries *)
Definition shrinks (keep : list (K * V) -> list (K * V)) : Prop := forall c x, In x (keep c) -> In x c.

Lemma lookup_sound c k v : sound c -> lookup K V keq c k = Some v -> v = f k.
Proof.
  intro H. induction c as [|[k' v'] c IH]; simpl; [discriminate|].
  destruct (keq k k') eqn:E.
  - intro X. injection X as <-. apply keq_eq in E. subst. apply H. left. reflexivity.
  - apply IH. intros a b Hab. apply H. right. exact Hab.
Qed.

Theorem cached_call_transparent keep c k :
  sound c -> shrinks keep ->
  fst (cached_call K V keq f keep c k) = f k /\ sound (snd (cached_call K V keq f keep c k)).
Proof.
  intros Hs Hk. unfold cached_call. destruct (lookup K V keq c k) as [v|] eqn:L; simpl.
  - split; [eapply lookup_sound; eauto|]. intros a b Hab. apply Hs, Hk, Hab.
  - split; [reflexivity|]. intros a b Hab. apply Hk in Hab. destruct Hab as [X|X].
    + injection X as <- <-. reflexivity.
    + apply Hs, X.
Qed.

(* any history of cached calls, with any eviction policy per call, returns f *)
Fixpoint run_calls (c : list (K * V)) (calls : list (K * (list (K * V) -> list (K * V))))
  : list V :=
  match calls with
  | [] => []
  | (k, keep) :: tl =>
    let '(v, c') := cached_call K V keq f keep c k in v :: run_calls c' tl
  end.

Theorem memo_transparent calls : forall c,
  sound c -> Forall (fun x => shrinks (snd x)) calls ->
  run_calls c calls = map (fun x => f (fst x)) calls.
Proof.
  induction calls as [|[k keep] calls IH]; intros c Hs Hall; simpl; [reflexivity|].
  inversion Hall as [|? ? Hk Hall']; subst. simpl in Hk.
  destruct (cached_call_transparent keep c k Hs Hk) as [A B].
  destruct (cached_call K V keq f keep c k) as [v c'] eqn:E. simpl in *. subst v.
  f_equal. apply IH; assumption.
Qed.

(* the ASGI header-name cache: an insert is refused once the ceiling is reached *)
Definition ceiling (n : nat) (c : list (K * V)) : list (K * V) :=
  match c with
  | [] => []
  | x :: tl => if n <? length c then tl else c
  end.
Lemma ceiling_shrinks n : shrinks (ceiling n).
Proof.
  intros c x. unfold ceiling. destruct c as [|y tl]; [auto|].
  destruct (n <? length (y :: tl)); [intro H; right; exact H | auto].
Qed.
End MemoThms.

(* ---- the lock and the re-check are both needed: the same system without either reaches a
   wrong answer.  Tree: /x/{a:int} and /y/{p:path}; every thread looks up /y/q/r *)
Open Scope N_scope.
Definition w_tree : list node :=
  fold_left (fun roots ti => fst (add_route ex_cinst ex_multi true true roots (fst ti) (snd ti)))
    [([47; 120; 47; 123; 97; 58; 105; 110; 116; 125], 0);              (* /x/{a:int} *)
     ([47; 121; 47; 123; 112; 58; 112; 97; 116; 104; 125], 1)]          (* /y/{p:path} *)
    [].
Definition w_paths (_ : nat) : list str := [[121]; [113]; [114]].      (* y / q / r *)
Close Scope N_scope.

Definition w_sched_nolock : list nat := repeat 0 13 ++ repeat 1 10 ++ repeat 0 8.
Definition w_sched_norecheck : list nat :=
  repeat 1 5 ++ repeat 0 21 ++ repeat 2 2 ++ repeat 1 5 ++ repeat 2 3.

Theorem lock_needed :
  wf ex_cinst ex_multi w_tree = true /\
  exists sched i r,
    result_of (run_sched ex_cinst ex_multi w_tree w_paths false true sched) i = Some r /\
    r <> serial ex_cinst ex_multi w_tree w_paths i.
Proof.
  split; [vm_compute; reflexivity|]. exists w_sched_nolock, 0, Crash.
  split; [vm_compute; reflexivity | vm_compute; discriminate].
Qed.

Theorem recheck_needed :
  exists sched i r,
    result_of (run_sched ex_cinst ex_multi w_tree w_paths true false sched) i = Some r /\
    r <> serial ex_cinst ex_multi w_tree w_paths i.
Proof.
  exists w_sched_norecheck, 2, Crash.
  split; [vm_compute; reflexivity | vm_compute; discriminate].
Qed.

(* non-vacuity of compile_race_safe: under the same schedules the real protocol finishes the
   lookups, with the serial answer *)
Example safe_instance :
  result_of (run_sched ex_cinst ex_multi w_tree w_paths true true (w_sched_nolock ++ repeat 1 30)) 0
  = Some (serial ex_cinst ex_multi w_tree w_paths 0) /\
  result_of (run_sched ex_cinst ex_multi w_tree w_paths true true (w_sched_nolock ++ repeat 1 30)) 1
  = Some (serial ex_cinst ex_multi w_tree w_paths 1).
Proof. vm_compute. split; reflexivity. Qed.
