(* C19 — (a) the lazy-compile protocol of falcon/routing/compiled.py as a transition system
   over any number of threads at statement granularity (one step = one attribute read /
   write / list append / lock operation; the GIL makes each such step atomic — the stated
   assumption), (b) process-wide memo caches.  What `_compile` produces is C01's model
   (Falcon.C01.Model.compile); the finder is run with C01's run_finder.  Definitions only.

   find(uri):                       P0   f = self._find
                                    P1   rv = self._return_values
                                    P2   pat = self._patterns
                                    P3   cv = self._converters
                                    PCall  f(path, rv, pat, cv, params)
   _compile_and_find (f = the delayed method):
                                    PAcq  with self._compile_lock:      (blocking acquire)
                                    PChk    if self._find == self._compile_and_find:
   _compile:                        PC1       self._return_values = []
                                    PC2       self._patterns = []
                                    PC3       self._converters = []
                                    PGen      _generate_ast: return_values.append(..) /
                                              patterns.append(..)  (through the passed references)
                                              idx = len(self._converters); self._converters.append(..)
                                              (through self);  finally  self._find = <compiled>
                                    PRel  (lock released)
                                    then `return self._find(path, self._return_values, ...)` = P0 again *)
From Coq Require Import ZArith NArith List Bool Lia.
From Falcon.lib Require Import PyStr.
From Falcon.C01 Require Import Model Spec.
Import ListNotations.

(* one append performed by _generate_ast *)
Inductive ev := AppRv (r : N) | AppPat (p : list piece) | AppConv (c : convspec).

(* the value of self._find: the delayed method, or a compiled finder.  A compiled finder is
   the generated program; [cmap] records, for the k-th converter the generator instantiated,
   the index `len(self._converters)` it actually pasted into the program *)
Inductive fref := Delayed | Compiled (cmap : list nat).

(* a reference to a list object: the empty lists of __init__, or the lists thread t created
   in its _compile (a thread compiles at most once per lookup) *)
Inductive lref := RInit | ROwn (t : nat).

Inductive pc :=
| P0
| P1 (f : fref)
| P2 (f : fref) (rv : lref)
| P3 (f : fref) (rv pat : lref)
| PCall (f : fref) (rv pat cv : lref)
| PAcq | PChk | PC1 | PC2 | PC3
| PGen (todo : list ev) (cmap : list nat)
| PRel
| PDone (r : outcome).

Record heapcell := { h_rv : list N; h_pat : list (list piece); h_conv : list convspec }.
Definition cell0 : heapcell := {| h_rv := []; h_pat := []; h_conv := [] |}.

(* [s_dict i] = the identity of the `params = {}` dict object thread i's find() created (passed
   on to _compile_and_find and to the compiled finder); [s_next] = the allocator *)
Record state := { s_slot : fref; s_rv : lref; s_pat : lref; s_conv : lref;
                  s_lock : option nat; s_pc : nat -> pc; s_heap : nat -> heapcell;
                  s_dict : nat -> option nat; s_next : nat }.

Definition state0 : state :=
  {| s_slot := Delayed; s_rv := RInit; s_pat := RInit; s_conv := RInit; s_lock := None;
     s_pc := fun _ => P0; s_heap := fun _ => cell0; s_dict := fun _ => None; s_next := 0%nat |}.

Definition fupd {A} (f : nat -> A) (k : nat) (v : A) : nat -> A :=
  fun j => if Nat.eqb j k then v else f j.

(* the generated program with the converter indices actually used *)
Fixpoint remap (m : nat -> nat) (c : cx) {struct c} : cx :=
  match c with
  | IfLen g n b => IfLen g n (map (remap m) b)
  | IfLit i l b => IfLit i l (map (remap m) b)
  | IfPat i p b => IfPat i p (map (remap m) b)
  | IfConv u ci b => IfConv u (m ci) (map (remap m) b)
  | other => other
  end.
Definition cmap_fun (cmap : list nat) (i : nat) : nat := nth i cmap i.

Section Protocol.
Variable cinst : str -> option str -> cres.
Variable cmulti : str -> bool.
Variable roots : list node.            (* the route tree: fixed while requests are served *)
Variable paths : nat -> list str.      (* the path thread t looks up *)
Variable use_lock : bool.              (* false: `with self._compile_lock` removed *)
Variable recheck : bool.               (* false: the `if self._find == ...` re-check removed *)

Definition ast0 : list cx := fst (compile cinst cmulti roots).
Definition T0 : tables := snd (compile cinst cmulti roots).
Definition script : list ev :=
  map AppRv (t_rvs T0) ++ map AppPat (t_pats T0) ++ map AppConv (t_convs T0).

Definition deref (st : state) (r : lref) : heapcell :=
  match r with RInit => cell0 | ROwn t => s_heap st t end.

(* calling a compiled finder with the three lists as they are at the call *)
Definition call (st : state) (cmap : list nat) (rv pat cv : lref) (path : list str) : outcome :=
  run_finder true
    (map (remap (cmap_fun cmap)) ast0,
     {| t_rvs := h_rv (deref st rv); t_pats := h_pat (deref st pat);
        t_convs := h_conv (deref st cv); t_ok := t_ok T0 |})
    path.

Definition set_pc (st : state) (i : nat) (p : pc) : state :=
  {| s_slot := s_slot st; s_rv := s_rv st; s_pat := s_pat st; s_conv := s_conv st;
     s_lock := s_lock st; s_pc := fupd (s_pc st) i p; s_heap := s_heap st;
       s_dict := s_dict st; s_next := s_next st |}.

Definition app_rv (c : heapcell) (r : N) : heapcell :=
  {| h_rv := h_rv c ++ [r]; h_pat := h_pat c; h_conv := h_conv c |}.
Definition app_pat (c : heapcell) (p : list piece) : heapcell :=
  {| h_rv := h_rv c; h_pat := h_pat c ++ [p]; h_conv := h_conv c |}.
Definition app_conv (c : heapcell) (x : convspec) : heapcell :=
  {| h_rv := h_rv c; h_pat := h_pat c; h_conv := h_conv c ++ [x] |}.

(* one statement of thread i; a thread that cannot move (blocked on the lock, finished)
   stutters *)
Definition step (st : state) (i : nat) : state :=
  match s_pc st i with
  | P0 =>
    (* find(): `params = {}` (a new dict object), then f = self._find; on re-entry from
       _compile_and_find the same dict is passed on *)
    match s_dict st i with
    | Some _ => set_pc st i (P1 (s_slot st))
    | None =>
      {| s_slot := s_slot st; s_rv := s_rv st; s_pat := s_pat st; s_conv := s_conv st;
         s_lock := s_lock st; s_pc := fupd (s_pc st) i (P1 (s_slot st)); s_heap := s_heap st;
         s_dict := fupd (s_dict st) i (Some (s_next st)); s_next := S (s_next st) |}
    end
  | P1 f => set_pc st i (P2 f (s_rv st))
  | P2 f rv => set_pc st i (P3 f rv (s_pat st))
  | P3 f rv pat => set_pc st i (PCall f rv pat (s_conv st))
  | PCall (Compiled cmap) rv pat cv => set_pc st i (PDone (call st cmap rv pat cv (paths i)))
  | PCall Delayed _ _ _ => set_pc st i PAcq
  | PAcq =>
    if use_lock then
      match s_lock st with
      | Some _ => st
      | None => {| s_slot := s_slot st; s_rv := s_rv st; s_pat := s_pat st; s_conv := s_conv st;
                   s_lock := Some i; s_pc := fupd (s_pc st) i PChk; s_heap := s_heap st;
       s_dict := s_dict st; s_next := s_next st |}
      end
    else set_pc st i PChk
  | PChk =>
    match s_slot st with
    | Delayed => set_pc st i PC1
    | Compiled _ => set_pc st i (if recheck then PRel else PC1)
    end
  | PC1 => {| s_slot := s_slot st; s_rv := ROwn i; s_pat := s_pat st; s_conv := s_conv st;
              s_lock := s_lock st; s_pc := fupd (s_pc st) i PC2;
              s_heap := fupd (s_heap st) i {| h_rv := []; h_pat := h_pat (s_heap st i);
                                              h_conv := h_conv (s_heap st i) |};
              s_dict := s_dict st; s_next := s_next st |}
  | PC2 => {| s_slot := s_slot st; s_rv := s_rv st; s_pat := ROwn i; s_conv := s_conv st;
              s_lock := s_lock st; s_pc := fupd (s_pc st) i PC3;
              s_heap := fupd (s_heap st) i {| h_rv := h_rv (s_heap st i); h_pat := [];
                                              h_conv := h_conv (s_heap st i) |};
              s_dict := s_dict st; s_next := s_next st |}
  | PC3 => {| s_slot := s_slot st; s_rv := s_rv st; s_pat := s_pat st; s_conv := ROwn i;
              s_lock := s_lock st; s_pc := fupd (s_pc st) i (PGen script []);
              s_heap := fupd (s_heap st) i {| h_rv := h_rv (s_heap st i); h_pat := h_pat (s_heap st i);
                                              h_conv := [] |};
              s_dict := s_dict st; s_next := s_next st |}
  | PGen (AppRv r :: todo) cmap =>
    {| s_slot := s_slot st; s_rv := s_rv st; s_pat := s_pat st; s_conv := s_conv st;
       s_lock := s_lock st; s_pc := fupd (s_pc st) i (PGen todo cmap);
       s_heap := fupd (s_heap st) i (app_rv (s_heap st i) r);
       s_dict := s_dict st; s_next := s_next st |}
  | PGen (AppPat p :: todo) cmap =>
    {| s_slot := s_slot st; s_rv := s_rv st; s_pat := s_pat st; s_conv := s_conv st;
       s_lock := s_lock st; s_pc := fupd (s_pc st) i (PGen todo cmap);
       s_heap := fupd (s_heap st) i (app_pat (s_heap st i) p);
       s_dict := s_dict st; s_next := s_next st |}
  | PGen (AppConv c :: todo) cmap =>
    (* through self: whichever list self._converters refers to now *)
    match s_conv st with
    | RInit => set_pc st i (PGen todo (cmap ++ [0%nat]))       (* unreachable: own reset precedes *)
    | ROwn u =>
      {| s_slot := s_slot st; s_rv := s_rv st; s_pat := s_pat st; s_conv := s_conv st;
         s_lock := s_lock st;
         s_pc := fupd (s_pc st) i (PGen todo (cmap ++ [length (h_conv (s_heap st u))]));
         s_heap := fupd (s_heap st) u (app_conv (s_heap st u) c);
       s_dict := s_dict st; s_next := s_next st |}
    end
  | PGen [] cmap =>
    {| s_slot := Compiled cmap; s_rv := s_rv st; s_pat := s_pat st; s_conv := s_conv st;
       s_lock := s_lock st; s_pc := fupd (s_pc st) i PRel; s_heap := s_heap st;
       s_dict := s_dict st; s_next := s_next st |}
  | PRel =>
    {| s_slot := s_slot st; s_rv := s_rv st; s_pat := s_pat st; s_conv := s_conv st;
       s_lock := if use_lock then None else s_lock st;
       s_pc := fupd (s_pc st) i P0; s_heap := s_heap st;
       s_dict := s_dict st; s_next := s_next st |}
  | PDone _ => st
  end.

Definition run_sched (sched : list nat) : state := fold_left step sched state0.

(* the answer of a lookup made on its own *)
Definition serial (i : nat) : outcome := Ret (dfs_level cinst cmulti roots (paths i) []).

End Protocol.

(* ---- (b) process-wide memo caches: lru_cache'd pure functions, the resolver cache, the
   ASGI header-name cache with its ceiling.  A cache is an association list; entries may be
   evicted at any time, inserts may be refused (ceiling). *)
Section Memo.
Variable K V : Type.
Variable keq : K -> K -> bool.
Variable f : K -> V.

Fixpoint lookup (c : list (K * V)) (k : K) : option V :=
  match c with
  | [] => None
  | (k', v) :: tl => if keq k k' then Some v else lookup tl k
  end.

(* one cached call; [keep] is the eviction / ceiling policy applied afterwards *)
Definition cached_call (keep : list (K * V) -> list (K * V)) (c : list (K * V)) (k : K)
  : V * list (K * V) :=
  match lookup c k with
  | Some v => (v, keep c)
  | None => (f k, keep ((k, f k) :: c))
  end.
End Memo.
