(* C19 — property theorems only (each closed by [exact] of a lemma from Proofs.v).

   PARTIAL BY NATURE.  What is proved is (a) the lazy-compile protocol of CompiledRouter —
   every lookup of every thread under every statement-level schedule returns the serial answer
   (C01's depth-first walk), the slot only ever holds the compilation of the current tree with
   its side tables in place, the lock gives mutual exclusion, and both the lock and the
   re-check are necessary — and (b) transparency of process-wide memo caches.  The
   framework-wide frame property "no other shared mutable state leaks between concurrent
   requests" is NOT a theorem about a model; it is explored differentially by the schedule
   sweeps of harness/c19.py.  Assumption of (a): each modelled statement is atomic (GIL). *)
From Coq Require Import ZArith NArith List Bool.
From Falcon.lib Require Import PyStr.
From Falcon.C01 Require Import Model Spec ProofsRouter.
From Falcon.C19 Require Import Model Spec Proofs.
Import ListNotations.

(* For every well-formed tree (every tree add_route can build: C01_reachable_wf), any number
   of threads, any paths and EVERY schedule: a lookup that has finished returned exactly what
   it returns when made alone — never an internal error, never another thread's data. *)
Theorem C19_compile_race_safe : forall cinst cmulti roots paths,
  wf cinst cmulti roots = true ->
  forall sched i r,
    result_of (run_sched cinst cmulti roots paths true true sched) i = Some r ->
    r = serial cinst cmulti roots paths i.
Proof. exact compile_race_safe. Qed.
Print Assumptions C19_compile_race_safe.

(* Invariant: whenever the _find slot holds a compiled finder, it is the compilation of the
   current tree with undisturbed converter indices, and self._return_values / _patterns /
   _converters are the lists that compilation filled. *)
Theorem C19_slot_consistent : forall cinst cmulti roots paths,
  wf cinst cmulti roots = true ->
  forall sched v,
    s_slot (run_sched cinst cmulti roots paths true true sched) = Compiled v ->
    final cinst cmulti roots (run_sched cinst cmulti roots paths true true sched) v.
Proof. exact slot_consistent. Qed.
Print Assumptions C19_slot_consistent.

(* A finder keeps using the table OBJECTS it was compiled with: once the slot holds a compiled finder,
   no later step of any thread rebinds the three attributes or changes the contents of ANY list object
   (a compile works on fresh lists; nothing is cleared or refilled in place). *)
Theorem C19_compiled_tables_stable : forall cinst cmulti roots paths,
  wf cinst cmulti roots = true ->
  forall sched1 sched2 v,
    let st1 := run_sched cinst cmulti roots paths true true sched1 in
    let st2 := run_sched cinst cmulti roots paths true true (sched1 ++ sched2) in
    s_slot st1 = Compiled v ->
    s_slot st2 = Compiled v /\ s_rv st2 = s_rv st1 /\ s_pat st2 = s_pat st1 /\ s_conv st2 = s_conv st1 /\
    forall u, s_heap st2 u = s_heap st1 u.
Proof. exact compiled_tables_stable. Qed.
Print Assumptions C19_compiled_tables_stable.

Theorem C19_mutual_exclusion : forall cinst cmulti roots paths,
  wf cinst cmulti roots = true ->
  forall sched i j,
    let st := run_sched cinst cmulti roots paths true true sched in
    crit (s_pc st i) = true -> crit (s_pc st j) = true -> i = j.
Proof. exact mutual_exclusion. Qed.
Print Assumptions C19_mutual_exclusion.

(* The same system without `with self._compile_lock` reaches a wrong answer (a lookup raises
   because the converter indices / side tables of two compilers interleave) ... *)
Theorem C19_lock_needed :
  wf ex_cinst ex_multi w_tree = true /\
  exists sched i r,
    result_of (run_sched ex_cinst ex_multi w_tree w_paths false true sched) i = Some r /\
    r <> serial ex_cinst ex_multi w_tree w_paths i.
Proof. exact lock_needed. Qed.
Print Assumptions C19_lock_needed.

(* ... and so does the system with the lock but without the re-check under the lock. *)
Theorem C19_recheck_needed :
  exists sched i r,
    result_of (run_sched ex_cinst ex_multi w_tree w_paths true false sched) i = Some r /\
    r <> serial ex_cinst ex_multi w_tree w_paths i.
Proof. exact recheck_needed. Qed.
Print Assumptions C19_recheck_needed.

(* Structural counterpart of per-request isolation in the model: every lookup works on its own
   `params` dict.  The dict a thread holds was allocated by that thread's own find() call (its
   identity is below the allocator), and no two threads ever hold the same dict — for every
   schedule, with or without the lock / the re-check.  (That the REAL framework hands out fresh
   objects everywhere is not a theorem; it is observed by the marking apps of harness/c19.py.) *)
Theorem C19_params_fresh : forall cinst cmulti roots paths use_lock recheck sched,
  let st := run_sched cinst cmulti roots paths use_lock recheck sched in
  (forall i a, s_dict st i = Some a -> a < s_next st) /\
  (forall i j a, s_dict st i = Some a -> s_dict st j = Some a -> i = j).
Proof. exact params_fresh. Qed.
Print Assumptions C19_params_fresh.

(* Memo caches (lru_cache'd pure functions, the media resolver cache, the ASGI header-name
   cache): for any history of calls and any eviction / ceiling policy that never invents
   entries, every cached call returns f. *)
Theorem C19_memo_transparent : forall (K V : Type) (keq : K -> K -> bool) (f : K -> V),
  (forall a b, keq a b = true -> a = b) ->
  forall calls c, sound K V f c -> Forall (fun x => shrinks K V (snd x)) calls ->
  run_calls K V keq f c calls = map (fun x => f (fst x)) calls.
Proof. exact memo_transparent. Qed.
Print Assumptions C19_memo_transparent.

Theorem C19_name_cache_ceiling_harmless : forall (K V : Type) n, shrinks K V (ceiling K V n).
Proof. exact ceiling_shrinks. Qed.
Print Assumptions C19_name_cache_ceiling_harmless.

(* The oracle the harness applies to (concurrent, serial) observation lists accepts equal
   lists — which is what C19_compile_race_safe establishes for the model. *)
Theorem C19_oracle_sound : forall l, isolation_oracle l l = true.
Proof. exact isolation_oracle_refl. Qed.
Print Assumptions C19_oracle_sound.

(* Non-vacuity: under the schedule that breaks the unlocked system, the real protocol
   finishes both lookups with the serial answer. *)
Example C19_premises_satisfiable :
  result_of (run_sched ex_cinst ex_multi w_tree w_paths true true (w_sched_nolock ++ repeat 1 30)) 0
  = Some (serial ex_cinst ex_multi w_tree w_paths 0) /\
  result_of (run_sched ex_cinst ex_multi w_tree w_paths true true (w_sched_nolock ++ repeat 1 30)) 1
  = Some (serial ex_cinst ex_multi w_tree w_paths 1).
Proof. exact safe_instance. Qed.
