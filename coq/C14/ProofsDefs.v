(* C14 — vocabulary of the refinement proofs for the sync reader: the source contract, the
   representation invariant and the abstraction function  reader state -> unread bytes. *)
From Coq Require Import ZArith NArith List Bool Arith Lia.
From Falcon.lib Require Import PyStr.
From Falcon.C14 Require Import Spec Model.
Import ListNotations.
Local Open Scope nat_scope.

Section Defs.
Variable S : Type.
Variable rd : S -> nat -> bytes * S.
Variable sabs : S -> bytes.        (* the bytes the source will still deliver, in order *)

(* A conforming source: read(n), n > 0, returns a prefix of at most n bytes of what is left,
   and returns b'' only when nothing is left (io.RawIOBase.read contract). *)
Definition good_source : Prop :=
  forall s n, 0 < n ->
    exists k, k <= n /\
      fst (rd s n) = firstn k (sabs s) /\
      sabs (snd (rd s n)) = skipn k (sabs s) /\
      (sabs s <> [] -> 0 < k).

(* what the reader may still obtain from its source: capped by _max_bytes_remaining *)
Definition tail (st : state S) : bytes := firstn (rem st) (sabs (src st)).

(* the flat cursor a reader state stands for *)
Definition abs (st : state S) : bytes := skipn (bpos st) (buf st) ++ tail st.

Definition Inv (st : state S) : Prop :=
  blen st = length (buf st) /\ bpos st <= blen st.

End Defs.
