(* C14 — the reference object: a flat cursor over the whole byte string.

   The cursor is represented by the bytes that are still unread ([rest]); the position
   (tell) is the number of bytes consumed so far and is tracked by the history runner.
   Every operation is a total function [rest -> result * rest'].  This file is also the
   stream abstraction the C13 multipart model is written over. *)
From Coq Require Import ZArith NArith List Bool Arith Lia.
From Falcon.lib Require Import PyStr.
Import ListNotations.
Local Open Scope nat_scope.

Definition bytes := list N.

(* first index at which [d] occurs in [l]  (bytes.find) *)
Fixpoint find (d l : bytes) : option nat :=
  if startswith l d then Some 0
  else match l with
       | [] => None
       | _ :: tl => match find d tl with Some i => Some (S i) | None => None end
       end.

Inductive result :=
| RBytes (b : bytes)            (* returned bytes / bytes written to the destination *)
| RDelimErr (written : bytes)   (* DelimiterError; pipe_until had already written [written] *)
| RLines (l : list bytes)
| RValErr.                      (* ValueError: delimiter length outside [1, chunk_size] *)

Inductive op :=
| ORead (size : option nat)          (* None = read() / read(-1) / read(None) *)
| OPeek (size : option nat)          (* None = peek() / peek(-1) *)
| OReadUntil (d : bytes) (size : option nat) (consume : bool)
| OPipe
| OPipeUntil (d : bytes) (consume : bool)
| OReadline (size : option nat)
| OReadlines (hint : option nat)
| OExhaust.

Definition LF : N := 10%N.

Section Cursor.
Variable cs : nat.   (* chunk size: visible through peek()'s cap and the delimiter check *)

Definition lim (size : option nat) (rest : bytes) : nat :=
  match size with None => length rest | Some n => Nat.min n (length rest) end.

(* number of bytes a delimited read returns *)
Definition upto (d : bytes) (size : option nat) (rest : bytes) : nat :=
  match find d rest with
  | Some i => Nat.min (lim size rest) i
  | None => lim size rest
  end.

Definition bad_delim (d : bytes) : bool := (length d =? 0) || (cs <? length d).

Definition sp_read (size : option nat) (rest : bytes) : bytes * bytes :=
  (firstn (lim size rest) rest, skipn (lim size rest) rest).

Definition sp_peek (size : option nat) (rest : bytes) : bytes :=
  let n := match size with None => cs | Some n => if cs <? n then cs else n end in
  firstn n rest.

(* (returned bytes, delimiter-ok?, rest') *)
Definition sp_until (d : bytes) (size : option nat) (consume : bool) (rest : bytes)
  : bytes * bool * bytes :=
  let n := upto d size rest in
  let r1 := skipn n rest in
  if consume then
    if startswith r1 d then (firstn n rest, true, skipn (length d) r1)
    else (firstn n rest, false, r1)
  else (firstn n rest, true, r1).

Definition sp_readline (size : option nat) (rest : bytes) : bytes * bytes :=
  let n := match find [LF] rest with
           | Some i => Nat.min (lim size rest) (S i)
           | None => lim size rest
           end in
  (firstn n rest, skipn n rest).

Fixpoint sp_readlines (fuel : nat) (hint : option nat) (got : nat) (rest : bytes)
  : list bytes * bytes :=
  match fuel with
  | 0 => ([], rest)
  | S f =>
    let '(line, r1) := sp_readline None rest in
    match line with
    | [] => ([], r1)
    | _ =>
      let got' := got + length line in
      let stop := match hint with Some h => h <=? got' | None => false end in
      if stop then ([line], r1)
      else let '(ls, r2) := sp_readlines f hint got' r1 in (line :: ls, r2)
    end
  end.

Definition sp_op (o : op) (rest : bytes) : result * bytes :=
  match o with
  | ORead size => let '(b, r) := sp_read size rest in (RBytes b, r)
  | OPeek size => (RBytes (sp_peek size rest), rest)
  | OReadUntil d size consume =>
    if bad_delim d then (RValErr, rest) else
    let '(b, ok, r) := sp_until d size consume rest in
    if ok then (RBytes b, r) else (RDelimErr [], r)
  | OPipe => (RBytes rest, [])
  | OPipeUntil d consume =>
    if bad_delim d then (RValErr, rest) else
    let '(b, ok, r) := sp_until d None consume rest in
    if ok then (RBytes b, r) else (RDelimErr b, r)
  | OReadline size => let '(b, r) := sp_readline size rest in (RBytes b, r)
  | OReadlines hint => let '(ls, r) := sp_readlines (S (length rest)) hint 0 rest in (RLines ls, r)
  | OExhaust => (RBytes [], [])
  end.

(* ---- histories, with nested delimited sub-readers (stack discipline: operations go to the
   innermost reader; HPop exhausts it and returns to its parent). *)
Inductive hop :=
| HOp (o : op)
| HDelimit (d : bytes)
| HPop.

(* the bytes visible to the innermost reader: cut at the first occurrence of each
   delimiter, outermost first *)
Definition cut (d : bytes) (rest : bytes) : bytes :=
  match find d rest with Some i => firstn i rest | None => rest end.

Fixpoint view (ds : list bytes) (rest : bytes) : bytes :=
  match ds with
  | [] => rest
  | d :: ds' => view ds' (cut d rest)
  end.

(* observation after each step: result, tell of the innermost reader, "cursor at end" *)
Record obs := { o_res : result; o_tell : nat; o_end : bool }.

Definition is_nil (b : bytes) : bool := match b with [] => true | _ => false end.

(* [ds]: delimiters, outermost first; [tells]: per level, bytes consumed since that reader
   was created (head = top-level reader), so [length tells = S (length ds)] *)
Fixpoint sp_run (ds : list bytes) (tells : list nat) (rest : bytes) (h : list hop) : list obs :=
  match h with
  | [] => []
  | HOp o :: h' =>
    let v := view ds rest in
    let '(r, v') := sp_op o v in
    let k := length v - length v' in
    let tells' := map (fun t => t + k) tells in
    {| o_res := r; o_tell := last tells' 0; o_end := is_nil v' |}
      :: sp_run ds tells' (skipn k rest) h'
  | HDelimit d :: h' =>
    let ds' := ds ++ [d] in
    let tells' := tells ++ [0] in
    {| o_res := RBytes []; o_tell := 0; o_end := is_nil (view ds' rest) |}
      :: sp_run ds' tells' rest h'
  | HPop :: h' =>
    match ds with
    | [] => {| o_res := RBytes []; o_tell := last tells 0; o_end := is_nil rest |}
              :: sp_run ds tells rest h'
    | _ =>
      let k := length (view ds rest) in
      let tells' := map (fun t => t + k) (removelast tells) in
      let ds' := removelast ds in
      let rest' := skipn k rest in
      {| o_res := RBytes []; o_tell := last tells' 0; o_end := is_nil (view ds' rest') |}
        :: sp_run ds' tells' rest' h'
    end
  end.

End Cursor.

(* the whole byte string the top-level reader may see: the source data capped by the
   declared maximum stream length *)
Definition spec_history (cs maxlen : nat) (data : bytes) (h : list hop) : list obs :=
  sp_run cs [] [0] (firstn maxlen data) h.

(* ---- boolean comparison of observations (the oracle evaluated on the real readers) *)
Fixpoint lines_eqb (a b : list bytes) : bool :=
  match a, b with
  | [], [] => true
  | x :: a', y :: b' => str_eqb x y && lines_eqb a' b'
  | _, _ => false
  end.

Definition result_eqb (a b : result) : bool :=
  match a, b with
  | RBytes x, RBytes y => str_eqb x y
  | RDelimErr x, RDelimErr y => str_eqb x y
  | RLines x, RLines y => lines_eqb x y
  | RValErr, RValErr => true
  | _, _ => false
  end.
