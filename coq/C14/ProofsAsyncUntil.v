(* C14 — refinement proofs for the delimited operations of the async reader (ModelAsync.v):
   the _iter_delimited generator (with its size_hint yields), _read_from over it (drain /
   take_loop), _consume_delimiter, read_until, pipe_until against the flat cursor of Spec.v,
   for any conforming async iterator; then, for the list-of-chunks source, histories of all
   operations the async reader has. *)
From Coq Require Import ZArith NArith List Bool Arith Lia.
From Falcon.lib Require Import PyStr.
From Falcon.C14 Require Import Spec ModelAsync ProofsSync ProofsFind ProofsAsync.
Import ListNotations.
Local Open Scope nat_scope.

(* ------------------------------------------------------------------ upto without a size *)
Lemma skipn_app_exact {A : Type} (c x : list A) : skipn (length c) (c ++ x) = x.
Proof. rewrite skipn_app, skipn_all, Nat.sub_diag. reflexivity. Qed.

Lemma firstn_app_exact {A : Type} (c x : list A) : firstn (length c) (c ++ x) = c.
Proof. rewrite firstn_app, firstn_all, Nat.sub_diag. simpl. apply app_nil_r. Qed.

Lemma upto_None_found : forall d X i, 1 <= length d -> find d X = Some i -> upto d None X = i.
Proof.
  intros d X i Hd H. unfold upto, lim. rewrite H.
  apply find_spec in H as [Hi _]. pose proof (occ_bound d X i Hd Hi). lia.
Qed.

Lemma upto_None_none : forall d X, find d X = None -> upto d None X = length X.
Proof. intros d X H. unfold upto, lim. rewrite H. reflexivity. Qed.

Lemma upto_nil : forall d, upto d None [] = 0.
Proof. intros d. pose proof (upto_le_length d None []) as H. simpl in H. lia. Qed.

(* the bytes [c] handed out are delimiter-free up to their end: the count splits *)
Lemma upto_app_step : forall d c X, 1 <= length d ->
  (forall j, j < length c -> ~ occ d (c ++ X) j) ->
  upto d None (c ++ X) = length c + upto d None X.
Proof.
  intros d c X Hd Hno. destruct (find d X) as [i|] eqn:Ef.
  - assert (HfA : find d (c ++ X) = Some (length c + i)).
    { apply find_skipn_Some; [|exact Hno]. rewrite skipn_app_exact. exact Ef. }
    rewrite (upto_None_found d _ _ Hd HfA), (upto_None_found d _ _ Hd Ef). reflexivity.
  - assert (HfA : find d (c ++ X) = None).
    { apply (find_skipn_None d _ (length c)); [|exact Hno]. rewrite skipn_app_exact. exact Ef. }
    rewrite (upto_None_none d _ HfA), (upto_None_none d _ Ef), app_length. reflexivity.
Qed.

Lemma upto_Some_min : forall d n X, upto d (Some n) X = Nat.min n (upto d None X).
Proof. intros d n X. unfold upto, lim. destruct (find d X); lia. Qed.

Lemma upto_None_zero_found : forall d X, 1 <= length d -> find d X = Some 0 -> upto d None X = 0.
Proof. intros d X Hd H. apply (upto_None_found d X 0 Hd H). Qed.

(* the operations the async reader has: no readline()/readlines(); delimiters within
   [1, chunk_size] (the others raise ValueError after possibly touching the buffer) *)
Definition async_op (cs : nat) (o : op) : bool :=
  match o with
  | OReadline _ | OReadlines _ => false
  | OReadUntil d _ _ => negb (bad_delim cs d)
  | OPipeUntil d _ => negb (bad_delim cs d)
  | _ => true
  end.

Lemma bad_delim_ok : forall cs d, negb (bad_delim cs d) = true -> 1 <= length d /\ length d <= cs.
Proof.
  intros cs d H. unfold bad_delim in H.
  destruct (Nat.eqb_spec (length d) 0); [discriminate|].
  destruct (Nat.ltb_spec cs (length d)); [discriminate|]. lia.
Qed.

Section AsyncUntilProofs.
Variable S : Type.
Variable nxt : S -> option bytes * S.
Variable sabs : S -> bytes.        (* all bytes the source will still yield, concatenated *)
Variable smeas : S -> nat.         (* number of items the source can still yield *)
Variable SP : S -> Prop.           (* the states in which the source conforms *)
Variable SD : S -> Prop.           (* what is known once the source has reported its end *)
Variable cs F Bd T : nat.          (* F = fuel, Bd <= F = bound on source items, T = total bytes *)
Hypothesis cs_pos : 0 < cs.
Hypothesis HBF : Bd <= F.
Hypothesis Hnxt : forall s, SP s ->
                            match nxt s with
                            | (Some c, s') => sabs s = c ++ sabs s' /\ smeas s' < smeas s /\ SP s'
                            | (None, s') => sabs s = [] /\ SP s' /\ SD s'
                            end.

Notation pending := (pending S sabs).
Notation aabs := (aabs S sabs).
Notation AInv := (AInv S sabs smeas SP SD Bd T).
Notation need := (need S smeas).

(* ------------------------------------------------------------------ 0. ProofsAsync, restated *)
Lemma source_next_full' : forall st o st', AInv st -> source_next S nxt cs F st = (o, st') ->
  AInv st' /\ abuf st' = abuf st /\ ablen st' = ablen st /\ abpos st' = abpos st /\
  match o with
  | Some c => pending st = c ++ pending st' /\ c <> [] /\ need st' < need st
  | None => pending st = [] /\ pending st' = [] /\ exhausted st' = true /\ need st' = 0
  end.
Proof. exact (source_next_full S nxt sabs smeas SP SD cs F Bd T cs_pos HBF Hnxt). Qed.

(* every chunk of the normalized source but the last has at least chunk_size bytes *)
Lemma norm_loop_len : forall fuel st acc s c st',
  norm_loop S nxt cs fuel st acc s = (Some c, st') -> cs <= length c \/ pending st' = [].
Proof.
  induction fuel as [|f IH]; intros st acc s c st' H; cbn [norm_loop] in H; [discriminate|].
  destruct (nxt s) as [[item|] s1].
  - destruct (Nat.leb_spec cs (length acc)) as [Hle|Hgt].
    + inversion H; subst c st'. left. exact Hle.
    + apply IH in H. exact H.
  - destruct acc as [|a acc']; inversion H; subst c st'. right. reflexivity.
Qed.

Lemma source_next_len : forall st c st',
  source_next S nxt cs F st = (Some c, st') -> cs <= length c \/ pending st' = [].
Proof.
  intros st c st' H. unfold source_next in H. destruct (nph S st).
  - apply norm_loop_len in H. exact H.
  - discriminate.
  - discriminate.
Qed.

(* one item of the source moves from [pending] to the caller; [consumed] grows by its length *)
Lemma source_next_consumed : forall st c st', AInv st -> AInv st' ->
  pending st = c ++ pending st' -> consumed st' = consumed st + length c.
Proof.
  intros st c st' (_ & _ & Hc & _) (_ & _ & Hc' & _) Hp.
  apply (f_equal (@length N)) in Hp. rewrite app_length in Hp. lia.
Qed.

(* ------------------------------------------------------------------ 1. _iter_delimited *)
Section Delim.
Variable d : bytes.
Hypothesis Hd1 : 1 <= length d.
Hypothesis Hd2 : length d <= cs.

Notation U := (upto d None).

(* invariant of a suspended _iter_delimited generator *)
Definition DInv (g : dgen) (st : astate S) : Prop :=
  match g with
  | D0 => True
  | DHintFound pos =>
    abpos st <= pos /\ find d (skipn (abpos st) (abuf st)) = Some (pos - abpos st)
  | DHintNone => find d (skipn (abpos st) (abuf st)) = None
  | DLoop => abpos st = 0 /\ find d (abuf st) = None
  | DLoop168 => abpos st = 0
  | DDone => U (aabs st) = 0
  end.

(* upper bound on the number of items the generator can still yield *)
Definition dmeas (g : dgen) (st : astate S) : nat :=
  match g with
  | D0 => need st + 2
  | DHintFound _ => 1
  | DHintNone => need st + 1
  | DLoop => need st + 1
  | DLoop168 => need st + 1
  | DDone => 0
  end.

(* what one __anext__ of the generator achieves: the item is a delimiter-free prefix of the
   cursor, or the generator is finished and the cursor stands at the delimiter / the end *)
Definition dpost (st : astate S) (o : option bytes) (g' : dgen) (st' : astate S) (bound : nat)
  : Prop :=
  AInv st' /\ DInv g' st' /\
  match o with
  | Some c => aabs st = c ++ aabs st' /\ U (aabs st) = length c + U (aabs st') /\
              dmeas g' st' < bound
  | None => U (aabs st) = 0 /\ aabs st' = aabs st
  end.

Lemma dpost_weaken : forall st o g' st' b1 b2, b1 <= b2 -> dpost st o g' st' b1 -> dpost st o g' st' b2.
Proof.
  intros st o g' st' b1 b2 Hb (HI & HD & Ho). split; [exact HI|]. split; [exact HD|].
  destruct o as [c|]; [|exact Ho]. destruct Ho as (Ha & Hu & Hm). repeat split; auto. lia.
Qed.

(* the cursor does not depend on how its bytes are split between buffer and source *)
Lemma dpost_aabs : forall st0 st o g' st' b, aabs st0 = aabs st -> dpost st o g' st' b -> dpost st0 o g' st' b.
Proof. intros st0 st o g' st' b E H. unfold dpost in *. rewrite E. exact H. Qed.

(* yield self._buffer[buffer_pos:pos]; return      (pos = buffer_pos + i) *)
Lemma found_step : forall st i b, AInv st -> 0 < b ->
  find d (skipn (abpos st) (abuf st)) = Some i ->
  dpost st (Some (firstn i (skipn (abpos st) (abuf st)))) DDone (set_pos S st (abpos st + i)) b.
Proof.
  intros st i b HI Hb Hf. pose proof HI as (Hl & Hp & _).
  pose proof (buffered_len S sabs smeas SP SD Bd T st HI) as HlenB.
  set (B := skipn (abpos st) (abuf st)) in *.
  assert (Hocc : i + length d <= length B).
  { apply occ_bound; [exact Hd1|]. apply find_spec in Hf. tauto. }
  assert (HI' : AInv (set_pos S st (abpos st + i))) by (apply AInv_set_pos; [exact HI|lia|lia]).
  assert (Ha : aabs st = firstn i B ++ aabs (set_pos S st (abpos st + i))).
  { unfold ProofsAsync.aabs. rewrite pending_set_pos. cbn [set_pos abuf abpos]. fold B.
    rewrite app_assoc. f_equal. rewrite <- skipn_add. fold B. rewrite firstn_skipn. reflexivity. }
  assert (HfA : find d (aabs st) = Some i).
  { unfold ProofsAsync.aabs. fold B. apply find_app_Some; assumption. }
  assert (Hlc : length (firstn i B) = i) by (rewrite firstn_length; lia).
  assert (Hu : U (aabs st) = length (firstn i B) + U (aabs (set_pos S st (abpos st + i)))).
  { rewrite Ha at 1. apply upto_app_step; [exact Hd1|]. rewrite <- Ha, Hlc.
    intros j Hj. apply find_spec in HfA. apply HfA. exact Hj. }
  split; [exact HI'|]. split.
  - cbn [DInv]. rewrite (upto_None_found d _ _ Hd1 HfA) in Hu. lia.
  - split; [exact Ha|]. split; [exact Hu|]. cbn [dmeas]. exact Hb.
Qed.

(* pos = self._buffer.find(delimiter); if pos >= 0: ... return *)
Lemma idel_find_spec : forall st, AInv st -> abpos st = 0 ->
  match idel_find S d st with
  | Some (o, g', st') => forall b, 0 < b -> dpost st o g' st' b
  | None => find d (abuf st) = None
  end.
Proof.
  intros st HI Hp0. unfold idel_find. destruct (find d (abuf st)) as [pos|] eqn:Ef; [|reflexivity].
  destruct (Nat.ltb_spec 0 pos) as [Hpos|Hpos].
  - intros b Hb. pose proof (found_step st pos b HI Hb) as H. rewrite Hp0 in H. cbn [skipn Nat.add] in H.
    apply H. exact Ef.
  - intros b Hb. assert (pos = 0) by lia. subst pos.
    split; [exact HI|]. split; [|split; [|reflexivity]].
    + cbn [DInv]. apply upto_None_zero_found; [exact Hd1|]. unfold ProofsAsync.aabs. rewrite Hp0. cbn [skipn].
      apply find_app_Some; assumption.
    + apply upto_None_zero_found; [exact Hd1|]. unfold ProofsAsync.aabs. rewrite Hp0. cbn [skipn].
      apply find_app_Some; assumption.
Qed.

(* self._buffer += chunk; self._buffer_len += len(chunk)   (with the buffer trimmed) *)
Lemma append_spec : forall st chunk st1, AInv st -> AInv st1 -> abpos st = 0 ->
  abuf st1 = abuf st -> ablen st1 = ablen st -> abpos st1 = abpos st ->
  pending st = chunk ++ pending st1 ->
  let st2 := set_buf S st1 (abuf st1 ++ chunk) (ablen st1 + length chunk) 0 in
  AInv st2 /\ aabs st2 = aabs st /\ need st2 = need st1 /\ abpos st2 = 0.
Proof.
  intros st chunk st1 HI HI1 Hp0 Hb1 Hl1 Hp1 Hpe. cbv zeta.
  pose proof HI as (Hl & Hp & _ & Hbc & _).
  pose proof (source_next_consumed st chunk st1 HI HI1 Hpe) as Hco.
  split; [|split; [|split]]; try reflexivity.
  - apply AInv_set_buf; [exact HI1|rewrite app_length, Hb1; lia|lia|lia].
  - unfold ProofsAsync.aabs. rewrite pending_set_buf. cbn [set_buf abuf abpos skipn].
    rewrite Hp0, Hpe, Hb1. cbn [skipn]. rewrite app_assoc. reflexivity.
Qed.

(* the `async for chunk in self._source` loop of _iter_delimited, up to its next yield *)
Lemma idel_loop_spec : forall fuel st o g' st',
  AInv st -> abpos st = 0 -> find d (abuf st) = None -> need st < fuel ->
  idel_loop S nxt cs true F fuel d st = (o, g', st') ->
  dpost st o g' st' (need st + 1).
Proof.
  induction fuel as [|f IH]; intros st o g' st' HI Hp0 HfB Hfuel H; [lia|].
  cbn [idel_loop] in H.
  destruct (source_next S nxt cs F st) as [oc st1] eqn:Esn.
  pose proof (source_next_full' st oc st1 HI Esn) as (HI1 & Hb1 & Hl1 & Hp1 & Ho).
  pose proof HI as (Hl & Hp & _).
  destruct oc as [chunk|].
  - destruct Ho as (Hpe & Hcn & Hne).
    pose proof (source_next_len st chunk st1 Esn) as Hlen.
    pose proof (source_next_consumed st chunk st1 HI HI1 Hpe) as Hco.
    rewrite Hp1, Hp0 in H.
    destruct (append_spec st chunk st1 HI HI1 Hp0 Hb1 Hl1 Hp1 Hpe) as (HI2 & Ha2 & Hn2 & Hp2).
    set (st2 := set_buf S st1 (abuf st1 ++ chunk) (ablen st1 + length chunk) 0) in *.
    assert (HA : aabs st = abuf st1 ++ chunk ++ pending st1).
    { unfold ProofsAsync.aabs. rewrite Hp0, Hpe, Hb1. reflexivity. }
    assert (Hl1' : ablen st1 = length (abuf st1)) by (rewrite Hl1, Hb1; exact Hl).
    assert (HfB1 : find d (abuf st1) = None) by (rewrite Hb1; exact HfB).
    destruct (Nat.ltb_spec (length d - 1) (ablen st1)) as [Hlt|Hge].
    + (* the chunk border *)
      destruct (find d (skipn (ablen st1 - (length d - 1)) (abuf st1)
                        ++ firstn (length d - 1) chunk)) as [q|] eqn:Efr; rewrite Hl1' in Efr.
      * (* a delimiter across the border *)
        inversion H; subst o g' st'; clear H.
        pose proof (border_found d (abuf st1) chunk [] q Hd1 HfB1 Efr) as Hf2.
        rewrite app_nil_r, <- Hl1' in Hf2.
        apply (dpost_aabs st st2); [symmetry; exact Ha2|].
        assert (Hb : 0 < need st + 1) by lia.
        pose proof (found_step st2 _ (need st + 1) HI2 Hb Hf2) as Hst.
        exact Hst.
      * (* output = self._buffer; self._buffer = chunk; yield output *)
        inversion H; subst o g' st'; clear H.
        assert (HI' : AInv (set_buf S st1 chunk (length chunk) 0)).
        { apply AInv_set_buf; [exact HI1|reflexivity|lia|lia]. }
        split; [exact HI'|]. split; [reflexivity|].
        assert (Ha' : aabs (set_buf S st1 chunk (length chunk) 0) = chunk ++ pending st1) by reflexivity.
        rewrite Ha'. split; [exact HA|]. split.
        -- rewrite HA. apply upto_app_step; [exact Hd1|].
           apply border_none; [exact Hd1|exact HfB1|right; exact Efr|].
           intros Hshort. destruct Hlen as [Hlen|Hlen]; [lia|exact Hlen].
        -- cbn [dmeas]. rewrite need_set_buf. lia.
    + (* the buffer is shorter than the delimiter: join and search *)
      assert (E2 : match abuf st1 with
                   | [] => set_buf S st1 chunk (length chunk) 0
                   | _ :: _ => st2
                   end = st2).
      { unfold st2. destruct (abuf st1) eqn:Eb; [|reflexivity]. simpl in Hl1'. rewrite Hl1'. reflexivity. }
      rewrite E2 in H.
      pose proof (idel_find_spec st2 HI2 Hp2) as Hfs.
      destruct (idel_find S d st2) as [[[o2 g2] s2]|].
      * inversion H; subst o g' st'; clear H.
        apply (dpost_aabs st st2); [symmetry; exact Ha2|]. apply Hfs. lia.
      * apply IH in H; [|exact HI2|exact Hp2|exact Hfs|lia].
        apply (dpost_aabs st st2); [symmetry; exact Ha2|].
        apply (dpost_weaken _ _ _ _ (need st2 + 1)); [lia|exact H].
  - (* the source is exhausted: yield self._buffer *)
    destruct Ho as (Hpe & Hpe1 & _ & Hn0).
    inversion H; subst o g' st'; clear H.
    assert (HI' : AInv (set_pos S st1 (ablen st1))).
    { apply AInv_set_pos; [exact HI1|lia|lia]. }
    assert (Ha' : aabs (set_pos S st1 (ablen st1)) = []).
    { unfold ProofsAsync.aabs. rewrite pending_set_pos, Hpe1. cbn [set_pos abuf abpos].
      rewrite skipn_all2 by (rewrite Hl1, Hb1; lia). reflexivity. }
    assert (HA : aabs st = abuf st1).
    { unfold ProofsAsync.aabs. rewrite Hp0, Hpe, Hb1. cbn [skipn]. apply app_nil_r. }
    split; [exact HI'|]. rewrite Ha'. split; [cbn [DInv]; rewrite Ha'; apply upto_nil|].
    rewrite HA, app_nil_r, upto_nil, Nat.add_0_r.
    split; [reflexivity|]. split; [|cbn [dmeas]; lia].
    apply upto_None_none. rewrite Hb1. exact HfB.
Qed.

(* if self._buffer_pos > 0: self._trim_buffer();  async for chunk in self._source: ... *)
Lemma idel_enter_spec : forall st o g' st', AInv st ->
  find d (skipn (abpos st) (abuf st)) = None ->
  idel_enter_loop S nxt cs true F d st = (o, g', st') ->
  dpost st o g' st' (need st + 1).
Proof.
  intros st o g' st' HI Hf H. unfold idel_enter_loop in H.
  pose proof (need_le_F S sabs smeas SP SD Bd T st HI) as HF.
  destruct (Nat.ltb_spec 0 (abpos st)) as [Hpos|Hpos].
  - destruct (trim_spec S sabs smeas SP SD Bd T st HI) as (HIt & Hat & Hpt & Hnt).
    apply idel_loop_spec in H; [|exact HIt|exact Hpt|exact Hf|lia].
    rewrite Hnt in H. apply (dpost_aabs st (trim_buffer S st)); [symmetry; exact Hat|exact H].
  - assert (Hp0 : abpos st = 0) by lia. rewrite Hp0 in Hf. cbn [skipn] in Hf.
    apply idel_loop_spec in H; [exact H|exact HI|exact Hp0|exact Hf|lia].
Qed.

(* the size_hint yields: buffer_pos += size_hint; yield self._buffer[old:buffer_pos] *)
Lemma hint_step : forall st hint g' b, AInv st -> hint <= ablen st - abpos st ->
  (forall j, j < hint -> ~ occ d (aabs st) j) ->
  DInv g' (set_pos S st (abpos st + hint)) -> dmeas g' (set_pos S st (abpos st + hint)) < b ->
  dpost st (Some (firstn hint (skipn (abpos st) (abuf st)))) g' (set_pos S st (abpos st + hint)) b.
Proof.
  intros st hint g' b HI Hh Hno HD Hm. pose proof HI as (Hl & Hp & _).
  pose proof (buffered_len S sabs smeas SP SD Bd T st HI) as HlenB.
  set (B := skipn (abpos st) (abuf st)) in *.
  assert (Ha : aabs st = firstn hint B ++ aabs (set_pos S st (abpos st + hint))).
  { unfold ProofsAsync.aabs. rewrite pending_set_pos. cbn [set_pos abuf abpos]. fold B.
    rewrite app_assoc. f_equal. rewrite <- skipn_add. fold B. rewrite firstn_skipn. reflexivity. }
  split; [apply AInv_set_pos; [exact HI|lia|lia]|]. split; [exact HD|].
  split; [exact Ha|]. split; [|exact Hm].
  rewrite Ha at 1. apply upto_app_step; [exact Hd1|]. rewrite <- Ha.
  rewrite firstn_length, Nat.min_l by lia. exact Hno.
Qed.

(* one __anext__ of _iter_delimited(delimiter, size_hint) *)
Lemma idel_step : forall hint g st, AInv st -> DInv g st ->
  match idel_next S nxt cs true F d hint g st with
  | DYield _ o g' st' => dpost st o g' st' (dmeas g st)
  | DValueError _ => False
  end.
Proof.
  intros hint g st HI HD. pose proof HI as (Hl & Hp & _).
  pose proof (buffered_len S sabs smeas SP SD Bd T st HI) as HlenB.
  pose proof (need_le_F S sabs smeas SP SD Bd T st HI) as HF.
  assert (Henter : forall b, need st + 1 <= b -> find d (skipn (abpos st) (abuf st)) = None ->
            match (let '(o, g', st') := idel_enter_loop S nxt cs true F d st in DYield S o g' st') with
            | DYield _ o g' st' => dpost st o g' st' b
            | DValueError _ => False
            end).
  { intros b Hb Hf. destruct (idel_enter_loop S nxt cs true F d st) as [[o g'] st'] eqn:E.
    apply idel_enter_spec in E; [|exact HI|exact Hf].
    apply (dpost_weaken _ _ _ _ (need st + 1)); assumption. }
  destruct g; cbn [idel_next].
  - (* not started *)
    destruct (Nat.eqb_spec (length d) 0) as [Hz|_]; [lia|].
    destruct (Nat.ltb_spec cs (length d)) as [Hc|_]; [lia|]. cbn [orb].
    destruct (Nat.ltb_spec (abpos st) (ablen st)) as [Hlt|Hge].
    + destruct (find d (skipn (abpos st) (abuf st))) as [i|] eqn:Ef.
      * assert (HfA : find d (aabs st) = Some i) by (apply find_app_Some; assumption).
        assert (Hocc : i + length d <= length (skipn (abpos st) (abuf st))).
        { apply occ_bound; [exact Hd1|]. apply find_spec in Ef. tauto. }
        replace (abpos st + i - abpos st) with i by lia.
        destruct (Nat.eqb_spec (abpos st + i) 0) as [Hz|Hnz].
        -- assert (i = 0) by lia. subst i.
           pose proof (upto_None_zero_found d _ Hd1 HfA) as Hu.
           split; [exact HI|]. split; [exact Hu|]. split; [exact Hu|reflexivity].
        -- destruct (Nat.ltb_spec 0 hint) as [Hh0|Hh0]; cbn [andb];
             [destruct (Nat.ltb_spec hint i) as [Hh1|Hh1]|].
           ++ apply hint_step; [exact HI|lia| | |cbn [dmeas]; lia].
              ** intros j Hj. apply find_spec in HfA. apply HfA. lia.
              ** cbn [DInv set_pos abpos abuf]. split; [lia|].
                 rewrite <- skipn_add.
                 replace (abpos st + i - (abpos st + hint)) with (i - hint) by lia.
                 apply find_skipn_Some_le; [exact Ef|lia].
           ++ apply found_step; [exact HI|cbn [dmeas]; lia|exact Ef].
           ++ apply found_step; [exact HI|cbn [dmeas]; lia|exact Ef].
      * destruct (Nat.ltb_spec 0 hint) as [Hh0|Hh0]; cbn [andb];
          [destruct (Nat.ltb_spec (hint + (length d - 1)) (ablen st - abpos st)) as [Hh1|Hh1]|].
        -- apply hint_step; [exact HI|lia| | |cbn [dmeas]; rewrite need_set_pos; lia].
           ++ intros j Hj Hoc. unfold ProofsAsync.aabs in Hoc.
              pose proof (find_None_app_occ d _ _ j Ef Hoc) as Hst. lia.
           ++ cbn [DInv set_pos abpos abuf]. rewrite <- skipn_add.
              apply find_skipn_None_all. exact Ef.
        -- apply Henter; [cbn [dmeas]; lia|reflexivity].
        -- apply Henter; [cbn [dmeas]; lia|reflexivity].
    + apply Henter; [cbn [dmeas]; lia|].
      rewrite skipn_all2 by lia. apply find_nil_l. exact Hd1.
  - (* suspended at the size_hint yield, delimiter at pos *)
    destruct HD as [Hpp Hf].
    pose proof (found_step st (pos - abpos st) (dmeas (DHintFound pos) st) HI) as Hst.
    replace (abpos st + (pos - abpos st)) with pos in Hst by lia.
    apply Hst; [cbn [dmeas]; lia|exact Hf].
  - (* suspended at the size_hint yield, no delimiter buffered *)
    apply Henter; [cbn [dmeas]; lia|exact HD].
  - destruct HD as [Hp0 Hf].
    destruct (idel_loop S nxt cs true F F d st) as [[o g'] st'] eqn:E.
    apply idel_loop_spec in E; [exact E|exact HI|exact Hp0|exact Hf|lia].
  - (* suspended at `yield output` *)
    cbn [DInv] in HD. pose proof (idel_find_spec st HI HD) as Hfs.
    destruct (idel_find S d st) as [[[o g'] st']|].
    + apply Hfs. cbn [dmeas]. lia.
    + destruct (idel_loop S nxt cs true F F d st) as [[o g'] st'] eqn:E.
      apply idel_loop_spec in E; [exact E|exact HI|exact HD|exact Hfs|lia].
  - cbn [DInv] in HD. split; [exact HI|]. split; [exact HD|]. split; [exact HD|reflexivity].
Qed.

Lemma dmeas_0 : forall g st, DInv g st -> dmeas g st = 0 -> upto d None (aabs st) = 0.
Proof. intros g st HD H0. destruct g; cbn [dmeas] in H0; try lia. exact HD. Qed.

(* ------------------------------------------------------------------ 2. _read_from over it *)
Lemma drain_gd_spec : forall fuel hint g st acc out st', AInv st -> DInv g st ->
  dmeas g st <= fuel ->
  drain S nxt cs true F fuel (GD d hint g) st acc = (out, st') ->
  out = Some (acc ++ firstn (upto d None (aabs st)) (aabs st)) /\
  aabs st' = skipn (upto d None (aabs st)) (aabs st) /\ AInv st'.
Proof.
  induction fuel as [|f IH]; intros hint g st acc out st' HI HD Hf H.
  - cbn [drain] in H. inversion H; subst out st'; clear H.
    rewrite (dmeas_0 g st HD) by lia. cbn [firstn skipn]. rewrite app_nil_r. auto.
  - cbn [drain gen_next] in H. pose proof (idel_step hint g st HI HD) as Hs.
    destruct (idel_next S nxt cs true F d hint g st) as [o g1 st1|]; [|contradiction].
    destruct Hs as (HI1 & HD1 & Ho). destruct o as [c|].
    + destruct Ho as (Ha & Hu & Hm). apply IH in H; [|exact HI1|exact HD1|lia].
      destruct H as (Hout & Ha' & HI'). split; [|split; [|exact HI']].
      * rewrite Hout, Hu, Ha. rewrite firstn_app_r by lia.
        replace (length c + upto d None (aabs st1) - length c) with (upto d None (aabs st1)) by lia.
        rewrite app_assoc. reflexivity.
      * rewrite Ha', Hu, Ha. rewrite skipn_app_r by lia.
        replace (length c + upto d None (aabs st1) - length c) with (upto d None (aabs st1)) by lia.
        reflexivity.
    + destruct Ho as [Hu Ha]. inversion H; subst out st'; clear H.
      rewrite Hu, Ha. cbn [firstn skipn]. rewrite app_nil_r. auto.
Qed.

Lemma take_gd_spec : forall fuel hint g st rem acc out st', AInv st -> DInv g st ->
  dmeas g st <= fuel -> 0 < rem ->
  take_loop S nxt cs true F fuel (GD d hint g) st rem acc = (out, st') ->
  out = Some (acc ++ firstn (Nat.min rem (upto d None (aabs st))) (aabs st)) /\
  aabs st' = skipn (Nat.min rem (upto d None (aabs st))) (aabs st) /\ AInv st'.
Proof.
  induction fuel as [|f IH]; intros hint g st rem acc out st' HI HD Hf Hrem H.
  - cbn [take_loop] in H. inversion H; subst out st'; clear H.
    rewrite (dmeas_0 g st HD) by lia. rewrite Nat.min_0_r. cbn [firstn skipn]. rewrite app_nil_r. auto.
  - cbn [take_loop gen_next] in H. pose proof (idel_step hint g st HI HD) as Hs.
    destruct (idel_next S nxt cs true F d hint g st) as [o g1 st1|]; [|contradiction].
    destruct Hs as (HI1 & HD1 & Ho). destruct o as [c|].
    + destruct Ho as (Ha & Hu & Hm). rewrite Hu, Ha.
      set (u1 := upto d None (aabs st1)) in *.
      destruct (Nat.ltb_spec rem (length c)) as [Hlt|Hge].
      * inversion H; subst out st'; clear H.
        destruct (prepend_spec S sabs smeas SP SD Bd T st1 (skipn rem c) HI1) as [HI' Ha'].
        { pose proof (aabs_length_le S sabs smeas SP SD Bd T st HI) as Hle. rewrite Ha, app_length in Hle.
          rewrite (aabs_length S sabs smeas SP SD Bd T st1 HI1) in Hle. rewrite skipn_length.
          destruct HI1 as (_ & _ & Hc1 & _). lia. }
        rewrite Nat.min_l by lia. rewrite Ha'.
        rewrite firstn_app_l by lia. rewrite skipn_app_l by lia. auto.
      * destruct (Nat.eqb_spec (rem - length c) 0) as [Hz|Hnz].
        -- inversion H; subst out st'; clear H.
           replace (Nat.min rem (length c + u1)) with (length c + 0) by lia.
           rewrite firstn_app_2. rewrite skipn_app_r by lia.
           replace (length c + 0 - length c) with 0 by lia.
           cbn [firstn skipn]. rewrite app_nil_r. auto.
        -- apply IH in H; [|exact HI1|exact HD1|lia|lia]. fold u1 in H.
           destruct H as (Hout & Ha' & HI'). split; [|split; [|exact HI']].
           ++ replace (Nat.min rem (length c + u1)) with (length c + Nat.min (rem - length c) u1) by lia.
              rewrite firstn_app_2. rewrite Hout, app_assoc. reflexivity.
           ++ replace (Nat.min rem (length c + u1)) with (length c + Nat.min (rem - length c) u1) by lia.
              rewrite skipn_app_r by lia. rewrite Ha'. f_equal. lia.
    + destruct Ho as [Hu Ha]. inversion H; subst out st'; clear H.
      rewrite Hu, Ha, Nat.min_0_r. cbn [firstn skipn]. rewrite app_nil_r. auto.
Qed.

(* GOAL 1: the generator consumed to exhaustion *)
Theorem drain_delimited_spec_d : forall st out st', AInv st ->
  drain S nxt cs true F F (GD d 0 D0) st [] = (out, st') ->
  exists n, n = upto d None (aabs st) /\ out = Some (firstn n (aabs st)) /\
            aabs st' = skipn n (aabs st) /\ AInv st'.
Proof.
  intros st out st' HI H. pose proof (need_le_F S sabs smeas SP SD Bd T st HI) as HF.
  apply drain_gd_spec in H; [|exact HI|exact I|cbn [dmeas]; lia].
  destruct H as (Ho & Ha & HI'). exists (upto d None (aabs st)). auto.
Qed.

(* ------------------------------------------------------------------ 3. _consume_delimiter *)
Lemma apeek_full : forall st n out st', AInv st -> n <= cs ->
  apeek S nxt cs F st (Some n) = (out, st') ->
  out = firstn n (aabs st) /\ aabs st' = aabs st /\ AInv st' /\ abpos st' = 0 /\
  out = firstn n (abuf st').
Proof.
  intros st n out st' HI Hn H.
  destruct (apeek_spec S nxt sabs smeas SP SD cs F Bd T cs_pos HBF Hnxt st (Some n) out st' HI H) as (Ho & Ha & HI').
  assert (E : (cs <? n) = false) by (apply Nat.ltb_ge; exact Hn).
  unfold sp_peek in Ho. rewrite E in Ho.
  split; [exact Ho|]. split; [exact Ha|]. split; [exact HI'|].
  unfold apeek in H. rewrite E in H.
  set (st1 := if 0 <? abpos st then trim_buffer S st else st) in H.
  assert (H1 : AInv st1 /\ abpos st1 = 0).
  { unfold st1. destruct (Nat.ltb_spec 0 (abpos st)) as [Hlt|Hge].
    - destruct (trim_spec S sabs smeas SP SD Bd T st HI) as (Ha1 & _ & Hc1 & _). auto.
    - split; [exact HI|lia]. }
  destruct H1 as [HI1 Hp1]. clearbody st1.
  set (st2 := if ablen st1 <? n then peek_loop S nxt cs F F st1 n else st1) in H.
  assert (H2 : abpos st2 = 0).
  { unfold st2. destruct (Nat.ltb_spec (ablen st1) n) as [Hlt|Hge]; [|exact Hp1].
    pose proof (need_le_F S sabs smeas SP SD Bd T st1 HI1) as HF.
    apply (peek_loop_spec S nxt sabs smeas SP SD cs F Bd T cs_pos HBF Hnxt F st1 n HI1 Hp1). lia. }
  clearbody st2. inversion H; subst out st'. auto.
Qed.

Lemma consume_delimiter_spec : forall st ok st', AInv st ->
  consume_delimiter S nxt cs F st d = (ok, st') ->
  AInv st' /\ ok = startswith (aabs st) d /\
  aabs st' = if ok then skipn (length d) (aabs st) else aabs st.
Proof.
  intros st ok st' HI H. unfold consume_delimiter in H.
  destruct (apeek S nxt cs F st (Some (length d))) as [pk st1] eqn:Epk.
  apply apeek_full in Epk; [|exact HI|exact Hd2].
  destruct Epk as (Hpk & Ha1 & HI1 & Hp1 & Hpk').
  destruct (str_eqb pk d) eqn:Eeq.
  - apply str_eqb_eq in Eeq. rewrite Eeq in Hpk, Hpk'. clear Eeq pk. inversion H; subst ok st'; clear H.
    assert (Hsw : startswith (aabs st) d = true) by (apply startswith_firstn; auto).
    pose proof HI1 as (Hl1 & _).
    assert (Hlen : length d <= ablen st1).
    { apply (f_equal (@length N)) in Hpk'. rewrite firstn_length in Hpk'. lia. }
    split; [apply AInv_set_pos; [exact HI1|lia|lia]|]. split; [symmetry; exact Hsw|].
    rewrite <- Ha1. unfold ProofsAsync.aabs. rewrite pending_set_pos. cbn [set_pos abuf abpos].
    rewrite Hp1. cbn [skipn Nat.add]. rewrite skipn_app_l by lia. reflexivity.
  - inversion H; subst ok st'; clear H. split; [exact HI1|]. split; [|exact Ha1].
    symmetry. apply not_true_iff_false. intro Hs. apply startswith_firstn in Hs.
    apply str_eqb_neq in Eeq. congruence.
Qed.

(* the common tail of read_until / pipe_until *)
Lemma finish_spec : forall st1 A n (consume : bool) (err : result) r st', AInv st1 ->
  aabs st1 = skipn n A ->
  (if consume then
     let '(ok, st2) := consume_delimiter S nxt cs F st1 d in
     if ok then (RBytes (firstn n A), st2) else (err, st2)
   else (RBytes (firstn n A), st1)) = (r, st') ->
  AInv st' /\
  (r, aabs st') = (if consume then
                     if startswith (skipn n A) d
                     then (RBytes (firstn n A), skipn (length d) (skipn n A))
                     else (err, skipn n A)
                   else (RBytes (firstn n A), skipn n A)).
Proof.
  intros st1 A n consume err r st' HI1 Ha1 H. destruct consume.
  - destruct (consume_delimiter S nxt cs F st1 d) as [ok st2] eqn:Ec.
    apply consume_delimiter_spec in Ec; [|exact HI1]. destruct Ec as (HI2 & Hok & Ha2).
    rewrite Ha1 in Hok, Ha2. rewrite <- Hok.
    destruct ok; inversion H; subst r st'; rewrite Ha2; auto.
  - inversion H; subst r st'. rewrite Ha1. auto.
Qed.

Lemma bad_delim_false : bad_delim cs d = false.
Proof.
  unfold bad_delim. destruct (Nat.eqb_spec (length d) 0); [lia|].
  destruct (Nat.ltb_spec cs (length d)); [lia|]. reflexivity.
Qed.

(* GOAL 2 *)
Theorem apipe_until_spec_d : forall st consume r st', AInv st ->
  apipe_until S nxt cs true F st d consume = (r, st') ->
  sp_op cs (OPipeUntil d consume) (aabs st) = (r, aabs st') /\ AInv st'.
Proof.
  intros st consume r st' HI H. unfold apipe_until in H.
  destruct (drain S nxt cs true F F (GD d 0 D0) st []) as [ob st1] eqn:Ed.
  apply drain_delimited_spec_d in Ed; [|exact HI]. destruct Ed as (n & Hn & -> & Ha1 & HI1).
  apply (finish_spec st1 (aabs st) n consume _ r st' HI1 Ha1) in H. destruct H as [HI' Hr].
  split; [|exact HI']. cbn [sp_op]. rewrite bad_delim_false. unfold sp_until. rewrite <- Hn.
  rewrite Hr. destruct consume; [destruct (startswith (skipn n (aabs st)) d)|]; reflexivity.
Qed.

(* GOAL 3 *)
Theorem aread_until_spec_d : forall st size consume r st', AInv st ->
  aread_until S nxt cs true F st d size consume = (r, st') ->
  sp_op cs (OReadUntil d size consume) (aabs st) = (r, aabs st') /\ AInv st'.
Proof.
  intros st size consume r st' HI H. unfold aread_until in H.
  pose proof (need_le_F S sabs smeas SP SD Bd T st HI) as HF.
  assert (Hrf : exists st1, read_from S nxt cs true F (GD d (hint_of size) D0) st size
                  = (Some (firstn (upto d size (aabs st)) (aabs st)), st1) /\
                AInv st1 /\ aabs st1 = skipn (upto d size (aabs st)) (aabs st)).
  { destruct size as [[|n]|]; cbn [read_from hint_of].
    - exists st. rewrite upto_Some_min. cbn [Nat.min firstn skipn]. auto.
    - destruct (take_loop S nxt cs true F F (GD d (Datatypes.S n) D0) st (Datatypes.S n) [])
        as [ob st1] eqn:Et.
      apply take_gd_spec in Et; [|exact HI|exact I|cbn [dmeas]; lia|lia].
      destruct Et as (-> & Ha1 & HI1). exists st1. rewrite upto_Some_min. cbn [app]. auto.
    - destruct (drain S nxt cs true F F (GD d 0 D0) st []) as [ob st1] eqn:Ed.
      apply drain_gd_spec in Ed; [|exact HI|exact I|cbn [dmeas]; lia].
      destruct Ed as (-> & Ha1 & HI1). exists st1. cbn [app]. auto. }
  destruct Hrf as (st1 & Erf & HI1 & Ha1). rewrite Erf in H.
  apply (finish_spec st1 (aabs st) _ consume _ r st' HI1 Ha1) in H. destruct H as [HI' Hr].
  split; [|exact HI']. cbn [sp_op]. rewrite bad_delim_false. unfold sp_until.
  rewrite Hr. destruct consume; [destruct (startswith _ d)|]; reflexivity.
Qed.

(* ------------------------------------------------------------------ 4'. delimit() *)
(* The suspended generator self._iter_delimited(delimiter) is a conforming async iterator for
   the child reader, on the states satisfying the invariants: it yields the bytes up to the
   delimiter, one non-trivial step at a time.  [tailrest]: the parent's cursor from the
   delimiter on, which no step of the generator changes ([Rc] below is its constant value). *)
Definition cabs (p : dgen * astate S) : bytes :=
  firstn (upto d None (aabs (snd p))) (aabs (snd p)).
Definition tailrest (p : dgen * astate S) : bytes :=
  skipn (upto d None (aabs (snd p))) (aabs (snd p)).
Definition cmeas (p : dgen * astate S) : nat := dmeas (fst p) (snd p).
Definition CInv (p : dgen * astate S) : Prop := AInv (snd p) /\ DInv (fst p) (snd p).
(* the child's SP and SD *)
Definition CSP (Rc : bytes) (p : dgen * astate S) : Prop := CInv p /\ tailrest p = Rc.
Definition CSD (p : dgen * astate S) : Prop := upto d None (aabs (snd p)) = 0.

Lemma cabs_tailrest : forall p, cabs p ++ tailrest p = aabs (snd p).
Proof. intros p. apply firstn_skipn. Qed.

Lemma cabs_nil_tailrest : forall p, cabs p = [] -> tailrest p = aabs (snd p).
Proof. intros p H. rewrite <- (cabs_tailrest p), H. reflexivity. Qed.

Lemma CSD_cabs : forall p, CSD p -> cabs p = [].
Proof. intros p H. unfold cabs. rewrite H. reflexivity. Qed.

Lemma child_nxt_good : forall Rc p, CSP Rc p ->
  match child_nxt S nxt cs true F d p with
  | (Some c, p') => cabs p = c ++ cabs p' /\ cmeas p' < cmeas p /\ CSP Rc p'
  | (None, p') => cabs p = [] /\ CSP Rc p' /\ CSD p'
  end.
Proof.
  intros Rc [g st] [[HI HD] HR]. unfold child_nxt, cabs, tailrest, cmeas, CSP, CSD, CInv in *.
  cbn [fst snd] in *.
  pose proof (idel_step 0 g st HI HD) as Hs.
  destruct (idel_next S nxt cs true F d 0 g st) as [o g1 st1|]; [|contradiction].
  destruct Hs as (HI1 & HD1 & Ho). destruct o as [c|]; cbn [fst snd].
  - destruct Ho as (Ha & Hu & Hm). split; [|split; [exact Hm|split; [auto|]]].
    + rewrite Hu, Ha. apply firstn_app_2.
    + unfold tailrest. cbn [snd]. rewrite <- HR, Hu, Ha. rewrite skipn_app_r by lia. f_equal. lia.
  - destruct Ho as [Hu Ha]. split; [rewrite Hu; reflexivity|]. split; [split; [auto|]|].
    + unfold tailrest. cbn [snd]. rewrite Ha. exact HR.
    + rewrite Ha. exact Hu.
Qed.

End Delim.

(* ------------------------------------------------------------------ 4. the goals, for any delimiter *)
Theorem drain_delimited_spec : forall st d, AInv st -> 1 <= length d -> length d <= cs ->
  forall out st', drain S nxt cs true F F (GD d 0 D0) st [] = (out, st') ->
    exists n, n = upto d None (aabs st) /\ out = Some (firstn n (aabs st)) /\
              aabs st' = skipn n (aabs st) /\ AInv st'.
Proof. intros st d HI Hd1 Hd2 out st' H. eapply drain_delimited_spec_d; eauto. Qed.

Theorem apipe_until_spec : forall st d consume r st', AInv st -> 1 <= length d -> length d <= cs ->
  apipe_until S nxt cs true F st d consume = (r, st') ->
  sp_op cs (OPipeUntil d consume) (aabs st) = (r, aabs st') /\ AInv st'.
Proof. intros st d consume r st' HI Hd1 Hd2 H. eapply apipe_until_spec_d; eauto. Qed.

Theorem aread_until_spec : forall st d size consume r st', AInv st -> 1 <= length d -> length d <= cs ->
  aread_until S nxt cs true F st d size consume = (r, st') ->
  sp_op cs (OReadUntil d size consume) (aabs st) = (r, aabs st') /\ AInv st'.
Proof. intros st d size consume r st' HI Hd1 Hd2 H. eapply aread_until_spec_d; eauto. Qed.

(* GOAL 4: every operation of the async reader *)
Theorem a_refine_op : forall st o r st', async_op cs o = true -> AInv st ->
  arun_op S nxt cs true F st o = (r, st') ->
  sp_op cs o (aabs st) = (r, aabs st') /\ AInv st'.
Proof.
  intros st o r st' Ho HI H.
  destruct o as [size|size|d size consume| |d consume|size|hint|]; cbn [async_op] in Ho;
    try discriminate Ho;
    try (apply (a_refine_op_basic S nxt sabs smeas SP SD cs F Bd T cs_pos HBF Hnxt); [reflexivity|exact HI|exact H]).
  - destruct (bad_delim_ok cs d Ho) as [Hd1 Hd2]. cbn [arun_op] in H.
    apply aread_until_spec; assumption.
  - destruct (bad_delim_ok cs d Ho) as [Hd1 Hd2]. cbn [arun_op] in H.
    apply apipe_until_spec; assumption.
Qed.

End AsyncUntilProofs.

(* ================================================================== the list-of-chunks source *)
Lemma skipn_suffix : forall (v : bytes) k, k <= length v ->
  skipn k v = skipn (length v - length (skipn k v)) v.
Proof.
  intros v k Hk. rewrite skipn_length. replace (length v - (length v - k)) with k by lia. reflexivity.
Qed.

(* every operation of the async reader leaves a suffix of its input *)
Lemma sp_op_suffix_async : forall cs o v r v', async_op cs o = true -> sp_op cs o v = (r, v') ->
  v' = skipn (length v - length v') v.
Proof.
  intros cs o v r v' Ho H.
  assert (Huntil : forall d size consume b ok rest, 1 <= length d ->
            sp_until d size consume v = (b, ok, rest) -> rest = skipn (length v - length rest) v).
  { intros d size consume b ok rest Hd1 Hs. unfold sp_until in Hs.
    pose proof (upto_le_length d size v) as Hle. set (n := upto d size v) in *.
    destruct consume; [destruct (startswith (skipn n v) d) eqn:Es|]; inversion Hs; subst b ok rest.
    - apply startswith_length in Es. rewrite skipn_length in Es.
      rewrite skipn_add. apply skipn_suffix. lia.
    - apply skipn_suffix. exact Hle.
    - apply skipn_suffix. exact Hle. }
  destruct o as [size|size|d size consume| |d consume|size|hint|]; cbn [async_op] in Ho;
    try discriminate Ho;
    try (refine (sp_op_suffix cs _ v r v' _ H); reflexivity); cbn [sp_op] in H.
  - destruct (bad_delim_ok cs d Ho) as [Hd1 Hd2].
    destruct (bad_delim cs d); [discriminate|].
    destruct (sp_until d size consume v) as [[b ok] rest] eqn:Es.
    apply Huntil in Es; [|exact Hd1]. destruct ok; inversion H; subst r v'; exact Es.
  - destruct (bad_delim_ok cs d Ho) as [Hd1 Hd2].
    destruct (bad_delim cs d); [discriminate|].
    destruct (sp_until d None consume v) as [[b ok] rest] eqn:Es.
    apply Huntil in Es; [|exact Hd1]. destruct ok; inversion H; subst r v'; exact Es.
Qed.

Lemma a_refine_run : forall cs F T, 0 < cs -> forall ops (st : astate (list bytes)) t,
  forallb (async_op cs) ops = true ->
  AInv_total (list bytes) (@concat N) (@length bytes) F T st ->
  t + length (aabs (list bytes) (@concat N) st) = T ->
  Forall2 obs_ok (async_run cs true F (A0 st) (flat ops))
                 (sp_run cs [] [t] (aabs (list bytes) (@concat N) st) (flat ops)).
Proof.
  intros cs F T Hcs. induction ops as [|o ops IH]; intros st t Hb HI Ht; [constructor|].
  cbn [forallb] in Hb. apply andb_true_iff in Hb as [Hbo Hbs].
  unfold flat. cbn [map async_run async_step sp_run view]. fold (flat ops).
  destruct (arun_op (list bytes) nx0 cs true F st o) as [r st'] eqn:Erun.
  unfold nx0 in Erun.
  destruct (a_refine_op (list bytes) chunks_next (@concat N) (@length bytes) TrueP TrueP cs F F T
              Hcs (le_n F) (Hnxt_total _ _ _ _ chunks_next_good) st o r st' Hbo HI Erun) as [Hsp HI'].
  rewrite Hsp. cbn [astack_obs map last].
  pose proof (sp_op_suffix_async cs o _ _ _ Hbo Hsp) as Hsuf.
  pose proof (atell_spec_total (list bytes) (@concat N) (@length bytes) F T st' HI') as Htell.
  remember (aabs (list bytes) (@concat N) st) as v eqn:Hv.
  remember (aabs (list bytes) (@concat N) st') as v' eqn:Hv'.
  assert (Hlen : length v' <= length v).
  { rewrite Hsuf at 1. rewrite skipn_length. lia. }
  constructor.
  - unfold obs_ok. cbn [o_res o_tell o_end]. split; [reflexivity|]. split; [lia|].
    intros He. apply (aeof_sound_total (list bytes) (@concat N) (@length bytes) F T st' HI') in He.
    rewrite <- Hv' in He. rewrite He. reflexivity.
  - rewrite <- Hsuf. rewrite Hv'. apply IH; [exact Hbs|exact HI'|]. rewrite <- Hv'. lia.
Qed.

(* GOAL 5 *)
Theorem a_refine_history : forall cs F chunks ops, 0 < cs -> length chunks + 3 <= F ->
  forallb (async_op cs) ops = true ->
  Forall2 obs_ok (async_history cs true F chunks (flat ops))
                 (spec_history cs (length (concat chunks)) (concat chunks) (flat ops)).
Proof.
  intros cs F chunks ops Hcs HF Hb. unfold async_history, spec_history.
  rewrite firstn_all.
  change (concat chunks) with (aabs (list bytes) (@concat N) (ainit (list bytes) chunks)).
  apply (a_refine_run cs F (length (concat chunks)) Hcs ops (ainit (list bytes) chunks) 0 Hb).
  - apply ainit_AInv. exact HF.
  - reflexivity.
Qed.
