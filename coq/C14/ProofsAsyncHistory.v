(* C14 — the async reader against the flat cursor for EVERY history: all operations the async
   reader has, with nested delimited sub-readers (delimit() / exhaust-and-return), up to
   depth 2 (ModelAsync.async_history vs Spec.spec_history; observations: result, tell of
   the innermost reader, eof).

   A delimited child is the same reader model whose source is its parent's suspended
   _iter_delimited generator.  The generic lemmas of ProofsAsync.v / ProofsAsyncUntil.v apply
   to it through the relativised source contract: on the states satisfying the parent's
   invariants (CSP) the generator is a conforming async iterator whose remaining bytes are
   the parent's cursor cut at the delimiter (child_nxt_good). *)
From Coq Require Import ZArith NArith List Bool Arith Lia.
From Falcon.lib Require Import PyStr.
From Falcon.C14 Require Import Spec ModelAsync ProofsSync ProofsFind ProofsAsync ProofsAsyncUntil.
Import ListNotations.
Local Open Scope nat_scope.

(* ================================================================== cut, on the cursor side *)
Lemma cut_firstn_upto : forall d l, cut d l = firstn (upto d None l) l.
Proof.
  intros d l. unfold cut, upto, lim. destruct (find d l) as [i|].
  - rewrite Nat.min_comm. symmetry. apply firstn_min_length.
  - symmetry. apply firstn_all.
Qed.

(* [X] is what a reader delimited by [d] sees of the cursor [X ++ R] *)
Definition Cut (d X R : bytes) : Prop := cut d (X ++ R) = X.

Lemma Cut_init : forall d A, Cut d (firstn (upto d None A) A) (skipn (upto d None A) A).
Proof. intros d A. unfold Cut. rewrite firstn_skipn. apply cut_firstn_upto. Qed.

(* consuming bytes of the view does not change where it ends *)
Lemma Cut_skipn : forall d X R k, 1 <= length d -> Cut d X R -> k <= length X ->
  Cut d (skipn k X) R.
Proof.
  intros d X R k Hd H Hk. unfold Cut, cut in *.
  rewrite <- (skipn_app_l k X R Hk).
  destruct (find d (X ++ R)) as [i|] eqn:Ef.
  - assert (Hb : i + length d <= length (X ++ R)).
    { apply occ_bound; [exact Hd|]. apply find_spec in Ef. tauto. }
    assert (Hi : i = length X).
    { apply (f_equal (@length N)) in H. rewrite firstn_length in H. lia. }
    subst i. rewrite (find_skipn_Some_le d _ _ k Ef Hk).
    rewrite skipn_app_l by exact Hk.
    replace (length X - k) with (length (skipn k X)) by (rewrite skipn_length; reflexivity).
    apply firstn_app_exact.
  - rewrite (find_skipn_None_all d _ k Ef).
    assert (HR : R = []).
    { apply (app_inv_head X). rewrite app_nil_r. exact H. }
    subst R. rewrite !app_nil_r. reflexivity.
Qed.

(* ================================================================== one reader level *)
Section Level.
Variable S : Type.
Variable nxt : S -> option bytes * S.
Variable sabs : S -> bytes.
Variable smeas : S -> nat.
Variable SP SD : S -> Prop.
Variable cs F B T : nat.
Hypothesis cs_pos : 0 < cs.
Hypothesis HBF : B <= F.
Hypothesis Hnxt : forall s, SP s ->
                            match nxt s with
                            | (Some c, s') => sabs s = c ++ sabs s' /\ smeas s' < smeas s /\ SP s'
                            | (None, s') => sabs s = [] /\ SP s' /\ SD s'
                            end.
Notation aabs := (aabs S sabs).
Notation AInv := (AInv S sabs smeas SP SD B T).

(* everything the history proof needs about one operation on a reader *)
Lemma level_op : forall st o r st', async_op cs o = true -> AInv st ->
  arun_op S nxt cs true F st o = (r, st') ->
  sp_op cs o (aabs st) = (r, aabs st') /\ AInv st' /\
  length (aabs st') <= length (aabs st) /\
  aabs st' = skipn (length (aabs st) - length (aabs st')) (aabs st) /\
  atell S st' + length (aabs st') = T /\
  (aeof S st' = true -> aabs st' = []).
Proof.
  intros st o r st' Ho HI H.
  destruct (a_refine_op S nxt sabs smeas SP SD cs F B T cs_pos HBF Hnxt st o r st' Ho HI H)
    as [Hsp HI'].
  pose proof (sp_op_suffix_async cs o _ _ _ Ho Hsp) as Hsuf.
  split; [exact Hsp|]. split; [exact HI'|]. split; [|split; [exact Hsuf|split]].
  - rewrite Hsuf at 1. rewrite skipn_length. lia.
  - apply (atell_spec S sabs smeas SP SD B T). exact HI'.
  - apply (aeof_sound S sabs smeas SP SD B T). exact HI'.
Qed.

Lemma level_pipe : forall st out st', AInv st -> apipe S nxt cs true F st = (out, st') ->
  aabs st' = [] /\ AInv st'.
Proof.
  intros st out st' HI H.
  destruct (apipe_spec S nxt sabs smeas SP SD cs F B T cs_pos HBF Hnxt st out st' HI H)
    as (_ & Ha & HI'). auto.
Qed.

(* ------------------------------------------------------------------ its delimited child *)
Variable d : bytes.
Hypothesis Hd1 : 1 <= length d.
Hypothesis Hd2 : length d <= cs.
Variable Rc : bytes.     (* the parent's cursor from the delimiter on *)

Notation PS := (dgen * astate S)%type.
Notation cnxt := (child_nxt S nxt cs true F d).
Notation csabs := (cabs S sabs d).
Notation csmeas := (cmeas S smeas).
Notation cSP := (CSP S sabs smeas SP SD B T d Rc).
Notation cSD := (CSD S sabs d).
Notation CAInv := (ProofsAsync.AInv PS csabs csmeas cSP cSD (B + 3)).

Lemma child_Hnxt : forall p, cSP p ->
  match cnxt p with
  | (Some c, p') => csabs p = c ++ csabs p' /\ csmeas p' < csmeas p /\ cSP p'
  | (None, p') => csabs p = [] /\ cSP p' /\ cSD p'
  end.
Proof. exact (child_nxt_good S nxt sabs smeas SP SD cs F B T cs_pos HBF Hnxt d Hd1 Hd2 Rc). Qed.

(* delimit(): the fresh child over the parent state [pst] *)
Lemma child_init : forall pst, AInv pst ->
  Rc = skipn (upto d None (aabs pst)) (aabs pst) ->
  CAInv (upto d None (aabs pst)) (ainit PS (D0, pst)) /\
  ProofsAsync.aabs PS csabs (ainit PS (D0, pst)) = firstn (upto d None (aabs pst)) (aabs pst).
Proof.
  clear cs_pos HBF Hnxt Hd1 Hd2.
  intros pst HI HR. pose proof (need_le_F S sabs smeas SP SD B T pst HI) as Hn.
  pose proof (upto_le_length d None (aabs pst)) as Hle.
  split; [|reflexivity].
  unfold ProofsAsync.AInv, pending, ainit.
  cbn [abuf ablen abpos consumed exhausted nph nacc asrc length app fst snd].
  split; [reflexivity|]. split; [lia|]. split.
  { unfold cabs. cbn [snd]. rewrite firstn_length. lia. }
  split; [lia|]. split; [split; intros Hx; discriminate|]. split.
  { intros _. unfold cmeas, dmeas. cbn [fst snd]. lia. }
  split; [lia|]. split.
  - split; [split; [exact HI|exact I]|]. unfold tailrest. cbn [snd]. symmetry. exact HR.
  - intros Hx. contradiction.
Qed.

(* the child, exhausted, leaves its parent at the delimiter *)
Lemma child_pop : forall T' s, CAInv T' s -> ProofsAsync.aabs PS csabs s = [] ->
  AInv (snd (asrc s)) /\ aabs (snd (asrc s)) = Rc.
Proof.
  intros T' s HI Ha. destruct HI as (_ & _ & _ & _ & _ & _ & _ & HSP & HSD).
  destruct HSP as [[HIp HDp] HR]. split; [exact HIp|].
  rewrite <- HR. symmetry. apply cabs_nil_tailrest.
  unfold ProofsAsync.aabs in Ha. apply app_eq_nil in Ha as [_ Hp].
  unfold pending in Hp. destruct (nph PS s) eqn:Eph.
  - apply app_eq_nil in Hp as [_ Hp]. exact Hp.
  - apply CSD_cabs. apply HSD. discriminate.
  - apply CSD_cabs. apply HSD. discriminate.
Qed.

End Level.

(* ================================================================== histories *)
(* validity of a history, from nesting depth [depth]: every operation is one the async reader
   has, every delimiter has a length in [1, chunk_size], and the depth never exceeds 2 *)
Fixpoint valid_hist (cs depth : nat) (h : list hop) : bool :=
  match h with
  | [] => true
  | HOp o :: h' => async_op cs o && valid_hist cs depth h'
  | HDelimit d :: h' => (depth <? 2) && negb (bad_delim cs d) && valid_hist cs (Datatypes.S depth) h'
  | HPop :: h' => valid_hist cs (Nat.pred depth) h'
  end.

Definition adepth (k : astack) : nat :=
  match k with A0 _ => 0 | A1 _ _ => 1 | A2 _ _ _ => 2 end.

Lemma sp_run_HOp : forall cs ds tells rest o h r v', sp_op cs o (view ds rest) = (r, v') ->
  sp_run cs ds tells rest (HOp o :: h) =
  {| o_res := r;
     o_tell := last (map (fun t => t + (length (view ds rest) - length v')) tells) 0;
     o_end := is_nil v' |}
    :: sp_run cs ds (map (fun t => t + (length (view ds rest) - length v')) tells)
              (skipn (length (view ds rest) - length v') rest) h.
Proof. intros cs ds tells rest o h r v' H. cbn [sp_run]. rewrite H. reflexivity. Qed.

Lemma is_nil_true : forall b : bytes, b = [] -> is_nil b = true.
Proof. intros b ->. reflexivity. Qed.

Section Hist.
Variable cs F B0 T0 : nat.
Hypothesis cs_pos : 0 < cs.
Hypothesis HB0 : B0 + 6 <= F.

Definition gd (d : bytes) : Prop := 1 <= length d /\ length d <= cs.

(* ---- level 0: the top-level reader over the list of chunks *)
Notation S0 := (list bytes).
Notation sabs0 := (@concat N).
Notation smeas0 := (@length bytes).
Notation AInv0 := (AInv S0 sabs0 smeas0 TrueP TrueP B0 T0).
Notation aabs0 := (aabs S0 sabs0).

Lemma Hnxt0 : forall s : S0, @TrueP S0 s ->
  match chunks_next s with
  | (Some c, s') => sabs0 s = c ++ sabs0 s' /\ smeas0 s' < smeas0 s /\ @TrueP S0 s'
  | (None, s') => sabs0 s = [] /\ @TrueP S0 s' /\ @TrueP S0 s'
  end.
Proof. exact (Hnxt_total _ _ _ _ chunks_next_good). Qed.

Lemma HBF0 : B0 <= F. Proof. lia. Qed.
Lemma HBF1 : B0 + 3 <= F. Proof. lia. Qed.
Lemma HBF2 : B0 + 3 + 3 <= F. Proof. lia. Qed.

(* ---- level 1: a reader delimited by d1 over level 0 *)
Notation S1 := (dgen * astate S0)%type.
Notation nxt1 d1 := (child_nxt S0 chunks_next cs true F d1).
Notation sabs1 d1 := (cabs S0 sabs0 d1).
Notation smeas1 := (cmeas S0 smeas0).
Notation SP1 d1 Rc1 := (CSP S0 sabs0 smeas0 TrueP TrueP B0 T0 d1 Rc1).
Notation SD1 d1 := (CSD S0 sabs0 d1).
Notation AInv1 d1 Rc1 T1 := (AInv S1 (sabs1 d1) smeas1 (SP1 d1 Rc1) (SD1 d1) (B0 + 3) T1).
Notation aabs1 d1 := (aabs S1 (sabs1 d1)).

Lemma Hnxt1 : forall d1 Rc1, gd d1 -> forall p, SP1 d1 Rc1 p ->
  match nxt1 d1 p with
  | (Some c, p') => sabs1 d1 p = c ++ sabs1 d1 p' /\ smeas1 p' < smeas1 p /\ SP1 d1 Rc1 p'
  | (None, p') => sabs1 d1 p = [] /\ SP1 d1 Rc1 p' /\ SD1 d1 p'
  end.
Proof.
  intros d1 Rc1 [Hd1 Hd2].
  exact (child_Hnxt S0 chunks_next sabs0 smeas0 TrueP TrueP cs F B0 T0 cs_pos HBF0 Hnxt0
           d1 Hd1 Hd2 Rc1).
Qed.

(* ---- level 2: a reader delimited by d2 over level 1 *)
Notation S2 := (dgen * astate S1)%type.
Notation nxt2 d1 d2 := (child_nxt S1 (nxt1 d1) cs true F d2).
Notation sabs2 d1 d2 := (cabs S1 (sabs1 d1) d2).
Notation smeas2 := (cmeas S1 smeas1).
Notation SP2 d1 d2 Rc1 Rc2 T1 :=
  (CSP S1 (sabs1 d1) smeas1 (SP1 d1 Rc1) (SD1 d1) (B0 + 3) T1 d2 Rc2).
Notation SD2 d1 d2 := (CSD S1 (sabs1 d1) d2).
Notation AInv2 d1 d2 Rc1 Rc2 T1 T2 :=
  (AInv S2 (sabs2 d1 d2) smeas2 (SP2 d1 d2 Rc1 Rc2 T1) (SD2 d1 d2) (B0 + 3 + 3) T2).
Notation aabs2 d1 d2 := (aabs S2 (sabs2 d1 d2)).

Lemma Hnxt2 : forall d1 d2 Rc1 Rc2 T1, gd d1 -> gd d2 -> forall p, SP2 d1 d2 Rc1 Rc2 T1 p ->
  match nxt2 d1 d2 p with
  | (Some c, p') => sabs2 d1 d2 p = c ++ sabs2 d1 d2 p' /\ smeas2 p' < smeas2 p /\
                    SP2 d1 d2 Rc1 Rc2 T1 p'
  | (None, p') => sabs2 d1 d2 p = [] /\ SP2 d1 d2 Rc1 Rc2 T1 p' /\ SD2 d1 d2 p'
  end.
Proof.
  intros d1 d2 Rc1 Rc2 T1 Hg1 [Hd1 Hd2].
  exact (child_Hnxt S1 (nxt1 d1) (sabs1 d1) smeas1 (SP1 d1 Rc1) (SD1 d1) cs F (B0 + 3) T1
           cs_pos HBF1 (Hnxt1 d1 Rc1 Hg1) d2 Hd1 Hd2 Rc2).
Qed.

(* ---- the simulation relation between the reader stack and the cursor's (ds, tells, rest) *)
Definition Rel (k : astack) (ds : list bytes) (tells : list nat) (rest : bytes) : Prop :=
  match k with
  | A0 s =>
    ds = [] /\ exists t0, tells = [t0] /\ AInv0 s /\ rest = aabs0 s /\ t0 + length rest = T0
  | A1 d1 s =>
    ds = [d1] /\ exists t0 t1 Rc1 T1, tells = [t0; t1] /\ gd d1 /\ AInv1 d1 Rc1 T1 s /\
      rest = aabs1 d1 s ++ Rc1 /\ Cut d1 (aabs1 d1 s) Rc1 /\
      t0 + length rest = T0 /\ t1 + length (aabs1 d1 s) = T1
  | A2 d1 d2 s =>
    ds = [d1; d2] /\ exists t0 t1 t2 Rc1 Rc2 T1 T2, tells = [t0; t1; t2] /\ gd d1 /\ gd d2 /\
      AInv2 d1 d2 Rc1 Rc2 T1 T2 s /\
      rest = (aabs2 d1 d2 s ++ Rc2) ++ Rc1 /\
      Cut d2 (aabs2 d1 d2 s) Rc2 /\ Cut d1 (aabs2 d1 d2 s ++ Rc2) Rc1 /\
      t0 + length rest = T0 /\ t1 + length (aabs2 d1 d2 s ++ Rc2) = T1 /\
      t2 + length (aabs2 d1 d2 s) = T2
  end.

Lemma view1 : forall d1 X R, Cut d1 X R -> view [d1] (X ++ R) = X.
Proof. intros d1 X R H. exact H. Qed.

Lemma view2 : forall d1 d2 X R2 R1, Cut d2 X R2 -> Cut d1 (X ++ R2) R1 ->
  view [d1; d2] ((X ++ R2) ++ R1) = X.
Proof. intros d1 d2 X R2 R1 H2 H1. cbn [view]. rewrite H1. exact H2. Qed.

(* ---- operations on the innermost reader *)
Lemma sim_op : forall k ds tells rest o h, Rel k ds tells rest -> async_op cs o = true ->
  exists ob tells' rest',
    sp_run cs ds tells rest (HOp o :: h) = ob :: sp_run cs ds tells' rest' h /\
    let '(r, k') := async_step cs true F k (HOp o) in
    let '(t, e) := astack_obs k' in
    obs_ok {| o_res := r; o_tell := t; o_end := e |} ob /\ Rel k' ds tells' rest' /\
    adepth k' = adepth k.
Proof.
  intros k ds tells rest o h HR Ho. destruct k as [s|d1 s|d1 d2 s]; cbn [Rel] in HR.
  - (* the top-level reader *)
    destruct HR as (-> & t0 & -> & HI & -> & Ht). cbn [async_step].
    match goal with |- context [arun_op ?A ?n cs true F s o] =>
      destruct (arun_op A n cs true F s o) as [r s'] eqn:Erun end.
    unfold nx0 in Erun.
    destruct (level_op S0 chunks_next sabs0 smeas0 TrueP TrueP cs F B0 T0 cs_pos HBF0 Hnxt0
                s o r s' Ho HI Erun) as (Hsp & HI' & Hlen & Hsuf & Htell & Heof).
    eexists. eexists. eexists. split; [apply (sp_run_HOp cs [] [t0] (aabs0 s) o h r (aabs0 s') Hsp)|].
    cbn [astack_obs view map last]. split; [|split; [|reflexivity]].
    + split; [reflexivity|]. cbn [o_res o_tell o_end]. split; [lia|].
      intros He. apply is_nil_true. apply Heof. exact He.
    + cbn [Rel]. split; [reflexivity|]. eexists. split; [reflexivity|]. split; [exact HI'|].
      split; [symmetry; exact Hsuf|]. rewrite skipn_length. lia.
  - (* a reader delimited once *)
    destruct HR as (-> & t0 & t1 & Rc1 & T1 & -> & Hg1 & HI & -> & HC & Ht0 & Ht1).
    cbn [async_step].
    match goal with |- context [arun_op ?A ?n cs true F s o] =>
      destruct (arun_op A n cs true F s o) as [r s'] eqn:Erun end.
    unfold nx1, nx0 in Erun.
    destruct (level_op S1 (nxt1 d1) (sabs1 d1) smeas1 (SP1 d1 Rc1) (SD1 d1) cs F (B0 + 3) T1
                cs_pos HBF1 (Hnxt1 d1 Rc1 Hg1) s o r s' Ho HI Erun)
      as (Hsp & HI' & Hlen & Hsuf & Htell & Heof).
    pose proof (view1 d1 _ _ HC) as Hview.
    set (X := aabs1 d1 s) in *. set (X' := aabs1 d1 s') in *.
    assert (Hsp' : sp_op cs o (view [d1] (X ++ Rc1)) = (r, X')) by (rewrite Hview; exact Hsp).
    eexists. eexists. eexists. split; [apply (sp_run_HOp cs [d1] [t0; t1] _ o h r X' Hsp')|].
    rewrite Hview. cbn [astack_obs map last]. unfold a1, a0 in *. split; [|split; [|reflexivity]].
    + split; [reflexivity|]. cbn [o_res o_tell o_end]. fold X'. split; [lia|].
      intros He. apply is_nil_true. apply Heof. exact He.
    + cbn [Rel]. split; [reflexivity|]. exists (t0 + (length X - length X')), (t1 + (length X - length X')), Rc1, T1.
      fold X'. rewrite skipn_app_l by lia. rewrite <- Hsuf.
      split; [reflexivity|]. split; [exact Hg1|]. split; [exact HI'|]. split; [reflexivity|].
      split; [rewrite Hsuf; apply Cut_skipn; [apply Hg1|exact HC|lia]|].
      rewrite app_length in *. lia.
  - (* a reader delimited twice *)
    destruct HR as (-> & t0 & t1 & t2 & Rc1 & Rc2 & T1 & T2 & -> & Hg1 & Hg2 & HI & -> & HC2 & HC1
                    & Ht0 & Ht1 & Ht2).
    cbn [async_step].
    match goal with |- context [arun_op ?A ?n cs true F s o] =>
      destruct (arun_op A n cs true F s o) as [r s'] eqn:Erun end.
    unfold nx2, nx1, nx0 in Erun.
    destruct (level_op S2 (nxt2 d1 d2) (sabs2 d1 d2) smeas2 (SP2 d1 d2 Rc1 Rc2 T1) (SD2 d1 d2)
                cs F (B0 + 3 + 3) T2 cs_pos HBF2 (Hnxt2 d1 d2 Rc1 Rc2 T1 Hg1 Hg2) s o r s' Ho HI Erun)
      as (Hsp & HI' & Hlen & Hsuf & Htell & Heof).
    pose proof (view2 d1 d2 _ _ _ HC2 HC1) as Hview.
    set (X := aabs2 d1 d2 s) in *. set (X' := aabs2 d1 d2 s') in *.
    assert (Hsp' : sp_op cs o (view [d1; d2] ((X ++ Rc2) ++ Rc1)) = (r, X'))
      by (rewrite Hview; exact Hsp).
    eexists. eexists. eexists.
    split; [apply (sp_run_HOp cs [d1; d2] [t0; t1; t2] _ o h r X' Hsp')|].
    rewrite Hview. cbn [astack_obs map last]. unfold a1, a0 in *. split; [|split; [|reflexivity]].
    + split; [reflexivity|]. cbn [o_res o_tell o_end]. fold X'. split; [lia|].
      intros He. apply is_nil_true. apply Heof. exact He.
    + cbn [Rel]. split; [reflexivity|].
      exists (t0 + (length X - length X')), (t1 + (length X - length X')),
             (t2 + (length X - length X')), Rc1, Rc2, T1, T2.
      fold X'. rewrite skipn_app_l by (rewrite app_length; lia). rewrite skipn_app_l by lia.
      rewrite <- Hsuf.
      split; [reflexivity|]. split; [exact Hg1|]. split; [exact Hg2|]. split; [exact HI'|].
      split; [reflexivity|].
      split; [rewrite Hsuf; apply Cut_skipn; [apply Hg2|exact HC2|lia]|].
      split.
      { replace (X' ++ Rc2) with (skipn (length X - length X') (X ++ Rc2))
          by (rewrite skipn_app_l by lia; rewrite <- Hsuf; reflexivity).
        apply Cut_skipn; [apply Hg1|exact HC1|rewrite app_length; lia]. }
      rewrite !app_length in *. lia.
Qed.

(* ---- delimit() *)
Lemma sim_delimit : forall k ds tells rest d h, Rel k ds tells rest -> adepth k < 2 -> gd d ->
  exists ob ds' tells',
    sp_run cs ds tells rest (HDelimit d :: h) = ob :: sp_run cs ds' tells' rest h /\
    let '(r, k') := async_step cs true F k (HDelimit d) in
    let '(t, e) := astack_obs k' in
    obs_ok {| o_res := r; o_tell := t; o_end := e |} ob /\ Rel k' ds' tells' rest /\
    adepth k' = Datatypes.S (adepth k).
Proof.
  intros k ds tells rest d h HR Hdep Hg. destruct k as [s|d1 s|d1 d2 s]; cbn [Rel adepth] in HR, Hdep.
  - destruct HR as (-> & t0 & -> & HI & -> & Ht).
    eexists. eexists. eexists. split; [cbn [sp_run app]; reflexivity|].
    cbn [async_step astack_obs]. unfold a1, a0 in *.
    destruct (child_init S0 sabs0 smeas0 TrueP TrueP B0 T0 d _ s HI eq_refl) as [HI1 Ha1].
    pose proof (upto_le_length d None (aabs0 s)) as Hle.
    split; [|split; [|reflexivity]].
    + split; [reflexivity|]. split; [reflexivity|]. cbn. discriminate.
    + cbn [Rel]. split; [reflexivity|].
      exists t0, 0, (skipn (upto d None (aabs0 s)) (aabs0 s)), (upto d None (aabs0 s)).
      split; [reflexivity|]. split; [exact Hg|]. split; [exact HI1|]. rewrite Ha1.
      split; [symmetry; apply firstn_skipn|]. split; [apply Cut_init|]. split; [exact Ht|].
      rewrite firstn_length. lia.
  - destruct HR as (-> & t0 & t1 & Rc1 & T1 & -> & Hg1 & HI & -> & HC & Ht0 & Ht1).
    eexists. eexists. eexists. split; [cbn [sp_run app]; reflexivity|].
    cbn [async_step astack_obs]. unfold a2, a1, a0 in *.
    destruct (child_init S1 (sabs1 d1) smeas1 (SP1 d1 Rc1) (SD1 d1) (B0 + 3) T1 d _ s HI eq_refl)
      as [HI2 Ha2].
    set (X := aabs1 d1 s) in *.
    pose proof (upto_le_length d None X) as Hle.
    split; [|split; [|reflexivity]].
    + split; [reflexivity|]. split; [reflexivity|]. cbn. discriminate.
    + cbn [Rel]. split; [reflexivity|].
      exists t0, t1, 0, Rc1, (skipn (upto d None X) X), T1, (upto d None X).
      split; [reflexivity|]. split; [exact Hg1|]. split; [exact Hg|]. split; [exact HI2|].
      rewrite Ha2. rewrite firstn_skipn.
      split; [reflexivity|]. split; [apply Cut_init|]. split; [exact HC|]. split; [exact Ht0|].
      split; [exact Ht1|]. rewrite firstn_length. lia.
  - lia.
Qed.

(* ---- exhausting the innermost reader and returning to its parent *)
Lemma sim_pop : forall k ds tells rest h, Rel k ds tells rest ->
  exists ob ds' tells' rest',
    sp_run cs ds tells rest (HPop :: h) = ob :: sp_run cs ds' tells' rest' h /\
    let '(r, k') := async_step cs true F k HPop in
    let '(t, e) := astack_obs k' in
    obs_ok {| o_res := r; o_tell := t; o_end := e |} ob /\ Rel k' ds' tells' rest' /\
    adepth k' = Nat.pred (adepth k).
Proof.
  intros k ds tells rest h HR. destruct k as [s|d1 s|d1 d2 s]; cbn [Rel] in HR.
  - destruct HR as (-> & t0 & -> & HI & -> & Ht).
    eexists. eexists. eexists. eexists. split; [cbn [sp_run]; reflexivity|].
    cbn [async_step astack_obs last]. split; [|split; [|reflexivity]].
    + pose proof (atell_spec S0 sabs0 smeas0 TrueP TrueP B0 T0 s HI) as Htell.
      split; [reflexivity|]. cbn [o_res o_tell o_end]. split; [lia|].
      intros He. apply is_nil_true. apply (aeof_sound S0 sabs0 smeas0 TrueP TrueP B0 T0 s HI He).
    + cbn [Rel]. split; [reflexivity|]. exists t0. auto.
  - destruct HR as (-> & t0 & t1 & Rc1 & T1 & -> & Hg1 & HI & -> & HC & Ht0 & Ht1).
    cbn [async_step].
    match goal with |- context [apipe ?A ?n cs true F s] =>
      destruct (apipe A n cs true F s) as [out s'] eqn:Epipe end.
    unfold nx1, nx0 in Epipe.
    destruct (level_pipe S1 (nxt1 d1) (sabs1 d1) smeas1 (SP1 d1 Rc1) (SD1 d1) cs F (B0 + 3) T1
                cs_pos HBF1 (Hnxt1 d1 Rc1 Hg1) s out s' HI Epipe) as [Ha' HI'].
    destruct (child_pop S0 sabs0 smeas0 TrueP TrueP B0 T0 d1 Rc1 T1 s' HI' Ha') as [HIp Hap].
    pose proof (view1 d1 _ _ HC) as Hview. set (X := aabs1 d1 s) in *.
    set (pst := snd (asrc s')) in *.
    eexists. eexists. eexists. eexists. split; [cbn [sp_run removelast map last]; reflexivity|].
    rewrite Hview. rewrite skipn_app_exact. cbn [astack_obs view]. unfold a1, a0 in *.
    pose proof (atell_spec S0 sabs0 smeas0 TrueP TrueP B0 T0 pst HIp) as Htell.
    rewrite app_length in Ht0.
    split; [|split; [|reflexivity]].
    + split; [reflexivity|]. cbn [o_res o_tell o_end]. rewrite Hap in Htell. split; [lia|].
      intros He. apply is_nil_true. rewrite <- Hap.
      apply (aeof_sound S0 sabs0 smeas0 TrueP TrueP B0 T0 pst HIp He).
    + cbn [Rel]. split; [reflexivity|]. exists (t0 + length X). split; [reflexivity|].
      split; [exact HIp|]. split; [symmetry; exact Hap|]. lia.
  - destruct HR as (-> & t0 & t1 & t2 & Rc1 & Rc2 & T1 & T2 & -> & Hg1 & Hg2 & HI & -> & HC2 & HC1
                    & Ht0 & Ht1 & Ht2).
    cbn [async_step].
    match goal with |- context [apipe ?A ?n cs true F s] =>
      destruct (apipe A n cs true F s) as [out s'] eqn:Epipe end.
    unfold nx2, nx1, nx0 in Epipe.
    destruct (level_pipe S2 (nxt2 d1 d2) (sabs2 d1 d2) smeas2 (SP2 d1 d2 Rc1 Rc2 T1) (SD2 d1 d2)
                cs F (B0 + 3 + 3) T2 cs_pos HBF2 (Hnxt2 d1 d2 Rc1 Rc2 T1 Hg1 Hg2) s out s' HI Epipe)
      as [Ha' HI'].
    destruct (child_pop S1 (sabs1 d1) smeas1 (SP1 d1 Rc1) (SD1 d1) (B0 + 3) T1 d2 Rc2 T2 s' HI' Ha')
      as [HIp Hap].
    pose proof (view2 d1 d2 _ _ _ HC2 HC1) as Hview. set (X := aabs2 d1 d2 s) in *.
    eexists. eexists. eexists. eexists. split; [cbn [sp_run removelast map last]; reflexivity|].
    rewrite Hview. rewrite <- app_assoc. rewrite skipn_app_exact. cbn [astack_obs].
    unfold a2, a1, a0 in *.
    pose proof (atell_spec S1 (sabs1 d1) smeas1 (SP1 d1 Rc1) (SD1 d1) (B0 + 3) T1 (snd (asrc s')) HIp) as Htell.
    assert (HC1' : Cut d1 Rc2 Rc1).
    { replace Rc2 with (skipn (length X) (X ++ Rc2)) by apply skipn_app_exact.
      apply Cut_skipn; [apply Hg1|exact HC1|rewrite app_length; lia]. }
    rewrite !app_length in Ht0. rewrite app_length in Ht1.
    split; [|split; [|reflexivity]].
    + split; [reflexivity|]. cbn [o_res o_tell o_end]. rewrite Hap in Htell. split; [lia|].
      intros He. apply is_nil_true. rewrite (view1 d1 _ _ HC1'). rewrite <- Hap.
      apply (aeof_sound S1 (sabs1 d1) smeas1 (SP1 d1 Rc1) (SD1 d1) (B0 + 3) T1 (snd (asrc s')) HIp He).
    + cbn [Rel]. split; [reflexivity|]. exists (t0 + length X), (t1 + length X), Rc1, T1.
      rewrite Hap. split; [reflexivity|]. split; [exact Hg1|]. split; [exact HIp|].
      split; [reflexivity|]. split; [exact HC1'|]. rewrite app_length. lia.
Qed.

(* ---- the simulation *)
Lemma sim_run : forall h k ds tells rest, Rel k ds tells rest ->
  valid_hist cs (adepth k) h = true ->
  Forall2 obs_ok (async_run cs true F k h) (sp_run cs ds tells rest h).
Proof.
  induction h as [|x h IH]; intros k ds tells rest HR Hv; [constructor|].
  destruct x as [o|d|]; cbn [valid_hist] in Hv.
  - apply andb_true_iff in Hv as [Ho Hv].
    destruct (sim_op k ds tells rest o h HR Ho) as (ob & tells' & rest' & Hsp & Hst).
    rewrite Hsp. cbn [async_run].
    destruct (async_step cs true F k (HOp o)) as [r k'].
    destruct (astack_obs k') as [t e]. destruct Hst as (Hok & HR' & Hd).
    constructor; [exact Hok|]. apply IH; [exact HR'|]. rewrite Hd. exact Hv.
  - apply andb_true_iff in Hv as [Hv1 Hv]. apply andb_true_iff in Hv1 as [Hdep Hbd].
    apply Nat.ltb_lt in Hdep. apply bad_delim_ok in Hbd.
    destruct (sim_delimit k ds tells rest d h HR Hdep Hbd) as (ob & ds' & tells' & Hsp & Hst).
    rewrite Hsp. cbn [async_run].
    destruct (async_step cs true F k (HDelimit d)) as [r k'].
    destruct (astack_obs k') as [t e]. destruct Hst as (Hok & HR' & Hd).
    constructor; [exact Hok|]. apply IH; [exact HR'|]. rewrite Hd. exact Hv.
  - destruct (sim_pop k ds tells rest h HR) as (ob & ds' & tells' & rest' & Hsp & Hst).
    rewrite Hsp. cbn [async_run].
    destruct (async_step cs true F k HPop) as [r k'].
    destruct (astack_obs k') as [t e]. destruct Hst as (Hok & HR' & Hd).
    constructor; [exact Hok|]. apply IH; [exact HR'|]. rewrite Hd. exact Hv.
Qed.

End Hist.

(* ================================================================== the theorem *)
(* every valid history (all async operations, nested delimit()/pop up to depth 2): the async
   reader's observations — result, tell of the innermost reader, eof — are the cursor's.
   Fuel: 3 per nesting level more than the number of source chunks. *)
Theorem a_refine_history_nested : forall cs F chunks h, 0 < cs -> length chunks + 9 <= F ->
  valid_hist cs 0 h = true ->
  Forall2 obs_ok (async_history cs true F chunks h)
                 (spec_history cs (length (concat chunks)) (concat chunks) h).
Proof.
  intros cs F chunks h Hcs HF Hv. unfold async_history, spec_history. rewrite firstn_all.
  assert (HB0 : (F - 6) + 6 <= F) by lia.
  apply (sim_run cs F (F - 6) (length (concat chunks)) Hcs HB0 h
           (A0 (ainit (list bytes) chunks)) [] [0] (concat chunks)); [|exact Hv].
  cbn [Rel]. split; [reflexivity|]. exists 0. split; [reflexivity|].
  split; [apply ainit_AInv; lia|]. split; reflexivity.
Qed.

(* histories of operations on the top-level reader are valid *)
Lemma valid_hist_flat : forall cs ops, forallb (async_op cs) ops = true ->
  valid_hist cs 0 (flat ops) = true.
Proof.
  intros cs ops. induction ops as [|o ops IH]; intro H; [reflexivity|].
  cbn [forallb] in H. apply andb_true_iff in H as [Ho Hs].
  unfold flat. cbn [map valid_hist]. fold (flat ops). rewrite Ho, (IH Hs). reflexivity.
Qed.
