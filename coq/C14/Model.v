(* C14 — executable models of falcon/util/reader.py:BufferedReader (sync) and
   falcon/asgi/reader.py:BufferedReader (async), statement by statement.

   bytes = list N.  Sizes, positions and lengths are nat; [size : option nat] stands for the
   public size argument (None = -1 / None; negative sizes other than -1 are outside the
   modelled domain).  The differences  _buffer_len - _buffer_pos  are truncated at 0 (see
   notes/C14.md: the state _buffer_pos > _buffer_len is reachable in the real code after a
   short source; there the code's integers go negative, the model truncates, both return
   b''; the harness generates these states on purpose).

   Both readers are generic in their source, so that a delimited sub-reader is the same
   model instantiated with "the parent reader" as its source. *)
From Coq Require Import ZArith NArith List Bool Arith Lia.
From Falcon.lib Require Import PyStr.
From Falcon.gen Require Import ConstsC14.
From Falcon.C14 Require Import Spec.
Import ListNotations.
Local Open Scope nat_scope.

(* ================================================================== sync reader *)
Section Sync.
Variable S : Type.                          (* the source object *)
Variable rd : S -> nat -> bytes * S.        (* read_func(size), size > 0 *)
Variable cs : nat.                          (* self._chunk_size *)
Variable fixed : bool.   (* true: the repaired _read (fixes/C14-sync-read-short-source.patch) *)

Record state := mk {
  buf : bytes;      (* _buffer *)
  blen : nat;       (* _buffer_len *)
  bpos : nat;       (* _buffer_pos *)
  rem : nat;        (* _max_bytes_remaining *)
  src : S }.

Definition init (max_stream_len : nat) (s : S) : state :=
  mk [] 0 0 max_stream_len s.

Definition max_join_size : nat := cs * sync_MAX_JOIN_CHUNKS.

Definition avail (st : state) : nat := blen st - bpos st.

(* the while-loop of _perform_read; [fuel] bounds the iterations (each one obtains at
   least one byte or returns) *)
Fixpoint pr_loop (fuel size chunk_len : nat) (result : bytes) (r : nat) (s : S)
  : bytes * nat * S :=
  match fuel with
  | 0 => (result, r, s)
  | Datatypes.S f =>
    let size := size - chunk_len in
    if size =? 0 then (result, r, s) else
    let '(chunk, s') := rd s size in
    let cl := length chunk in
    if cl =? 0 then (result, 0, s')                      (* the EOF *)
    else pr_loop f size cl (result ++ chunk) (r - cl) s'
  end.

Definition perform_read (st : state) (size : nat) : bytes * state :=
  let size := Nat.min size (rem st) in
  if size =? 0 then ([], st) else
  let '(chunk, s1) := rd (src st) size in
  let cl := length chunk in
  let r1 := rem st - cl in
  if cl =? size then (chunk, mk (buf st) (blen st) (bpos st) r1 s1)
  else if cl =? 0 then ([], mk (buf st) (blen st) (bpos st) 0 s1)
  else let '(res, r2, s2) := pr_loop size size cl chunk r1 s1 in
       (res, mk (buf st) (blen st) (bpos st) r2 s2).

Definition fill_buffer (st : state) : state :=
  if avail st <? cs then
    let read_size := cs - avail st in
    if bpos st =? 0 then
      let '(c, st1) := perform_read st read_size in
      let b := buf st1 ++ c in
      mk b (length b) (bpos st1) (rem st1) (src st1)
    else
      let keep := skipn (bpos st) (buf st) in
      let '(c, st1) := perform_read st read_size in
      let b := keep ++ c in
      mk b (length b) 0 (rem st1) (src st1)
  else st.

Definition peek_size (size : option nat) : nat :=
  match size with None => cs | Some n => if cs <? n then cs else n end.

Definition peek (st : state) (size : option nat) : bytes * state :=
  let n := peek_size size in
  let st1 := if avail st <? n then fill_buffer st else st in
  (firstn n (skipn (bpos st1) (buf st1)), st1).

Definition normalize_size (st : state) (size : option nat) : nat :=
  let max_size := rem st + avail st in
  match size with
  | None => max_size
  | Some n => if max_size <? n then max_size else n
  end.

(* _read *)
Definition read_ (st : state) (size : nat) : bytes * state :=
  if size <=? avail st then
    if (size =? blen st) && (bpos st =? 0) then
      (buf st, mk [] 0 (bpos st) (rem st) (src st))
    else
      (firstn size (skipn (bpos st) (buf st)),
       mk (buf st) (blen st) (bpos st + size) (rem st) (src st))
  else if (blen st =? 0) && (cs <=? size) then perform_read st size
  else
    let read_size := size - avail st in
    let result := skipn (bpos st) (buf st) in
    if cs <=? read_size then
      let '(c, st1) := perform_read (mk [] 0 0 (rem st) (src st)) read_size in
      (result ++ c, st1)
    else
      let '(c, st1) := perform_read st cs in
      (* before the fix: self._buffer_pos = read_size, even when the source ended early *)
      let p := if fixed then Nat.min read_size (length c) else read_size in
      (result ++ firstn read_size c, mk c (length c) p (rem st1) (src st1)).

Definition read (st : state) (size : option nat) : bytes * state :=
  read_ st (normalize_size st size).

(* buffer.find(delimiter, start) *)
Definition find_from (d : bytes) (b : bytes) (start : nat) : option nat :=
  match find d (skipn start b) with Some i => Some (start + i) | None => None end.

(* _finalize_read_until: [delim] = the optional delimiter argument, [dpos] = delimiter_pos
   (None = -1), [next_chunk] (None = not given / empty).  Returns None for DelimiterError. *)
Definition finalize (st : state) (size : nat) (backlog : bytes) (have_bytes consume_bytes : nat)
           (d : bytes) (delim_given : bool) (dpos : option nat) (next_chunk : bytes)
  : option bytes * state :=
  let dpos := match dpos with
              | None => if delim_given then find_from d (buf st) (bpos st) else None
              | Some p => Some p
              end in
  let size := match dpos with
              | Some p => Nat.min size (have_bytes + p - bpos st)
              | None => size
              end in
  let '(ret, st1) :=
    if have_bytes =? 0 then read_ st size
    else let '(x, st1) := read_ st (size - have_bytes) in (backlog ++ x, st1) in
  let st2 :=
    if 0 <? length next_chunk then
      if blen st1 =? 0 then mk next_chunk (length next_chunk) (bpos st1) (rem st1) (src st1)
      else mk (skipn (bpos st1) (buf st1) ++ next_chunk)
              (blen st1 - bpos st1 + length next_chunk) 0 (rem st1) (src st1)
    else st1 in
  if 0 <? consume_bytes then
    match dpos with
    | None =>
      let '(pk, st3) := peek st2 (Some consume_bytes) in
      if str_eqb pk d
      then (Some ret, mk (buf st3) (blen st3) (bpos st3 + consume_bytes) (rem st3) (src st3))
      else (None, st3)
    | Some p =>
      if bpos st2 =? p
      then (Some ret, mk (buf st2) (blen st2) (bpos st2 + consume_bytes) (rem st2) (src st2))
      else (None, st2)
    end
  else (Some ret, st2).

(* the while-loop of _read_until; every iteration that continues has obtained at least one
   byte from the budget, so fuel = S rem suffices *)
Fixpoint ru_loop (fuel : nat) (st : state) (d : bytes) (size : nat) (backlog : bytes)
         (have_bytes consume_bytes : nat) : option bytes * state :=
  match fuel with
  | 0 => (Some backlog, st)
  | Datatypes.S f =>
    let dl1 := length d - 1 in
    let found := if bpos st <? blen st then find_from d (buf st) (bpos st) else None in
    match found with
    | Some p => finalize st size backlog have_bytes consume_bytes d false (Some p) []
    | None =>
      if size + dl1 <? have_bytes + avail st then
        finalize st size backlog have_bytes consume_bytes d true None []
      else
        let '(next_chunk, st1) := perform_read st cs in
        let ncl := length next_chunk in
        if rem st1 =? 0 then
          finalize (mk (buf st1 ++ next_chunk) (blen st1 + ncl) (bpos st1) (rem st1) (src st1))
                   size backlog have_bytes consume_bytes d true None []
        else if blen st1 <=? bpos st1 then
          ru_loop f (mk next_chunk ncl 0 (rem st1) (src st1)) d size backlog
                  have_bytes consume_bytes
        else
          let border :=
            if 0 <? dl1 then
              let offset := Nat.max (blen st1 - dl1) (bpos st1) in
              let fragment := skipn offset (buf st1) ++ firstn dl1 next_chunk in
              match find d fragment with
              | Some p => Some (p + offset)
              | None => None
              end
            else None in
          match border with
          | Some p =>
            finalize (mk (buf st1 ++ next_chunk) (blen st1 + ncl) (bpos st1) (rem st1) (src st1))
                     size backlog have_bytes consume_bytes d true (Some p) []
          | None =>
            if size <=? have_bytes + avail st1 then
              finalize st1 size backlog have_bytes consume_bytes d true None next_chunk
            else
              ru_loop f (mk next_chunk ncl 0 (rem st1) (src st1)) d size
                      (backlog ++ skipn (bpos st1) (buf st1))
                      (have_bytes + avail st1) consume_bytes
          end
    end
  end.

Inductive ures := UOk (b : bytes) | UDelimErr | UValErr.

Definition read_until_ (st : state) (d : bytes) (size : nat) (consume : bool) : ures * state :=
  let dl := length d in
  let consume_bytes := if consume then dl else 0 in
  if (dl =? 0) || (cs <? dl) then (UValErr, st) else
  let st0 := if size mod cs =? 0 then fill_buffer st else st in
  match ru_loop (Datatypes.S (rem st0)) st0 d size [] 0 consume_bytes with
  | (Some b, st1) => (UOk b, st1)
  | (None, st1) => (UDelimErr, st1)
  end.

(* pipe: while True: chunk = self.read(chunk_size) ... *)
Fixpoint pipe_loop (fuel : nat) (st : state) (acc : bytes) : bytes * state :=
  match fuel with
  | 0 => (acc, st)
  | Datatypes.S f =>
    let '(chunk, st1) := read st (Some cs) in
    match chunk with
    | [] => (acc, st1)
    | _ => pipe_loop f st1 (acc ++ chunk)
    end
  end.

Definition pipe (st : state) : bytes * state :=
  pipe_loop (Datatypes.S (rem st + avail st)) st [].

(* pipe_until's loop; [remaining] is decremented by chunk_size whatever was returned *)
Fixpoint pu_loop (fuel : nat) (st : state) (d : bytes) (remaining : nat) (acc : bytes)
  : option bytes * state :=   (* None = ValueError *)
  match fuel with
  | 0 => (Some acc, st)
  | Datatypes.S f =>
    if remaining =? 0 then (Some acc, st) else
    match read_until_ st d (Nat.min cs remaining) false with
    | (UOk [], st1) => (Some acc, st1)
    | (UOk chunk, st1) => pu_loop f st1 d (remaining - cs) (acc ++ chunk)
    | (_, st1) => (None, st1)
    end
  end.

Definition pipe_until (st : state) (d : bytes) (consume : bool) (size : option nat)
  : result * state :=
  let remaining := normalize_size st size in
  match pu_loop (Datatypes.S remaining) st d remaining [] with
  | (None, st1) => (RValErr, st1)
  | (Some written, st1) =>
    if consume then
      let '(pk, st2) := peek st1 (Some (length d)) in
      if str_eqb pk d
      then (RBytes written, mk (buf st2) (blen st2) (bpos st2 + length d) (rem st2) (src st2))
      else (RDelimErr written, st2)
    else (RBytes written, st1)
  end.

Definition read_until (st : state) (d : bytes) (size : option nat) (consume : bool)
  : result * state :=
  let read_size := normalize_size st size in
  if read_size <=? max_join_size then
    match read_until_ st d read_size consume with
    | (UOk b, st1) => (RBytes b, st1)
    | (UDelimErr, st1) => (RDelimErr [], st1)
    | (UValErr, st1) => (RValErr, st1)
    end
  else
    match pipe_until st d consume (Some read_size) with
    | (RDelimErr _, st1) => (RDelimErr [], st1)     (* the BytesIO is lost with the exception *)
    | r => r
    end.

Definition readline (st : state) (size : option nat) : bytes * state :=
  let size := normalize_size st size in
  match read_until st [LF] (Some size) false with
  | (RBytes result, st1) =>
    if length result <? size then
      let '(x, st2) := read st1 (Some 1) in (result ++ x, st2)
    else (result, st1)
  | (_, st1) => ([], st1)      (* unreachable for chunk_size >= 1: b'\n' is a valid delimiter *)
  end.

Fixpoint readlines_loop (fuel : nat) (st : state) (hint : option nat) (got : nat)
  : list bytes * state :=
  match fuel with
  | 0 => ([], st)
  | Datatypes.S f =>
    let '(line, st1) := readline st None in
    match line with
    | [] => ([], st1)
    | _ =>
      let got' := got + length line in
      let stop := match hint with Some h => h <=? got' | None => false end in
      if stop then ([line], st1)
      else let '(ls, st2) := readlines_loop f st1 hint got' in (line :: ls, st2)
    end
  end.

Definition readlines (st : state) (hint : option nat) : list bytes * state :=
  readlines_loop (Datatypes.S (rem st + avail st)) st hint 0.

Definition run_op (st : state) (o : op) : result * state :=
  match o with
  | ORead size => let '(b, st1) := read st size in (RBytes b, st1)
  | OPeek size => let '(b, st1) := peek st size in (RBytes b, st1)
  | OReadUntil d size consume => read_until st d size consume
  | OPipe => let '(b, st1) := pipe st in (RBytes b, st1)
  | OPipeUntil d consume => pipe_until st d consume None
  | OReadline size => let '(b, st1) := readline st size in (RBytes b, st1)
  | OReadlines hint => let '(l, st1) := readlines st hint in (RLines l, st1)
  | OExhaust => let '(_, st1) := pipe st in (RBytes [], st1)
  end.

(* delimit(): the child's read function is functools.partial(self.read_until, delimiter),
   its max_stream_len is self._normalize_size(None) *)
Definition child_rd (d : bytes) (st : state) (n : nat) : bytes * state :=
  match read_until st d (Some n) false with
  | (RBytes b, st1) => (b, st1)
  | (_, st1) => ([], st1)
  end.

Definition child_max (st : state) : nat := normalize_size st None.

End Sync.

Arguments mk {S}.
Arguments buf {S}.
Arguments blen {S}.
Arguments bpos {S}.
Arguments rem {S}.
Arguments src {S}.

(* ---- the scripted top-level source: data + a schedule of short reads.  Entry k of the
   schedule caps the next read at k+1 bytes (a conforming source returns b'' only at EOF) *)
Record source := { sdata : bytes; sched : list nat }.

Definition src_read (s : source) (n : nat) : bytes * source :=
  let k := match sched s with [] => n | c :: _ => Nat.min n (Datatypes.S c) end in
  (firstn k (sdata s), {| sdata := skipn k (sdata s); sched := tl (sched s) |}).

(* ---- histories on up to two nested delimited sub-readers *)
Section SyncHistory.
Variable cs : nat.

Definition st0 := state source.
Definition st1 := state st0.
Definition st2 := state st1.

Definition rd0 := src_read.
Definition rd1 (d1 : bytes) : st0 -> nat -> bytes * st0 := child_rd source rd0 cs true d1.
Definition rd2 (d1 d2 : bytes) : st1 -> nat -> bytes * st1 := child_rd st0 (rd1 d1) cs true d2.

Inductive sstack :=
| K0 (s : st0)
| K1 (d1 : bytes) (s : st1)
| K2 (d1 d2 : bytes) (s : st2).

Definition sync_step (k : sstack) (h : hop) : result * sstack :=
  match h, k with
  | HOp o, K0 s => let '(r, s') := run_op source rd0 cs true s o in (r, K0 s')
  | HOp o, K1 d1 s => let '(r, s') := run_op st0 (rd1 d1) cs true s o in (r, K1 d1 s')
  | HOp o, K2 d1 d2 s => let '(r, s') := run_op st1 (rd2 d1 d2) cs true s o in (r, K2 d1 d2 s')
  | HDelimit d, K0 s => (RBytes [], K1 d (init st0 (child_max source s) s))
  | HDelimit d, K1 d1 s => (RBytes [], K2 d1 d (init st1 (child_max st0 s) s))
  | HDelimit d, K2 _ _ _ => (RBytes [], k)
  | HPop, K0 _ => (RBytes [], k)
  | HPop, K1 d1 s => let '(_, s') := pipe st0 (rd1 d1) cs true s in (RBytes [], K0 (src s'))
  | HPop, K2 d1 d2 s => let '(_, s') := pipe st1 (rd2 d1 d2) cs true s in (RBytes [], K1 d1 (src s'))
  end.

Fixpoint sync_run (k : sstack) (h : list hop) : list result :=
  match h with
  | [] => []
  | x :: h' => let '(r, k') := sync_step k x in r :: sync_run k' h'
  end.

Definition sync_history (maxlen : nat) (data : bytes) (schedule : list nat) (h : list hop)
  : list result :=
  sync_run (K0 (init source maxlen {| sdata := data; sched := schedule |})) h.

End SyncHistory.
