(* C14 — the boolean oracle the harness evaluates on what the REAL readers returned:
   step by step, the observation must be what the flat cursor (Spec.v) gives.
   For the sync reader only the results are observable; for the async reader also tell()
   (must equal the cursor position) and eof (may only be reported at the end). *)
From Coq Require Import ZArith NArith List Bool Arith Lia.
From Falcon.lib Require Import PyStr.
From Falcon.C14 Require Import Spec.
Import ListNotations.
Local Open Scope nat_scope.

Definition obs_okb (sync : bool) (impl spec : obs) : bool :=
  result_eqb (o_res impl) (o_res spec) &&
  (sync || ((o_tell impl =? o_tell spec) && implb (o_end impl) (o_end spec))).

(* index of the first step whose observation is not the cursor's *)
Fixpoint first_bad (i : nat) (sync : bool) (impl spec : list obs) : option nat :=
  match impl, spec with
  | [], [] => None
  | a :: impl', s :: spec' =>
    if obs_okb sync a s then first_bad (S i) sync impl' spec' else Some i
  | _, _ => Some i
  end.

Definition oracle (sync : bool) (cs maxlen : nat) (data : bytes) (h : list hop)
           (impl : list obs) : option nat :=
  first_bad 0 sync impl (spec_history cs maxlen data h).

(* how a bare result list (sync reader) is presented to the oracle *)
Definition as_obs (r : result) : obs := {| o_res := r; o_tell := 0; o_end := false |}.
