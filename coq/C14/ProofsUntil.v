(* C14 — refinement proofs for the delimited reads of the sync reader (_read_until,
   _finalize_read_until, read_until, pipe_until, readline, readlines, delimit) against the
   flat cursor of Spec.v, for any conforming source. *)
From Coq Require Import ZArith NArith List Bool Arith Lia.
From Falcon.lib Require Import PyStr.
From Falcon.C14 Require Import Spec Model ProofsDefs ProofsSync ProofsFind.
Import ListNotations.
Local Open Scope nat_scope.

(* operations whose delimiter (if any) has a length within [1, chunk_size] *)
Definition valid_op (cs : nat) (o : op) : bool :=
  match o with
  | OReadUntil d _ _ | OPipeUntil d _ => negb (bad_delim cs d)
  | _ => true
  end.

Lemma bad_delim_false_iff : forall cs (d : bytes),
  bad_delim cs d = false <-> (1 <= length d /\ length d <= cs).
Proof.
  intros cs d. unfold bad_delim.
  destruct (Nat.eqb_spec (length d) 0); destruct (Nat.ltb_spec cs (length d)); cbn [orb];
    split; intros; try discriminate; try lia; reflexivity.
Qed.

(* ------------------------------------------------------------------ every operation leaves a suffix *)
Lemma suffix_norm : forall (v v' : bytes) k, v' = skipn k v -> v' = skipn (length v - length v') v.
Proof.
  intros v v' k ->. rewrite skipn_length.
  destruct (Nat.le_gt_cases k (length v)) as [H|H].
  - replace (length v - (length v - k)) with k by lia. reflexivity.
  - rewrite skipn_all2 by lia. replace (length v - (length v - k)) with (length v) by lia.
    rewrite skipn_all. reflexivity.
Qed.

Lemma sp_readlines_suffix : forall fuel hint got rest ls r',
  sp_readlines fuel hint got rest = (ls, r') -> exists k, r' = skipn k rest.
Proof.
  induction fuel as [|f IH]; intros hint got rest ls r' H; cbn [sp_readlines] in H.
  - inversion H. exists 0. reflexivity.
  - unfold sp_readline in H.
    set (n := match find [LF] rest with
              | Some i => Nat.min (lim None rest) (Datatypes.S i)
              | None => lim None rest
              end) in H.
    destruct (firstn n rest) as [|x line].
    + inversion H. exists n. reflexivity.
    + destruct (match hint with Some h => h <=? got + length (x :: line) | None => false end).
      * inversion H. exists n. reflexivity.
      * destruct (sp_readlines f hint (got + length (x :: line)) (skipn n rest)) as [ls2 r2] eqn:E.
        inversion H; subst ls r'. destruct (IH _ _ _ _ _ E) as [k ->].
        exists (n + k). rewrite skipn_add. reflexivity.
Qed.

Lemma sp_op_suffix_all : forall cs o v r v', sp_op cs o v = (r, v') ->
  v' = skipn (length v - length v') v.
Proof.
  intros cs o v r v' H. destruct o; cbn [sp_op] in H.
  - unfold sp_read in H. injection H as Hr Hv; subst v'. eapply suffix_norm. reflexivity.
  - injection H as Hr Hv; subst v'. apply (suffix_norm v v 0). reflexivity.
  - destruct (bad_delim cs d); [injection H as Hr Hv; subst v'; apply (suffix_norm v v 0); reflexivity|].
    unfold sp_until in H. destruct consume.
    + destruct (startswith (skipn (upto d size v) v) d); (injection H as Hr Hv; subst v').
      * rewrite skipn_add. eapply suffix_norm. reflexivity.
      * eapply suffix_norm. reflexivity.
    + injection H as Hr Hv; subst v'. eapply suffix_norm. reflexivity.
  - injection H as Hr Hv; subst v'. apply (suffix_norm v [] (length v)). symmetry. apply skipn_all.
  - destruct (bad_delim cs d); [injection H as Hr Hv; subst v'; apply (suffix_norm v v 0); reflexivity|].
    unfold sp_until in H. destruct consume.
    + destruct (startswith (skipn (upto d None v) v) d); (injection H as Hr Hv; subst v').
      * rewrite skipn_add. eapply suffix_norm. reflexivity.
      * eapply suffix_norm. reflexivity.
    + injection H as Hr Hv; subst v'. eapply suffix_norm. reflexivity.
  - unfold sp_readline in H. injection H as Hr Hv; subst v'. eapply suffix_norm. reflexivity.
  - destruct (sp_readlines (Datatypes.S (length v)) hint 0 v) as [ls r2] eqn:E. injection H as Hr Hv; subst v'.
    destruct (sp_readlines_suffix _ _ _ _ _ _ E) as [k Hk]. eapply suffix_norm. exact Hk.
  - injection H as Hr Hv; subst v'. apply (suffix_norm v [] (length v)). symmetry. apply skipn_all.
Qed.

Section UntilProofs.
Variable S : Type.
Variable rd : S -> nat -> bytes * S.
Variable sabs : S -> bytes.
Variable cs : nat.
Variable P : S -> Prop.
Variable NT : Prop.
Hypothesis Hsrc : good_source_on P rd sabs.
Hypothesis cs_pos : 0 < cs.
Notation tail := (tail S sabs).
Notation abs := (abs S sabs).
Notation srcok := (srcok S sabs P NT).
Notation Inv := (InvP S sabs P NT).

(* the basic operations, proved in ProofsSync.v, restated for this section's source *)
Lemma perform_read_spec : forall st n out st', srcok st -> perform_read S rd st n = (out, st') ->
   out = firstn n (tail st) /\ tail st' = skipn n (tail st) /\ buf st' = buf st /\
   blen st' = blen st /\ bpos st' = bpos st /\ srcok st'.
Proof. exact (ProofsSync.perform_read_spec S rd sabs P NT Hsrc). Qed.
Lemma fill_buffer_spec : forall st, Inv st -> let st' := fill_buffer S rd cs st in
   Inv st' /\ abs st' = abs st /\ (cs <= avail S st' \/ tail st' = []).
Proof. exact (ProofsSync.fill_buffer_spec S rd sabs cs P NT Hsrc). Qed.
Lemma peek_spec : forall st size out st', Inv st -> peek S rd cs st size = (out, st') ->
   out = sp_peek cs size (abs st) /\ abs st' = abs st /\ Inv st'.
Proof. exact (ProofsSync.peek_spec S rd sabs cs P NT Hsrc). Qed.
Lemma read__spec : forall st n out st', Inv st -> read_ S rd cs true st n = (out, st') ->
   out = firstn n (abs st) /\ abs st' = skipn n (abs st) /\ Inv st'.
Proof. exact (ProofsSync.read__spec S rd sabs cs P NT Hsrc). Qed.
Lemma normalize_size_spec : forall st size, Inv st ->
   firstn (normalize_size S st size) (abs st) = firstn (lim size (abs st)) (abs st) /\
   skipn (normalize_size S st size) (abs st) = skipn (lim size (abs st)) (abs st).
Proof. exact (ProofsSync.normalize_size_spec S sabs P NT). Qed.
Lemma read_spec : forall st size out st', Inv st -> read S rd cs true st size = (out, st') ->
   (out, abs st') = sp_read size (abs st) /\ Inv st'.
Proof. exact (ProofsSync.read_spec S rd sabs cs P NT Hsrc). Qed.

(* ------------------------------------------------------------------ 0. small facts *)
Lemma pr_loop_rem_le : forall fuel size cl result r s res r' s',
  pr_loop S rd fuel size cl result r s = (res, r', s') -> r' <= r.
Proof.
  induction fuel as [|f IH]; intros size cl result r s res r' s' H; cbn [pr_loop] in H.
  - inversion H. lia.
  - destruct (size - cl =? 0); [inversion H; lia|].
    destruct (rd s (size - cl)) as [chunk s1].
    destruct (length chunk =? 0); [inversion H; lia|].
    apply IH in H. lia.
Qed.

(* every _perform_read that leaves budget has taken at least one byte off it *)
Lemma perform_read_rem : forall st n out st', 0 < n ->
  perform_read S rd st n = (out, st') -> rem st' = 0 \/ rem st' < rem st.
Proof.
  intros st n out st' Hn H. unfold perform_read in H.
  destruct (Nat.eqb_spec (Nat.min n (rem st)) 0) as [Hm|Hm].
  - inversion H; subst. left. lia.
  - destruct (rd (src st) (Nat.min n (rem st))) as [chunk s1].
    destruct (Nat.eqb_spec (length chunk) (Nat.min n (rem st))) as [Hc|Hc].
    + inversion H; subst. cbn [rem]. lia.
    + destruct (Nat.eqb_spec (length chunk) 0) as [Hc0|Hc0].
      * inversion H; subst. cbn [rem]. lia.
      * destruct (pr_loop S rd (Nat.min n (rem st)) (Nat.min n (rem st)) (length chunk) chunk
                    (rem st - length chunk) s1) as [[res r2] s2] eqn:El.
        inversion H; subst. cbn [rem]. apply pr_loop_rem_le in El. lia.
Qed.

Lemma tail_rem0 : forall st, rem st = 0 -> tail st = [].
Proof. intros st H. unfold ProofsDefs.tail. rewrite H. reflexivity. Qed.

Lemma abs_length_buf : forall st, Inv st -> length (skipn (bpos st) (buf st)) = avail S st.
Proof. intros st [[Hl Hp] _]. rewrite skipn_length. unfold avail. lia. Qed.

(* _buffer_pos += k *)
Lemma advance_spec : forall st k, Inv st -> k <= avail S st ->
  let st' := mk (buf st) (blen st) (bpos st + k) (rem st) (src st) in
  Inv st' /\ abs st' = skipn k (abs st).
Proof.
  intros st k HI Hk. pose proof (abs_length_buf st HI) as Hlen.
  destruct HI as [[Hl Hp] Hok]. unfold avail in *. split.
  - split; [split; cbn [buf blen bpos]; lia | exact Hok].
  - unfold ProofsDefs.abs, ProofsDefs.tail. cbn [buf blen bpos rem src].
    rewrite skipn_app_le by lia. rewrite skipn_add. reflexivity.
Qed.

(* _read served from the buffer *)
Lemma read__in_buffer_strict : forall st n, n < avail S st ->
  read_ S rd cs true st n =
  (firstn n (skipn (bpos st) (buf st)), mk (buf st) (blen st) (bpos st + n) (rem st) (src st)).
Proof.
  intros st n Hn. unfold read_, avail in *.
  destruct (Nat.leb_spec n (blen st - bpos st)) as [_|Hc]; [|lia].
  destruct (Nat.eqb_spec n (blen st)) as [He|He]; [|reflexivity].
  destruct (Nat.eqb_spec (bpos st) 0) as [Hz|Hz]; [lia|reflexivity].
Qed.

Lemma read__in_buffer : forall st n out st', Inv st -> n <= avail S st ->
  read_ S rd cs true st n = (out, st') ->
  out = firstn n (skipn (bpos st) (buf st)) /\
  skipn (bpos st') (buf st') = skipn n (skipn (bpos st) (buf st)) /\
  rem st' = rem st /\ src st' = src st /\ Inv st'.
Proof.
  intros st n out st' HI Hn H. pose proof HI as [[Hl Hp] Hok]. unfold read_, avail in *.
  destruct (Nat.leb_spec n (blen st - bpos st)) as [_|Hc]; [|lia].
  destruct (Nat.eqb_spec n (blen st)) as [He|He];
    [destruct (Nat.eqb_spec (bpos st) 0) as [Hz|Hz]|]; cbn [andb] in H;
    inversion H; subst out st'; cbn [buf blen bpos rem src].
  - rewrite Hz. cbn [skipn]. rewrite firstn_all2, skipn_all2 by lia.
    split; [|split; [|split; [|split; [|split; [split|exact Hok]]]]]; cbn [buf blen bpos]; auto.
  - rewrite skipn_add.
    split; [|split; [|split; [|split; [|split; [split|exact Hok]]]]]; cbn [buf blen bpos]; auto; lia.
  - rewrite skipn_add.
    split; [|split; [|split; [|split; [|split; [split|exact Hok]]]]]; cbn [buf blen bpos]; auto; lia.
Qed.

Lemma peek_out : forall st size out st', peek S rd cs st size = (out, st') ->
  out = firstn (peek_size cs size) (skipn (bpos st') (buf st')).
Proof. intros st size out st' H. unfold peek in H. inversion H. reflexivity. Qed.

(* ------------------------------------------------------------------ 1. _finalize_read_until *)
(* the three stages after the _read, as functions of their own *)
Definition fin_dpos (st : state S) (d : bytes) (delim_given : bool) (dpos : option nat)
  : option nat :=
  match dpos with
  | None => if delim_given then find_from d (buf st) (bpos st) else None
  | Some p => Some p
  end.

Definition fin_size (st : state S) (size have_bytes : nat) (dpos : option nat) : nat :=
  match dpos with
  | Some p => Nat.min size (have_bytes + p - bpos st)
  | None => size
  end.

Definition fin_splice (st1 : state S) (next_chunk : bytes) : state S :=
  if 0 <? length next_chunk then
    if blen st1 =? 0 then mk next_chunk (length next_chunk) (bpos st1) (rem st1) (src st1)
    else mk (skipn (bpos st1) (buf st1) ++ next_chunk)
            (blen st1 - bpos st1 + length next_chunk) 0 (rem st1) (src st1)
  else st1.

Definition fin_consume (st2 : state S) (consume_bytes : nat) (d : bytes) (dpos : option nat)
           (ret : bytes) : option bytes * state S :=
  if 0 <? consume_bytes then
    match dpos with
    | None =>
      let '(pk, st3) := peek S rd cs st2 (Some consume_bytes) in
      if str_eqb pk d
      then (Some ret, mk (buf st3) (blen st3) (bpos st3 + consume_bytes) (rem st3) (src st3))
      else (None, st3)
    | Some p =>
      if bpos st2 =? p
      then (Some ret, mk (buf st2) (blen st2) (bpos st2 + consume_bytes) (rem st2) (src st2))
      else (None, st2)
    end
  else (Some ret, st2).

Lemma finalize_eq : forall st size backlog hb cb d dg dpos nc,
  length backlog = hb ->
  finalize S rd cs true st size backlog hb cb d dg dpos nc =
  let dpos' := fin_dpos st d dg dpos in
  let '(x, st1) := read_ S rd cs true st (fin_size st size hb dpos' - hb) in
  fin_consume (fin_splice st1 nc) cb d dpos' (backlog ++ x).
Proof.
  intros st size backlog hb cb d dg dpos nc Hb. unfold finalize.
  fold (fin_dpos st d dg dpos). set (dpos' := fin_dpos st d dg dpos).
  fold (fin_size st size hb dpos'). cbv zeta.
  destruct (Nat.eqb_spec hb 0) as [Hz|Hz].
  - subst hb. destruct backlog; [|discriminate]. rewrite Hz, Nat.sub_0_r. cbn [app].
    destruct (read_ S rd cs true st (fin_size st size 0 dpos')) as [x st1]. reflexivity.
  - destruct (read_ S rd cs true st (fin_size st size hb dpos' - hb)) as [x st1]. reflexivity.
Qed.

(* the outcome of a delimited read of [n] bytes off the cursor [A] *)
Definition post' (A d : bytes) (consume : bool) (n : nat) (r : option bytes) (st' : state S)
  : Prop :=
  Inv st' /\
  if consume then
    if startswith (skipn n A) d
    then abs st' = skipn (length d) (skipn n A) /\ r = Some (firstn n A)
    else abs st' = skipn n A /\ r = None
  else abs st' = skipn n A /\ r = Some (firstn n A).

Lemma fin_splice_spec : forall st1 nc, Inv st1 ->
  Inv (fin_splice st1 nc) /\
  abs (fin_splice st1 nc) = skipn (bpos st1) (buf st1) ++ nc ++ tail st1.
Proof.
  intros st1 nc [[Hl Hp] Hok]. unfold fin_splice.
  destruct (Nat.ltb_spec 0 (length nc)) as [Hn|Hn].
  - destruct (Nat.eqb_spec (blen st1) 0) as [Hz|Hz].
    + assert (Hb : buf st1 = []) by (destruct (buf st1); [reflexivity | simpl in Hl; lia]).
      assert (Hp0 : bpos st1 = 0) by lia.
      split; [split; [split; cbn [buf blen bpos]; lia | exact Hok]|].
      unfold ProofsDefs.abs, ProofsDefs.tail. cbn [buf blen bpos rem src].
      rewrite Hb, Hp0. cbn [skipn app]. reflexivity.
    + split.
      * split; [split; cbn [buf blen bpos]; [|lia]; rewrite app_length, skipn_length; lia
               | exact Hok].
      * unfold ProofsDefs.abs, ProofsDefs.tail. cbn [buf blen bpos rem src skipn].
        rewrite <- app_assoc. reflexivity.
  - assert (Hnc : nc = []) by (destruct nc; [reflexivity | simpl in Hn; lia]).
    subst nc. split; [split; [split; assumption | exact Hok]|]. reflexivity.
Qed.

(* the consume step when the delimiter position is not known: peek and compare *)
Lemma fin_consume_peek : forall st2 (d : bytes) (consume : bool) ret r st' A n,
  Inv st2 -> 1 <= length d -> length d <= cs ->
  fin_consume st2 (if consume then length d else 0) d None ret = (r, st') ->
  abs st2 = skipn n A -> ret = firstn n A ->
  post' A d consume n r st'.
Proof.
  intros st2 d consume ret r st' A n HI Hd1 Hd2 H Habs Hret. subst ret. unfold fin_consume in H.
  unfold post'. destruct consume.
  - destruct (Nat.ltb_spec 0 (length d)) as [_|Hc]; [|lia].
    destruct (peek S rd cs st2 (Some (length d))) as [pk st3] eqn:Epk.
    pose proof (peek_out _ _ _ _ Epk) as Hout.
    destruct (peek_spec _ _ _ _ HI Epk) as (Hpk & Habs3 & HI3).
    unfold sp_peek in Hpk. unfold peek_size in Hout.
    destruct (Nat.ltb_spec cs (length d)) as [Hc|_]; [lia|].
    rewrite <- Habs.
    destruct (str_eqb pk d) eqn:Eeq.
    + apply str_eqb_eq in Eeq. rewrite Eeq in Hpk, Hout. inversion H; subst r st'.
      assert (Hav : length d <= avail S st3).
      { rewrite <- (abs_length_buf st3 HI3). rewrite Hout at 1. rewrite firstn_length. lia. }
      destruct (advance_spec st3 (length d) HI3 Hav) as [HI' Habs'].
      assert (Hsw : startswith (abs st2) d = true) by (apply startswith_firstn; auto).
      rewrite Hsw. split; [exact HI'|]. split; [|reflexivity].
      rewrite Habs', Habs3. reflexivity.
    + inversion H; subst r st'.
      assert (Hsw : startswith (abs st2) d = false).
      { apply not_true_iff_false. intro Hs. apply startswith_firstn in Hs.
        apply str_eqb_neq in Eeq. congruence. }
      rewrite Hsw. split; [exact HI3|]. split; [exact Habs3 | reflexivity].
  - cbn in H. inversion H; subst r st'. split; [exact HI|]. split; [exact Habs | reflexivity].
Qed.

(* the consume step when the delimiter position is known: compare positions *)
Lemma fin_consume_pos : forall st2 (d : bytes) (consume : bool) p ret r st' A n,
  Inv st2 -> 1 <= length d -> p + length d <= blen st2 ->
  fin_consume st2 (if consume then length d else 0) d (Some p) ret = (r, st') ->
  abs st2 = skipn n A -> ret = firstn n A ->
  (bpos st2 = p <-> startswith (skipn n A) d = true) ->
  post' A d consume n r st'.
Proof.
  intros st2 d consume p ret r st' A n HI Hd1 Hp H Habs Hret Hiff. subst ret. unfold fin_consume in H.
  unfold post'. destruct consume.
  - destruct (Nat.ltb_spec 0 (length d)) as [_|Hc]; [|lia].
    destruct (Nat.eqb_spec (bpos st2) p) as [He|He].
    + inversion H; subst r st'. rewrite (proj1 Hiff He).
      assert (Hav : length d <= avail S st2) by (unfold avail; lia).
      destruct (advance_spec st2 (length d) HI Hav) as [HI' Habs'].
      split; [exact HI'|]. split; [|reflexivity]. rewrite Habs', Habs. reflexivity.
    + inversion H; subst r st'.
      destruct (startswith (skipn n A) d) eqn:Es; [exfalso; apply He, Hiff; reflexivity|].
      split; [exact HI|]. split; [exact Habs | reflexivity].
  - cbn in H. inversion H; subst r st'. split; [exact HI|]. split; [exact Habs | reflexivity].
Qed.

Lemma skipn_backlog : forall (backlog X : bytes) hb m, length backlog = hb -> hb <= m ->
  skipn m (backlog ++ X) = skipn (m - hb) X.
Proof. intros backlog X hb m Hb Hm. rewrite skipn_app_ge by lia. rewrite Hb. reflexivity. Qed.

Lemma firstn_backlog : forall (backlog X : bytes) hb m, length backlog = hb -> hb <= m ->
  firstn m (backlog ++ X) = backlog ++ firstn (m - hb) X.
Proof. intros backlog X hb m Hb Hm. rewrite firstn_app_ge by lia. rewrite Hb. reflexivity. Qed.

(* F1: the delimiter lies in the buffer, at offset [i] from the position *)
Lemma finalize_found : forall st size backlog hb (consume : bool) (d : bytes) dg dpos i r st',
  Inv st -> 1 <= length d -> length backlog = hb -> hb <= size ->
  find d (skipn (bpos st) (buf st)) = Some i ->
  (dpos = Some (bpos st + i) \/ (dpos = None /\ dg = true)) ->
  find d (backlog ++ abs st) = Some (hb + i) ->
  finalize S rd cs true st size backlog hb (if consume then length d else 0) d dg dpos []
    = (r, st') ->
  post' (backlog ++ abs st) d consume (Nat.min size (hb + i)) r st'.
Proof.
  intros st size backlog hb consume d dg dpos i r st' HI Hd1 Hb Hhb Hf Hdp HfA H.
  rewrite (finalize_eq _ _ _ _ _ _ _ _ _ Hb) in H.
  assert (Edp : fin_dpos st d dg dpos = Some (bpos st + i)).
  { destruct Hdp as [->|[-> ->]]; [reflexivity|]. unfold fin_dpos, find_from. rewrite Hf.
    reflexivity. }
  rewrite Edp in H. cbv zeta in H. unfold fin_size in H.
  replace (hb + (bpos st + i) - bpos st) with (hb + i) in H by lia.
  set (n := Nat.min size (hb + i)) in *.
  pose proof (abs_length_buf st HI) as Hlen.
  assert (Hocc : occ d (skipn (bpos st) (buf st)) i) by (apply find_spec in Hf; tauto).
  apply (occ_bound _ _ _ Hd1) in Hocc. rewrite Hlen in Hocc.
  assert (Hn : n - hb < avail S st) by lia.
  rewrite (read__in_buffer_strict st (n - hb) Hn) in H.
  change (fin_splice ?s []) with s in H.
  assert (Hav : n - hb <= avail S st) by lia.
  destruct (advance_spec st (n - hb) HI Hav) as [HI2 Habs2].
  pose proof HI as [[Hl Hp] _].
  eapply fin_consume_pos; [exact HI2 | exact Hd1 | | exact H | | |].
  - cbn [blen]. unfold avail in Hocc. lia.
  - rewrite Habs2. symmetry. apply skipn_backlog; [exact Hb | lia].
  - rewrite (firstn_backlog _ _ hb) by (auto; lia). f_equal.
    unfold ProofsDefs.abs. rewrite firstn_app_le by lia. reflexivity.
  - cbn [bpos]. apply find_spec in HfA as [HoA HltA]. split.
    + intro He. replace n with (hb + i) by lia. exact HoA.
    + intro Hs. destruct (Nat.eq_dec n (hb + i)) as [E|E]; [lia|].
      exfalso. apply (HltA n); [lia | exact Hs].
Qed.

(* F2: no delimiter in the buffer, nothing to splice: [size] bytes (or all there is) *)
Lemma finalize_nodelim : forall st size backlog hb (consume : bool) (d : bytes) r st',
  Inv st -> 1 <= length d -> length d <= cs -> length backlog = hb -> hb <= size ->
  find d (skipn (bpos st) (buf st)) = None ->
  finalize S rd cs true st size backlog hb (if consume then length d else 0) d true None []
    = (r, st') ->
  post' (backlog ++ abs st) d consume size r st'.
Proof.
  intros st size backlog hb consume d r st' HI Hd1 Hd2 Hb Hhb Hf H.
  rewrite (finalize_eq _ _ _ _ _ _ _ _ _ Hb) in H.
  assert (Edp : fin_dpos st d true None = None).
  { unfold fin_dpos, find_from. rewrite Hf. reflexivity. }
  rewrite Edp in H. cbv zeta in H. unfold fin_size in H.
  destruct (read_ S rd cs true st (size - hb)) as [x st1] eqn:Er.
  destruct (read__spec _ _ _ _ HI Er) as (Hx & Habs1 & HI1).
  change (fin_splice ?s []) with s in H.
  eapply fin_consume_peek; [exact HI1 | exact Hd1 | exact Hd2 | exact H | |].
  - rewrite Habs1. symmetry. apply skipn_backlog; assumption.
  - rewrite (firstn_backlog _ _ hb) by assumption. rewrite Hx. reflexivity.
Qed.

(* F3: no delimiter in the buffer, the request is covered by the buffer, and the chunk read
   ahead is spliced back *)
Lemma finalize_splice : forall st size backlog hb (consume : bool) (d : bytes) nc r st',
  Inv st -> 1 <= length d -> length d <= cs -> length backlog = hb -> hb <= size ->
  find d (skipn (bpos st) (buf st)) = None ->
  size - hb <= avail S st ->
  finalize S rd cs true st size backlog hb (if consume then length d else 0) d true None nc
    = (r, st') ->
  post' (backlog ++ skipn (bpos st) (buf st) ++ nc ++ tail st) d consume size r st'.
Proof.
  intros st size backlog hb consume d nc r st' HI Hd1 Hd2 Hb Hhb Hf Hsz H.
  rewrite (finalize_eq _ _ _ _ _ _ _ _ _ Hb) in H.
  assert (Edp : fin_dpos st d true None = None).
  { unfold fin_dpos, find_from. rewrite Hf. reflexivity. }
  rewrite Edp in H. cbv zeta in H. unfold fin_size in H.
  destruct (read_ S rd cs true st (size - hb)) as [x st1] eqn:Er.
  destruct (read__in_buffer _ _ _ _ HI Hsz Er) as (Hx & Hbuf1 & Hrem1 & Hsrc1 & HI1).
  destruct (fin_splice_spec st1 nc HI1) as [HI2 Habs2].
  pose proof (abs_length_buf st HI) as Hlen.
  eapply fin_consume_peek; [exact HI2 | exact Hd1 | exact Hd2 | exact H | |].
  - rewrite Habs2, Hbuf1. rewrite (skipn_backlog _ _ hb) by assumption.
    rewrite skipn_app_le by lia. unfold ProofsDefs.tail. rewrite Hrem1, Hsrc1. reflexivity.
  - rewrite (firstn_backlog _ _ hb) by assumption. rewrite firstn_app_le by lia.
    rewrite Hx. reflexivity.
Qed.

(* ------------------------------------------------------------------ 2. the loop of _read_until *)
Lemma found_eq : forall st (d : bytes), Inv st -> 1 <= length d ->
  (if bpos st <? blen st then find_from d (buf st) (bpos st) else None)
  = find_from d (buf st) (bpos st).
Proof.
  intros st d [[Hl Hp] _] Hd. destruct (Nat.ltb_spec (bpos st) (blen st)) as [_|Hge]; [reflexivity|].
  unfold find_from. rewrite skipn_all2 by lia. rewrite find_nil_l by assumption. reflexivity.
Qed.

Lemma post'_min : forall A d consume n r st',
  post' A d consume n r st' -> post' A d consume (Nat.min n (length A)) r st'.
Proof.
  intros A d consume n r st' H. unfold post' in *.
  rewrite firstn_min_length, skipn_min_length. exact H.
Qed.

(* the buffer with the chunk read ahead appended (the EOF and border-hit exits) *)
Definition appended (st1 : state S) (nc : bytes) : state S :=
  mk (buf st1 ++ nc) (blen st1 + length nc) (bpos st1) (rem st1) (src st1).

Lemma appended_spec : forall st1 nc, Inv st1 ->
  Inv (appended st1 nc) /\
  skipn (bpos (appended st1 nc)) (buf (appended st1 nc)) = skipn (bpos st1) (buf st1) ++ nc /\
  abs (appended st1 nc) = skipn (bpos st1) (buf st1) ++ nc ++ tail st1.
Proof.
  intros st1 nc [[Hl Hp] Hok]. unfold appended. split; [|split].
  - split; [split; cbn [buf blen bpos]; [rewrite app_length|]; lia | exact Hok].
  - cbn [buf bpos]. apply skipn_app_le. lia.
  - unfold ProofsDefs.abs, ProofsDefs.tail. cbn [buf bpos rem src].
    rewrite skipn_app_le by lia. rewrite <- app_assoc. reflexivity.
Qed.

(* the chunk read ahead becomes the buffer (the two continuing branches) *)
Definition fresh (st1 : state S) (nc : bytes) : state S :=
  mk nc (length nc) 0 (rem st1) (src st1).

Lemma fresh_spec : forall st1 nc, srcok st1 ->
  Inv (fresh st1 nc) /\ abs (fresh st1 nc) = nc ++ tail st1 /\ rem (fresh st1 nc) = rem st1.
Proof.
  intros st1 nc Hok. unfold fresh. split; [|split].
  - split; [split; cbn [buf blen bpos]; lia | exact Hok].
  - reflexivity.
  - reflexivity.
Qed.

Lemma occ_backlog : forall (d backlog X : bytes) hb k, length backlog = hb ->
  (forall j, j < hb -> ~ occ d (backlog ++ X) j) -> occ d (backlog ++ X) k ->
  hb <= k /\ occ d X (k - hb).
Proof.
  intros d backlog X hb k Hb Hearly Hk.
  destruct (Nat.lt_ge_cases k hb) as [Hlt|Hge]; [exfalso; exact (Hearly k Hlt Hk)|].
  split; [exact Hge|]. apply (occ_app_r d backlog X). rewrite Hb.
  replace (hb + (k - hb)) with k by lia. exact Hk.
Qed.

Lemma ru_loop_spec : forall fuel st (d : bytes) size backlog hb (consume : bool) r st',
  Inv st -> 1 <= length d -> length d <= cs -> rem st < fuel ->
  length backlog = hb -> hb <= size ->
  (forall j, j < hb -> ~ occ d (backlog ++ abs st) j) ->
  ru_loop S rd cs true fuel st d size backlog hb (if consume then length d else 0) = (r, st') ->
  post' (backlog ++ abs st) d consume (upto d (Some size) (backlog ++ abs st)) r st'.
Proof.
  induction fuel as [|f IH]; intros st d size backlog hb consume r st' HI Hd1 Hd2 Hfuel Hb Hhb
    Hearly H; [lia|].
  cbn [ru_loop] in H.
  rewrite (found_eq st d HI Hd1) in H. unfold find_from in H.
  pose proof (abs_length_buf st HI) as Hlen.
  destruct (find d (skipn (bpos st) (buf st))) as [i|] eqn:Ef.
  - (* the delimiter is in the buffer *)
    assert (HfA : find d (backlog ++ abs st) = Some (hb + i)).
    { apply find_skipn_Some; [|exact Hearly].
      rewrite (skipn_backlog _ _ hb) by (auto; lia). rewrite Nat.sub_diag. cbn [skipn].
      unfold ProofsDefs.abs. apply find_app_Some; assumption. }
    rewrite (upto_found d size _ (hb + i) Hd1 HfA).
    eapply finalize_found; [exact HI | exact Hd1 | exact Hb | exact Hhb | exact Ef
                           | left; reflexivity | exact HfA | exact H].
  - (* any occurrence starts in the last len(d)-1 buffered bytes or later *)
    assert (Hnob : forall k, occ d (backlog ++ abs st) k ->
                             hb + avail S st - (length d - 1) <= k).
    { intros k Hk. destruct (occ_backlog _ _ _ _ _ Hb Hearly Hk) as [Hge Hk'].
      unfold ProofsDefs.abs in Hk'.
      pose proof (find_None_app_occ d _ _ _ Ef Hk') as Hst. lia. }
    destruct (Nat.ltb_spec (size + (length d - 1)) (hb + avail S st)) as [Hlt|Hge].
    + (* enough delimiter-free bytes buffered *)
      rewrite upto_no_occ by (intros k Hk; apply Hnob in Hk; lia).
      apply post'_min. eapply finalize_nodelim; eauto.
    + destruct (perform_read S rd st cs) as [nc st1] eqn:Epr.
      destruct (perform_read_spec _ _ _ _ (proj2 HI) Epr)
        as (Hnc & Htl & Hbuf & Hblen & Hbpos & Hok1).
      pose proof (perform_read_rem _ _ _ _ cs_pos Epr) as Hrem.
      assert (HI1 : Inv st1).
      { split; [|exact Hok1]. unfold ProofsDefs.Inv. rewrite Hbuf, Hblen, Hbpos. exact (proj1 HI). }
      assert (Htail : tail st = nc ++ tail st1).
      { rewrite Hnc, Htl. symmetry. apply firstn_skipn. }
      assert (Habs : abs st = skipn (bpos st1) (buf st1) ++ nc ++ tail st1).
      { unfold ProofsDefs.abs at 1. rewrite Htail, Hbuf, Hbpos. reflexivity. }
      assert (Hshort : length nc < length d - 1 -> tail st1 = []).
      { intro Hs. rewrite Htl. apply skipn_all2. rewrite Hnc, firstn_length in Hs. lia. }
      assert (Hav : avail S st1 = avail S st) by (unfold avail; rewrite Hblen, Hbpos; reflexivity).
      rewrite <- Hbuf, <- Hbpos in Ef, Hlen. rewrite <- Hav in Hlen, Hnob, Hge.
      remember (skipn (bpos st1) (buf st1)) as B eqn:HB.
      destruct (Nat.eqb_spec (rem st1) 0) as [Hr0|Hr0].
      * (* the EOF *)
        fold (appended st1 nc) in H.
        destruct (appended_spec st1 nc HI1) as (HIS & HbufS & HabsS). rewrite <- HB in *.
        assert (Ht1 : tail st1 = []) by (apply tail_rem0; exact Hr0).
        assert (HA : backlog ++ abs st = backlog ++ abs (appended st1 nc)).
        { rewrite HabsS, Habs. reflexivity. }
        destruct (find d (skipn (bpos (appended st1 nc)) (buf (appended st1 nc))))
          as [i|] eqn:EfS.
        -- assert (HfA : find d (backlog ++ abs st) = Some (hb + i)).
           { apply find_skipn_Some; [|exact Hearly].
             rewrite (skipn_backlog _ _ hb) by (auto; lia). rewrite Nat.sub_diag. cbn [skipn].
             rewrite Habs, Ht1, app_nil_r, <- HbufS. exact EfS. }
           rewrite (upto_found d size _ (hb + i) Hd1 HfA). rewrite HA in HfA |- *.
           eapply finalize_found; [exact HIS | exact Hd1 | exact Hb | exact Hhb | exact EfS
                                  | right; split; reflexivity | exact HfA | exact H].
        -- rewrite upto_no_occ.
           2:{ intros k Hk. exfalso.
               destruct (occ_backlog _ _ _ _ _ Hb Hearly Hk) as [_ Hk'].
               rewrite Habs, Ht1, app_nil_r, <- HbufS in Hk'.
               exact (proj1 (find_None_occ d _) EfS _ Hk'). }
           apply post'_min. rewrite HA. eapply finalize_nodelim; eauto.
      * destruct (fresh_spec st1 nc Hok1) as (HIN & HabsN & HremN).
        destruct (Nat.leb_spec (blen st1) (bpos st1)) as [Hemp|Hne].
        -- (* the buffer was empty: go on with the chunk *)
           fold (fresh st1 nc) in H.
           assert (HBnil : B = []).
           { destruct B; [reflexivity|]. unfold avail in Hlen. simpl in Hlen. lia. }
           assert (HA : backlog ++ abs st = backlog ++ abs (fresh st1 nc)).
           { rewrite HabsN, Habs, HBnil. reflexivity. }
           rewrite HA in Hearly |- *.
           apply (IH (fresh st1 nc) d size backlog hb consume r st' HIN Hd1 Hd2);
             try assumption. lia.
        -- (* the chunk border *)
           assert (Hfrag : skipn (Nat.max (blen st1 - (length d - 1)) (bpos st1)) (buf st1)
                           = skipn (length B - (length d - 1)) B).
           { rewrite HB, skipn_add. f_equal. rewrite <- HB, Hlen. unfold avail. lia. }
           rewrite Hfrag in H.
           match type of H with (match ?b with _ => _ end) = _ => set (border := b) in H end.
           assert (Hborder :
             match border with
             | Some p => exists q,
                 find d (skipn (length B - (length d - 1)) B ++ firstn (length d - 1) nc)
                 = Some q /\ p = bpos st1 + (length B - (length d - 1) + q)
             | None => forall j, j < length B -> ~ occ d (B ++ nc ++ tail st1) j
             end).
           { unfold border. destruct (Nat.ltb_spec 0 (length d - 1)) as [Hdl|Hdl].
             - destruct (find d (skipn (length B - (length d - 1)) B
                                 ++ firstn (length d - 1) nc)) as [q|] eqn:Efr.
               + exists q. split; [reflexivity|]. rewrite Hlen. unfold avail. lia.
               + apply border_none; auto.
             - apply border_none; auto. left. lia. }
           clearbody border. destruct border as [p|].
           ++ (* a delimiter across the border *)
              destruct Hborder as (q & Efr & ->).
              fold (appended st1 nc) in H.
              destruct (appended_spec st1 nc HI1) as (HIS & HbufS & HabsS). rewrite <- HB in *.
              assert (HA : backlog ++ abs st = backlog ++ abs (appended st1 nc)).
              { rewrite HabsS, Habs. reflexivity. }
              pose proof (border_found d B nc [] q Hd1 Ef Efr) as HfS.
              rewrite app_nil_r, <- HbufS in HfS.
              pose proof (border_found d B nc (tail st1) q Hd1 Ef Efr) as HfT.
              set (i := length B - (length d - 1) + q) in *.
              assert (HfA : find d (backlog ++ abs st) = Some (hb + i)).
              { apply find_skipn_Some; [|exact Hearly].
                rewrite (skipn_backlog _ _ hb) by (auto; lia). rewrite Nat.sub_diag.
                cbn [skipn]. rewrite Habs. exact HfT. }
              rewrite (upto_found d size _ (hb + i) Hd1 HfA). rewrite HA in HfA |- *.
              eapply finalize_found; [exact HIS | exact Hd1 | exact Hb | exact Hhb | exact HfS
                                     | left; reflexivity | exact HfA | exact H].
           ++ (* all buffered bytes are delimiter-free, border included *)
              assert (Hnob' : forall k, occ d (backlog ++ abs st) k -> hb + avail S st1 <= k).
              { intros k Hk. destruct (occ_backlog _ _ _ _ _ Hb Hearly Hk) as [Hge' Hk'].
                rewrite Habs in Hk'.
                destruct (Nat.lt_ge_cases (k - hb) (length B)) as [Hin|Hout]; [|lia].
                exfalso. exact (Hborder _ Hin Hk'). }
              destruct (Nat.leb_spec size (hb + avail S st1)) as [Hcov|Hncov].
              ** rewrite upto_no_occ by (intros k Hk; apply Hnob' in Hk; lia).
                 apply post'_min. rewrite Habs. subst B.
                 eapply finalize_splice; eauto. lia.
              ** fold (fresh st1 nc) in H.
                 assert (HA : backlog ++ abs st = (backlog ++ B) ++ abs (fresh st1 nc)).
                 { rewrite HabsN, Habs, <- app_assoc. reflexivity. }
                 rewrite HA.
                 apply (IH (fresh st1 nc) d size (backlog ++ B) (hb + avail S st1) consume r st'
                           HIN Hd1 Hd2); try assumption.
                 --- lia.
                 --- rewrite app_length. lia.
                 --- lia.
                 --- rewrite <- HA. intros j Hj Hoc. apply Hnob' in Hoc. lia.
Qed.

(* ------------------------------------------------------------------ 3. _read_until *)
Theorem read_until__spec : forall st (d : bytes) size (consume : bool) r st',
  Inv st -> 1 <= length d -> length d <= cs ->
  read_until_ S rd cs true st d size consume = (r, st') ->
  Inv st' /\
  let '(b, ok, rest') := sp_until d (Some size) consume (abs st) in
  abs st' = rest' /\ r = (if ok then UOk b else UDelimErr).
Proof.
  intros st d size consume r st' HI Hd1 Hd2 H. unfold read_until_ in H.
  destruct (Nat.eqb_spec (length d) 0) as [Hz|_]; [lia|].
  destruct (Nat.ltb_spec cs (length d)) as [Hc|_]; [lia|]. cbn [orb] in H.
  set (st0 := if size mod cs =? 0 then fill_buffer S rd cs st else st) in H.
  assert (H0 : Inv st0 /\ abs st0 = abs st).
  { unfold st0. destruct (size mod cs =? 0); [|split; [exact HI | reflexivity]].
    destruct (fill_buffer_spec st HI) as (Hi & Ha & _). split; assumption. }
  destruct H0 as [HI0 Habs0]. clearbody st0.
  destruct (ru_loop S rd cs true (Datatypes.S (rem st0)) st0 d size [] 0
              (if consume then length d else 0)) as [ob st1] eqn:El.
  assert (Hearly0 : forall j, j < 0 -> ~ occ d ([] ++ abs st0) j) by (intros j Hj; lia).
  apply (ru_loop_spec _ st0 d size [] 0 consume ob st1 HI0 Hd1 Hd2 (Nat.lt_succ_diag_r _)
           eq_refl (Nat.le_0_l _) Hearly0) in El.
  cbn [app] in El. rewrite Habs0 in El. destruct El as [HI1 Hpost].
  unfold sp_until. set (n := upto d (Some size) (abs st)) in *.
  destruct consume.
  - destruct (startswith (skipn n (abs st)) d); destruct Hpost as [Ha ->];
      inversion H; subst r st'; auto.
  - destruct Hpost as [Ha ->]. inversion H; subst r st'. auto.
Qed.

(* a delimited read that leaves the delimiter alone *)
Lemma read_until__noconsume : forall st (d : bytes) size r st',
  Inv st -> 1 <= length d -> length d <= cs ->
  read_until_ S rd cs true st d size false = (r, st') ->
  Inv st' /\ r = UOk (firstn (upto d (Some size) (abs st)) (abs st)) /\
  abs st' = skipn (upto d (Some size) (abs st)) (abs st).
Proof.
  intros st d size r st' HI Hd1 Hd2 H.
  destruct (read_until__spec _ _ _ _ _ _ HI Hd1 Hd2 H) as [HI' Hs].
  unfold sp_until in Hs. destruct Hs as [Ha Hr]. auto.
Qed.

(* ------------------------------------------------------------------ 4. pipe_until *)
Lemma pu_loop_spec : forall fuel st (d : bytes) R acc r st',
  Inv st -> 1 <= length d -> length d <= cs -> R < fuel ->
  pu_loop S rd cs true fuel st d R acc = (r, st') ->
  Inv st' /\ r = Some (acc ++ firstn (upto d (Some R) (abs st)) (abs st)) /\
  abs st' = skipn (upto d (Some R) (abs st)) (abs st).
Proof.
  induction fuel as [|f IH]; intros st d R acc r st' HI Hd1 Hd2 Hf H; [lia|].
  cbn [pu_loop] in H. destruct (Nat.eqb_spec R 0) as [Hz|Hz].
  - inversion H; subst r st'. subst R.
    assert (Hu : upto d (Some 0) (abs st) = 0) by (pose proof (upto_le_size d 0 (abs st)); lia).
    rewrite Hu. cbn [firstn skipn]. rewrite app_nil_r. auto.
  - destruct (read_until_ S rd cs true st d (Nat.min cs R) false) as [u st1] eqn:Eu.
    destruct (read_until__noconsume _ _ _ _ _ HI Hd1 Hd2 Eu) as (HI1 & -> & Habs1).
    pose proof (upto_step d cs R (abs st) Hd1 cs_pos) as Hstep. cbv zeta in Hstep.
    set (m := upto d (Some (Nat.min cs R)) (abs st)) in *.
    destruct (firstn m (abs st)) as [|x chunk] eqn:Ech.
    + inversion H; subst r st'.
      assert (Hm0 : m = 0).
      { pose proof (upto_le_length d (Some (Nat.min cs R)) (abs st)) as Hle. fold m in Hle.
        apply (f_equal (@length N)) in Ech. rewrite firstn_length in Ech. simpl in Ech. lia. }
      assert (Hu : upto d (Some R) (abs st) = 0) by (apply (upto_zero d (Nat.min cs R)); [exact Hm0 | lia]).
      rewrite Hu. rewrite Hm0 in Habs1. cbn [firstn skipn] in *. rewrite app_nil_r. auto.
    + rewrite <- Ech in H. apply IH in H; try assumption; [|lia].
      destruct H as (HI' & -> & Habs'). rewrite Habs1 in *. split; [exact HI'|].
      rewrite Hstep. split.
      * rewrite <- app_assoc, firstn_add. reflexivity.
      * rewrite Habs', skipn_add. reflexivity.
Qed.

Lemma normalize_lim : forall st size, Inv st ->
  lim (Some (normalize_size S st size)) (abs st) = lim size (abs st).
Proof.
  intros st size HI. destruct (normalize_size_spec st size HI) as [Hf _].
  apply (f_equal (@length N)) in Hf. rewrite !firstn_length in Hf.
  pose proof (lim_le size (abs st)). unfold lim at 1. lia.
Qed.

(* pipe_until for any size argument (read_until's large-size path passes one) *)
Lemma pipe_until_gen : forall st (d : bytes) (consume : bool) size r st',
  Inv st -> 1 <= length d -> length d <= cs ->
  pipe_until S rd cs true st d consume size = (r, st') ->
  Inv st' /\
  let '(b, ok, rest') := sp_until d size consume (abs st) in
  abs st' = rest' /\ r = (if ok then RBytes b else RDelimErr b).
Proof.
  intros st d consume size r st' HI Hd1 Hd2 H. unfold pipe_until in H.
  set (R := normalize_size S st size) in H.
  destruct (pu_loop S rd cs true (Datatypes.S R) st d R []) as [ow st1] eqn:El.
  destruct (pu_loop_spec _ _ _ _ _ _ _ HI Hd1 Hd2 (Nat.lt_succ_diag_r R) El)
    as (HI1 & -> & Habs1).
  cbn [app] in H.
  rewrite (upto_lim d (Some R) size (abs st) (normalize_lim st size HI)) in *.
  set (n := upto d size (abs st)) in *.
  assert (Hfc : exists ob, fin_consume st1 (if consume then length d else 0) d None
                             (firstn n (abs st)) = (ob, st') /\
                r = match ob with Some w => RBytes w | None => RDelimErr (firstn n (abs st)) end).
  { unfold fin_consume. destruct consume.
    - destruct (Nat.ltb_spec 0 (length d)) as [_|Hc]; [|lia].
      destruct (peek S rd cs st1 (Some (length d))) as [pk st2].
      destruct (str_eqb pk d); inversion H; subst r st'; eexists; split; reflexivity.
    - cbn. inversion H; subst r st'. eexists; split; reflexivity. }
  destruct Hfc as (ob & Hfc & ->).
  pose proof (fin_consume_peek _ _ _ _ _ _ (abs st) n HI1 Hd1 Hd2 Hfc Habs1 eq_refl) as [HI' Hp].
  split; [exact HI'|]. unfold sp_until. fold n. destruct consume.
  - destruct (startswith (skipn n (abs st)) d); destruct Hp as [Ha ->]; auto.
  - destruct Hp as [Ha ->]. auto.
Qed.

Lemma bad_delim_false : forall d : bytes, 1 <= length d -> length d <= cs -> bad_delim cs d = false.
Proof.
  intros d H1 H2. unfold bad_delim.
  destruct (Nat.eqb_spec (length d) 0); [lia|]. destruct (Nat.ltb_spec cs (length d)); [lia|].
  reflexivity.
Qed.

Theorem pipe_until_spec : forall st (d : bytes) (consume : bool) r st',
  Inv st -> 1 <= length d -> length d <= cs ->
  pipe_until S rd cs true st d consume None = (r, st') ->
  sp_op cs (OPipeUntil d consume) (abs st) = (r, abs st') /\ Inv st'.
Proof.
  intros st d consume r st' HI Hd1 Hd2 H.
  destruct (pipe_until_gen _ _ _ _ _ _ HI Hd1 Hd2 H) as [HI' Hs].
  split; [|exact HI']. cbn [sp_op]. rewrite (bad_delim_false d Hd1 Hd2).
  destruct (sp_until d None consume (abs st)) as [[b ok] rest']. destruct Hs as [-> ->].
  destruct ok; reflexivity.
Qed.

(* ------------------------------------------------------------------ 5. read_until *)
Theorem read_until_spec : forall st (d : bytes) size (consume : bool) r st',
  Inv st -> 1 <= length d -> length d <= cs ->
  read_until S rd cs true st d size consume = (r, st') ->
  sp_op cs (OReadUntil d size consume) (abs st) = (r, abs st') /\ Inv st'.
Proof.
  intros st d size consume r st' HI Hd1 Hd2 H. unfold read_until in H.
  cbn [sp_op]. rewrite (bad_delim_false d Hd1 Hd2).
  rewrite <- (sp_until_lim d _ _ consume (abs st) (normalize_lim st size HI)).
  set (R := normalize_size S st size) in *.
  destruct (R <=? max_join_size cs).
  - destruct (read_until_ S rd cs true st d R consume) as [u st1] eqn:Eu.
    destruct (read_until__spec _ _ _ _ _ _ HI Hd1 Hd2 Eu) as [HI1 Hs].
    destruct (sp_until d (Some R) consume (abs st)) as [[b ok] rest']. destruct Hs as [<- ->].
    destruct ok; inversion H; subst r st'; auto.
  - destruct (pipe_until S rd cs true st d consume (Some R)) as [pr st1] eqn:Ep.
    destruct (pipe_until_gen _ _ _ _ _ _ HI Hd1 Hd2 Ep) as [HI1 Hs].
    destruct (sp_until d (Some R) consume (abs st)) as [[b ok] rest']. destruct Hs as [<- ->].
    destruct ok; inversion H; subst r st'; auto.
Qed.

(* ------------------------------------------------------------------ 6. readline / readlines *)
Definition rl_n (size : option nat) (rest : bytes) : nat :=
  match find [LF] rest with
  | Some i => Nat.min (lim size rest) (Datatypes.S i)
  | None => lim size rest
  end.

Lemma sp_readline_eq : forall size rest,
  sp_readline size rest = (firstn (rl_n size rest) rest, skipn (rl_n size rest) rest).
Proof. reflexivity. Qed.

Lemma readline_arith : forall (A : bytes) ns size, Nat.min ns (length A) = lim size A ->
  let n := upto [LF] (Some ns) A in
  (n < ns -> n + Nat.min 1 (length A - n) = rl_n size A) /\ (ns <= n -> n = rl_n size A).
Proof.
  intros A ns size HL. cbv zeta. unfold upto, rl_n.
  change (lim (Some ns) A) with (Nat.min ns (length A)). rewrite <- HL.
  destruct (find [LF] A) as [i|] eqn:Ef.
  - assert (H1 : 1 <= length [LF]) by (simpl; lia).
    pose proof (occ_bound [LF] A i H1 (proj1 (proj1 (find_spec [LF] A i) Ef))) as Hb.
    simpl in Hb. lia.
  - lia.
Qed.

Theorem readline_spec : forall st size out st', Inv st ->
  readline S rd cs true st size = (out, st') ->
  (out, abs st') = sp_readline size (abs st) /\ Inv st'.
Proof.
  intros st size out st' HI H. unfold readline in H.
  set (ns := normalize_size S st size) in H.
  assert (H1 : 1 <= length [LF]) by (simpl; lia).
  assert (H2 : length [LF] <= cs) by (simpl; lia).
  destruct (read_until S rd cs true st [LF] (Some ns) false) as [rr st1] eqn:Eru.
  destruct (read_until_spec _ _ _ _ _ _ HI H1 H2 Eru) as [Hs HI1].
  cbn [sp_op] in Hs. rewrite (bad_delim_false [LF] H1 H2) in Hs. unfold sp_until in Hs.
  pose proof (normalize_lim st size HI) as HL. fold ns in HL. unfold lim at 1 in HL.
  destruct (readline_arith (abs st) ns size HL) as [Hlt Hge].
  pose proof (upto_le_length [LF] (Some ns) (abs st)) as Hle.
  set (n := upto [LF] (Some ns) (abs st)) in *.
  injection Hs as Hrr Habs1. subst rr. rewrite sp_readline_eq.
  rewrite firstn_length, (Nat.min_l n) in H by exact Hle.
  destruct (Nat.ltb_spec n ns) as [Hn|Hn].
  - destruct (read S rd cs true st1 (Some 1)) as [x st2] eqn:Er.
    destruct (read_spec _ _ _ _ HI1 Er) as [Hr HI2]. unfold sp_read, lim in Hr.
    rewrite <- Habs1, skipn_length in Hr. injection Hr as Hx Habs2. subst x.
    inversion H; subst out st'. split; [|exact HI2].
    rewrite Habs2, firstn_add, skipn_add, <- (Hlt Hn). reflexivity.
  - inversion H; subst out st'. split; [|exact HI1]. rewrite <- Habs1, (Hge Hn). reflexivity.
Qed.

Lemma abs_length_bound : forall st, Inv st -> length (abs st) <= rem st + avail S st.
Proof.
  intros st HI. unfold ProofsDefs.abs. rewrite app_length, (abs_length_buf st HI).
  unfold ProofsDefs.tail. rewrite firstn_length. lia.
Qed.

Lemma readlines_loop_spec : forall fuel st hint got ls st', Inv st ->
  length (abs st) < fuel ->
  readlines_loop S rd cs true fuel st hint got = (ls, st') ->
  forall fuel', length (abs st) < fuel' ->
  sp_readlines fuel' hint got (abs st) = (ls, abs st') /\ Inv st'.
Proof.
  induction fuel as [|f IH]; intros st hint got ls st' HI Hf H fuel' Hf'; [lia|].
  destruct fuel' as [|f']; [lia|].
  cbn [readlines_loop sp_readlines] in *.
  destruct (readline S rd cs true st None) as [line st1] eqn:Erl.
  destruct (readline_spec _ _ _ _ HI Erl) as [Hs HI1]. rewrite <- Hs.
  destruct line as [|x line].
  - inversion H; subst ls st'. auto.
  - rewrite sp_readline_eq in Hs. injection Hs as Hline Habs1.
    assert (Hshrink : length (abs st1) < length (abs st)).
    { rewrite Habs1, skipn_length. apply (f_equal (@length N)) in Hline.
      rewrite firstn_length in Hline. simpl in Hline. lia. }
    destruct (match hint with Some h => h <=? got + length (x :: line) | None => false end).
    + inversion H; subst ls st'. auto.
    + destruct (readlines_loop S rd cs true f st1 hint (got + length (x :: line)))
        as [ls2 st2] eqn:El.
      assert (Hf1 : length (abs st1) < f) by lia.
      assert (Hf1' : length (abs st1) < f') by lia.
      destruct (IH _ _ _ _ _ HI1 Hf1 El f' Hf1') as [Hsp HI2].
      rewrite Hsp. inversion H; subst ls st'. auto.
Qed.

Theorem readlines_spec : forall st hint ls st', Inv st ->
  readlines S rd cs true st hint = (ls, st') ->
  sp_op cs (OReadlines hint) (abs st) = (RLines ls, abs st') /\ Inv st'.
Proof.
  intros st hint ls st' HI H. unfold readlines in H. pose proof (abs_length_bound st HI) as Hb.
  assert (Hf : length (abs st) < Datatypes.S (rem st + avail S st)) by lia.
  destruct (readlines_loop_spec _ _ _ _ _ _ HI Hf H (Datatypes.S (length (abs st)))
              (Nat.lt_succ_diag_r _)) as [Hsp HI'].
  split; [|exact HI']. cbn [sp_op]. rewrite Hsp. reflexivity.
Qed.

(* ------------------------------------------------------------------ 7. delimit() *)
(* a reader in a state satisfying its invariant is a conforming source ([good_source_on],
   ProofsSync.v) for a delimited child; the child sees the cursor up to the delimiter *)
Theorem child_good_source : forall d : bytes, 1 <= length d -> length d <= cs ->
  good_source_on Inv (child_rd S rd cs true d) (fun st => cut d (abs st)).
Proof.
  intros d Hd1 Hd2 st n HI Hn. unfold child_rd.
  destruct (read_until S rd cs true st d (Some n) false) as [rr st1] eqn:Eru.
  destruct (read_until_spec _ _ _ _ _ _ HI Hd1 Hd2 Eru) as [Hs HI1].
  cbn [sp_op] in Hs. rewrite (bad_delim_false d Hd1 Hd2) in Hs. unfold sp_until in Hs.
  injection Hs as Hrr Habs1. subst rr. cbn [fst snd].
  exists (upto d (Some n) (abs st)). split; [apply upto_le_size|]. split; [|split; [|split]].
  - symmetry. apply cut_upto_firstn. exact Hd1.
  - rewrite <- Habs1. apply cut_upto_skipn. exact Hd1.
  - apply cut_upto_pos; assumption.
  - exact HI1.
Qed.


(* ------------------------------------------------------------------ 8. every operation *)
Theorem refine_op : forall st o r st', valid_op cs o = true -> Inv st ->
  run_op S rd cs true st o = (r, st') ->
  sp_op cs o (abs st) = (r, abs st') /\ Inv st'.
Proof.
  intros st o r st' Hv HI H.
  destruct o;
    try (apply (refine_op_basic S rd sabs cs P NT Hsrc cs_pos st _ r st');
         [reflexivity | exact HI | exact H]).
  - cbn [valid_op] in Hv. apply negb_true_iff, bad_delim_false_iff in Hv as [H1 H2].
    cbn [run_op] in H. apply read_until_spec; assumption.
  - cbn [valid_op] in Hv. apply negb_true_iff, bad_delim_false_iff in Hv as [H1 H2].
    cbn [run_op] in H. apply pipe_until_spec; assumption.
  - cbn [run_op sp_op] in *. destruct (readline S rd cs true st size) as [b st1] eqn:E.
    inversion H; subst r st'. destruct (readline_spec _ _ _ _ HI E) as [Hs HI1].
    rewrite <- Hs. auto.
  - cbn [run_op] in H. destruct (readlines S rd cs true st hint) as [l st1] eqn:E.
    inversion H; subst r st'. apply readlines_spec; assumption.
Qed.

End UntilProofs.
