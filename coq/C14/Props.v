From Coq Require Import ZArith List Bool.
From Falcon.C14 Require Import Model Spec.
