(* C14 — property theorems only.  Each is closed by [exact] of a lemma from a Proofs*.v file
   and followed by Print Assumptions. *)
From Coq Require Import ZArith NArith List Bool Arith.
From Falcon.lib Require Import PyStr.
From Falcon.C14 Require Import Spec Oracle Model ModelAsync ProofsDefs ProofsSync ProofsUntil ProofsHistory ProofsAsync ProofsAsyncUntil
  ProofsAsyncHistory ProofsOracle ProofsRefuted.
Import ListNotations.
Local Open Scope nat_scope.

(* ---------------------------------------------------------------- sync reader *)

(* _perform_read: for EVERY conforming source (any short-read schedule) it returns exactly the
   next min(n, budget) bytes of the stream, and never asks beyond _max_bytes_remaining *)
Theorem C14_sync_perform_read : forall S rd sabs, good_source S rd sabs ->
  forall st n out st', perform_read S rd st n = (out, st') ->
  out = firstn n (tail S sabs st) /\ tail S sabs st' = skipn n (tail S sabs st) /\
  buf st' = buf st /\ blen st' = blen st /\ bpos st' = bpos st.
Proof. exact perform_read_spec_total. Qed.
Print Assumptions C14_sync_perform_read.

(* refinement, one operation: read / peek / pipe / exhaust on a reader state standing for
   the cursor [abs st] do what the cursor does, for every source chunking and chunk size *)
Theorem C14_sync_refine_op_basic : forall S rd sabs cs, good_source S rd sabs -> 0 < cs ->
  forall st o r st', basic_op o = true -> Inv S st -> run_op S rd cs true st o = (r, st') ->
  sp_op cs o (abs S sabs st) = (r, abs S sabs st') /\ Inv S st'.
Proof. exact refine_op_basic_total. Qed.
Print Assumptions C14_sync_refine_op_basic.

(* refinement, one operation, ALL operations (read, peek, read_until with/without size cap and
   consume, pipe, pipe_until, readline, readlines, exhaust), relative to a source contract
   that also fits delimited sub-readers: [P] is an invariant of the source states, [NT] says
   that the byte budget never truncates (true for children, false at top level) *)
Theorem C14_sync_refine_op : forall S rd sabs cs P NT,
  good_source_on P rd sabs -> 0 < cs ->
  forall st o r st', valid_op cs o = true -> InvP S sabs P NT st ->
  run_op S rd cs true st o = (r, st') ->
  sp_op cs o (abs S sabs st) = (r, abs S sabs st') /\ InvP S sabs P NT st'.
Proof. exact refine_op. Qed.
Print Assumptions C14_sync_refine_op.

(* a delimited sub-reader's read function is itself a conforming source over the parent's
   cursor cut at the first delimiter: nesting composes to any depth *)
Theorem C14_sync_child_is_good_source : forall S rd sabs cs P NT,
  good_source_on P rd sabs -> 0 < cs ->
  forall d, 1 <= length d -> length d <= cs ->
  good_source_on (InvP S sabs P NT) (child_rd S rd cs true d) (fun st => cut d (abs S sabs st)).
Proof. exact child_good_source. Qed.
Print Assumptions C14_sync_child_is_good_source.

(* THE PROPERTY for the sync reader: for every data string, every declared length, every
   short-read schedule of the source, every chunk size >= 1 and EVERY history of operations
   (delimiters of length 1..chunk size) including operations on delimited sub-readers nested
   two deep (delimit / operate / pop), each operation returns exactly what the flat cursor
   returns -- nothing twice, nothing skipped. *)
Theorem C14_sync_refine_history : forall cs maxlen data sched h,
  0 < cs -> ProofsHistory.valid_hist cs 0 h = true ->
  sync_history cs maxlen data sched h = map o_res (spec_history cs maxlen data h).
Proof. exact refine_history. Qed.
Print Assumptions C14_sync_refine_history.

(* the scripted source of the harness is a conforming source *)
Theorem C14_scripted_source_conforms : good_source source src_read sdata.
Proof. exact src_read_good. Qed.
Print Assumptions C14_scripted_source_conforms.

(* the oracle evaluated on the real sync reader accepts the model on every valid history *)
Theorem C14_oracle_sound_sync : forall cs maxlen data sched h,
  0 < cs -> ProofsHistory.valid_hist cs 0 h = true ->
  oracle true cs maxlen data h (map as_obs (sync_history cs maxlen data sched h)) = None.
Proof. exact oracle_sound_sync. Qed.
Print Assumptions C14_oracle_sound_sync.

(* an observation the oracle accepts is exactly the cursor's result list *)
Theorem C14_oracle_exact : forall impl spec i,
  first_bad i true impl spec = None -> map o_res impl = map o_res spec.
Proof. exact first_bad_sync_None. Qed.
Print Assumptions C14_oracle_exact.

(* ---------------------------------------------------------------- async reader *)

(* a conforming async iterator: every item is the next piece of the stream, finitely many *)
Definition good_aiter (S : Type) (nxt : S -> option bytes * S) (sabs : S -> bytes)
           (smeas : S -> nat) : Prop :=
  forall s : S, let (o, s') := nxt s in
    match o with
    | Some c => sabs s = c ++ sabs s' /\ smeas s' < smeas s
    | None => sabs s = nil
    end.

(* refinement, one operation (read / peek / pipe / exhaust), for every source chunking incl.
   empty chunks; AInv_total is the representation invariant, aabs the cursor a state stands for *)
Theorem C14_async_refine_op_basic : forall S nxt sabs smeas cs F T,
  0 < cs -> good_aiter S nxt sabs smeas ->
  forall st o r st', basic_op o = true -> AInv_total S sabs smeas F T st ->
  arun_op S nxt cs true F st o = (r, st') ->
  sp_op cs o (aabs S sabs st) = (r, aabs S sabs st') /\ AInv_total S sabs smeas F T st'.
Proof. exact a_refine_op_basic_total. Qed.
Print Assumptions C14_async_refine_op_basic.

(* tell() is the cursor position; eof is only reported at the end of the cursor *)
Theorem C14_async_tell_is_position : forall S sabs smeas F T st,
  AInv_total S sabs smeas F T st -> atell S st + length (aabs S sabs st) = T.
Proof. exact atell_spec_total. Qed.
Print Assumptions C14_async_tell_is_position.

Theorem C14_async_eof_sound : forall S sabs smeas F T st,
  AInv_total S sabs smeas F T st -> aeof S st = true -> aabs S sabs st = nil.
Proof. exact aeof_sound_total. Qed.
Print Assumptions C14_async_eof_sound.

(* every async operation (read, peek, read_until with/without size cap and consume, pipe,
   pipe_until, exhaust) on the top-level reader: histories of any length, results + tell + eof *)
Theorem C14_async_refine_history_flat : forall cs F chunks ops,
  0 < cs -> length chunks + 3 <= F -> forallb (async_op cs) ops = true ->
  Forall2 obs_ok (async_history cs true F chunks (flat ops))
          (spec_history cs (length (concat chunks)) (concat chunks) (flat ops)).
Proof. exact a_refine_history. Qed.
Print Assumptions C14_async_refine_history_flat.

(* THE PROPERTY for the (repaired) async reader: for every list of source chunks (incl. empty
   and 1-byte chunks), every chunk size >= 1 and EVERY history of valid operations including
   delimited sub-readers nested two deep, each step's result and tell() are the flat cursor's
   and eof is only reported at the end of the (sub-)cursor.  [F] is the loop fuel of the
   model; any value >= number of chunks + 9 will do (the harness passes more). *)
Theorem C14_async_refine_history : forall cs F chunks h,
  0 < cs -> length chunks + 9 <= F -> ProofsAsyncHistory.valid_hist cs 0 h = true ->
  Forall2 obs_ok (async_history cs true F chunks h)
          (spec_history cs (length (concat chunks)) (concat chunks) h).
Proof. exact a_refine_history_nested. Qed.
Print Assumptions C14_async_refine_history.

Theorem C14_oracle_sound_async : forall cs F chunks h,
  0 < cs -> length chunks + 9 <= F -> ProofsAsyncHistory.valid_hist cs 0 h = true ->
  oracle false cs (length (concat chunks)) (concat chunks) h (async_history cs true F chunks h) = None.
Proof. exact oracle_sound_async. Qed.
Print Assumptions C14_oracle_sound_async.

(* ---------------------------------------------------------------- defects of the code as found *)

Theorem C14_async_history_refuted_before_fix :
  exists cs F chunks h,
    0 < cs /\ length chunks + length (concat chunks) < F /\
    map o_res (async_history cs false F chunks h)
    <> map o_res (spec_history cs (length (concat chunks)) (concat chunks) h).
Proof. exact async_history_refuted_before_fix. Qed.
Print Assumptions C14_async_history_refuted_before_fix.

Theorem C14_async_tell_refuted_before_fix :
  exists cs F chunks h,
    0 < cs /\ length chunks + length (concat chunks) < F /\
    map o_tell (async_history cs false F chunks h)
    <> map o_tell (spec_history cs (length (concat chunks)) (concat chunks) h).
Proof. exact async_tell_refuted_before_fix. Qed.
Print Assumptions C14_async_tell_refuted_before_fix.

Theorem C14_sync_inv_refuted_before_fix :
  exists cs st n, 0 < cs /\ Inv source st /\ ~ Inv source (snd (read_ source src_read cs false st n)).
Proof. exact sync_inv_refuted_before_fix. Qed.
Print Assumptions C14_sync_inv_refuted_before_fix.

(* the same defect reached through a delimited child over a conforming, full-length source *)
Theorem C14_sync_child_inv_refuted_before_fix :
  exists cs data d n,
    0 < cs /\ 1 <= length d /\ length d <= cs /\
    let parent := init source (length data) {| sdata := data; sched := [] |} in
    let child := init (state source) (child_max source parent) parent in
    Inv source parent /\ Inv (state source) child /\
    ~ Inv (state source)
        (snd (read_ (state source) (child_rd source src_read cs false d) cs false child n)).
Proof. exact sync_child_inv_refuted_before_fix. Qed.
Print Assumptions C14_sync_child_inv_refuted_before_fix.

(* ---------------------------------------------------------------- non-vacuity *)
Example C14_async_witness_after_fix :
  async_history 4 true 20 [b_hello] witness_hist = spec_history 4 5 b_hello witness_hist.
Proof. exact async_witness_after_fix. Qed.

Example C14_sync_example :
  let data := [97; 13; 10; 45; 45; 98; 13; 10; 99]%N in
  let h := [HOp (OPeek (Some 2)); HOp (ORead (Some 3)); HOp (OReadUntil [13; 10]%N None true);
            HDelimit [99]%N; HOp (ORead None); HPop; HOp OPipe] in
  sync_history 2 9 data [0; 0; 1] h = map o_res (spec_history 2 9 data h)
  /\ map o_res (spec_history 2 9 data h)
     = [RBytes [97; 13]; RBytes [97; 13; 10]; RBytes [45; 45; 98]; RBytes []; RBytes []; RBytes [];
        RBytes [99]]%N.
Proof. vm_compute. split; reflexivity. Qed.

Example C14_sync_child_witness_after_fix :
  let parent := init source 7 {| sdata := b_abdash; sched := [] |} in
  let child := init (state source) (child_max source parent) parent in
  Inv (state source)
      (snd (read_ (state source) (child_rd source src_read 4 true b_dash) 4 true child 3))
  /\ fst (read_ (state source) (child_rd source src_read 4 true b_dash) 4 true child 3)
     = [97; 98]%N.
Proof. exact sync_child_witness_after_fix. Qed.
