(* C14 — the two defects of the code as found, as theorems about the [fixed := false]
   variants of the models (witnesses by computation; both were replayed on the real code,
   see corpus/C14 and notes/C14.md). *)
From Coq Require Import ZArith NArith List Bool Arith Lia.
From Falcon.lib Require Import PyStr.
From Falcon.C14 Require Import Spec Model ModelAsync ProofsDefs.
Import ListNotations.
Local Open Scope nat_scope.

Definition b_hello : bytes := [104; 101; 108; 108; 111]%N.   (* b"hello" *)
Definition b_dash : bytes := [45]%N.                       (* b"-" *)

Definition witness_hist : list hop :=
  [HOp (OReadUntil b_dash None false); HOp (ORead None)].

(* async, before the fix: read_until(b'-') at end of stream returns b'hello' and the next
   read() returns b'hello' again *)
Lemma async_history_refuted_before_fix :
  exists cs F chunks h,
    0 < cs /\ length chunks + length (concat chunks) < F /\
    map o_res (async_history cs false F chunks h)
    <> map o_res (spec_history cs (length (concat chunks)) (concat chunks) h).
Proof.
  exists 4, 20, [b_hello], witness_hist. split; [lia|]. split; [vm_compute; lia|].
  vm_compute. discriminate.
Qed.

(* ... and tell() stays at 0 after the five bytes were returned *)
Lemma async_tell_refuted_before_fix :
  exists cs F chunks h,
    0 < cs /\ length chunks + length (concat chunks) < F /\
    map o_tell (async_history cs false F chunks h)
    <> map o_tell (spec_history cs (length (concat chunks)) (concat chunks) h).
Proof.
  exists 4, 20, [b_hello], [HOp (OReadUntil b_dash None false)].
  split; [lia|]. split; [vm_compute; lia|]. vm_compute. discriminate.
Qed.

(* the repaired generator gives the cursor's answers on the same history *)
Lemma async_witness_after_fix :
  async_history 4 true 20 [b_hello] witness_hist
  = spec_history 4 5 b_hello witness_hist.
Proof. vm_compute. reflexivity. Qed.

(* sync, before the fix: _read leaves _buffer_pos beyond the buffer when the source ends
   before the declared length (here: empty source, declared length 3, read(1)).  In the real
   code delimit() then computes max_stream_len = -1 and read_until never returns. *)
Lemma sync_inv_refuted_before_fix :
  exists cs st n,
    0 < cs /\ Inv source st /\
    ~ Inv source (snd (read_ source src_read cs false st n)).
Proof.
  exists 2, (init source 3 {| sdata := []; sched := [] |}), 1.
  split; [lia|]. split; [split; simpl; lia|].
  vm_compute. intros [_ H]. lia.
Qed.

Lemma sync_witness_after_fix :
  Inv source (snd (read_ source src_read 2 true (init source 3 {| sdata := []; sched := [] |}) 1)).
Proof. vm_compute. split; lia. Qed.

(* sync, before the fix, THROUGH A DELIMITED CHILD: the top-level source is conforming and has
   exactly the declared length (b"ab-cdef", 7), but the child's source -- the parent's
   read_until(b"-") -- ends at the delimiter by construction; child.read(3) obtains 2 bytes and
   leaves _buffer_pos = 3 > _buffer_len = 2.  In the real code a further delimit() on the child
   then computes a negative max_stream_len and the grandchild's read_until never returns: the
   shape in which the thorough tier found the defect in the shipped Cython twin (notes/C14.md). *)
Definition b_abdash : bytes := [97; 98; 45; 99; 100; 101; 102]%N.   (* b"ab-cdef" *)

Lemma sync_child_inv_refuted_before_fix :
  exists cs data d n,
    0 < cs /\ 1 <= length d /\ length d <= cs /\
    let parent := init source (length data) {| sdata := data; sched := [] |} in
    let child := init (state source) (child_max source parent) parent in
    Inv source parent /\ Inv (state source) child /\
    ~ Inv (state source)
        (snd (read_ (state source) (child_rd source src_read cs false d) cs false child n)).
Proof.
  exists 4, b_abdash, b_dash, 3.
  split; [lia|]. split; [simpl; lia|]. split; [simpl; lia|].
  split; [split; simpl; lia|]. split; [split; simpl; lia|].
  vm_compute. intros [_ H]. lia.
Qed.

Lemma sync_child_witness_after_fix :
  let parent := init source 7 {| sdata := b_abdash; sched := [] |} in
  let child := init (state source) (child_max source parent) parent in
  Inv (state source)
      (snd (read_ (state source) (child_rd source src_read 4 true b_dash) 4 true child 3))
  /\ fst (read_ (state source) (child_rd source src_read 4 true b_dash) 4 true child 3)
     = [97; 98]%N.
Proof. vm_compute. split; [split; lia | reflexivity]. Qed.
