(* C14 — the two defects of the code as found, as theorems about the [fixed := false]
   variants of the models (witnesses by computation; both were replayed on the real code,
   see corpus/C14 and notes/C14.md). *)
From Coq Require Import ZArith NArith List Bool Arith Lia.
From Falcon.lib Require Import PyStr.
From Falcon.C14 Require Import Spec Model ModelAsync ProofsDefs.
Import ListNotations.
Local Open Scope nat_scope.

Definition b_hello : bytes := [104; 101; 108; 108; 111]%N.   (* b"hello" *)
Definition b_dash : bytes := [45]%N.                       (* b"-" *)

Definition witness_hist : list hop :=
  [HOp (OReadUntil b_dash None false); HOp (ORead None)].

(* async, before the fix: read_until(b'-') at end of stream returns b'hello' and the next
   read() returns b'hello' again *)
Lemma async_history_refuted_before_fix :
  exists cs F chunks h,
    0 < cs /\ length chunks + length (concat chunks) < F /\
    map o_res (async_history cs false F chunks h)
    <> map o_res (spec_history cs (length (concat chunks)) (concat chunks) h).
Proof.
  exists 4, 20, [b_hello], witness_hist. split; [lia|]. split; [vm_compute; lia|].
  vm_compute. discriminate.
Qed.

(* ... and tell() stays at 0 after the five bytes were returned *)
Lemma async_tell_refuted_before_fix :
  exists cs F chunks h,
    0 < cs /\ length chunks + length (concat chunks) < F /\
    map o_tell (async_history cs false F chunks h)
    <> map o_tell (spec_history cs (length (concat chunks)) (concat chunks) h).
Proof.
  exists 4, 20, [b_hello], [HOp (OReadUntil b_dash None false)].
  split; [lia|]. split; [vm_compute; lia|]. vm_compute. discriminate.
Qed.

(* the repaired generator gives the cursor's answers on the same history *)
Lemma async_witness_after_fix :
  async_history 4 true 20 [b_hello] witness_hist
  = spec_history 4 5 b_hello witness_hist.
Proof. vm_compute. reflexivity. Qed.

(* sync, before the fix: _read leaves _buffer_pos beyond the buffer when the source ends
   before the declared length (here: empty source, declared length 3, read(1)).  In the real
   code delimit() then computes max_stream_len = -1 and read_until never returns. *)
Lemma sync_inv_refuted_before_fix :
  exists cs st n,
    0 < cs /\ Inv source st /\
    ~ Inv source (snd (read_ source src_read cs false st n)).
Proof.
  exists 2, (init source 3 {| sdata := []; sched := [] |}), 1.
  split; [lia|]. split; [split; simpl; lia|].
  vm_compute. intros [_ H]. lia.
Qed.

Lemma sync_witness_after_fix :
  Inv source (snd (read_ source src_read 2 true (init source 3 {| sdata := []; sched := [] |}) 1)).
Proof. vm_compute. split; lia. Qed.
