(* C14 — refinement proofs for the async reader (ModelAsync.v): the persistent
   _iter_normalized generator, peek, _iter_with_buffer, _read_from (drain / take_loop), read,
   pipe, tell, eof against the flat cursor of Spec.v, for any conforming async iterator; then,
   for the list-of-chunks source, histories of basic operations. *)
From Coq Require Import ZArith NArith List Bool Arith Lia.
From Falcon.lib Require Import PyStr.
From Falcon.C14 Require Import Spec ModelAsync ProofsSync.
Import ListNotations.
Local Open Scope nat_scope.

Section AsyncProofs.
Variable S : Type.
Variable nxt : S -> option bytes * S.
Variable sabs : S -> bytes.        (* all bytes the source will still yield, concatenated *)
Variable smeas : S -> nat.         (* number of items the source can still yield *)
(* The contract is relative to a predicate [SP] on source states that [nxt] preserves (a
   delimited child reads from its parent's suspended generator, which conforms only in states
   satisfying the parent's invariants); [SD] is whatever is known about a source state after
   it has reported its end.  The top level takes both to be [fun _ => True]. *)
Variable SP : S -> Prop.
Variable SD : S -> Prop.
(* F = the fuel of the model's loops; B <= F = the bound the invariant keeps on the number
   of source items (a child reader needs 3 more than its parent); T = total number of bytes *)
Variable cs F B T : nat.
Hypothesis cs_pos : 0 < cs.
Hypothesis HBF : B <= F.
(* a conforming async iterator *)
Hypothesis Hnxt : forall s, SP s ->
                            match nxt s with
                            | (Some c, s') => sabs s = c ++ sabs s' /\ smeas s' < smeas s /\ SP s'
                            | (None, s') => sabs s = [] /\ SP s' /\ SD s'
                            end.

(* bytes not yet yielded by the _iter_normalized generator *)
Definition pending (st : astate S) : bytes :=
  match nph S st with NRun => nacc S st ++ sabs (asrc st) | _ => [] end.

(* the flat cursor a reader state stands for *)
Definition aabs (st : astate S) : bytes := skipn (abpos st) (abuf st) ++ pending st.

(* Differences from the first draft of the invariant:
   - clause 4 [ablen - abpos <= consumed] is new: without it tell() (a truncated subtraction
     in the model) is not determined by the abstraction;
   - clause 5 is an equivalence (the draft had only ->), needed for [exhausted st' = true]
     in source_next_spec when the generator has already finished;
   - clause 6 asks for [smeas + 3 <= F] (the draft had [smeas < F]): a read may see two
     buffered items, then one item per source item, then the final partial chunk;
   - clause 7 [2 <= F] is new: the two buffered items must be served even when the source
     generator has already finished;
   - clauses 6 and 7 bound by [B <= F], clause 8 [SP (asrc st)] and clause 9 (a finished
     _iter_normalized has seen its source end: [SD]) are new with the relativised contract. *)
Definition AInv (st : astate S) : Prop :=
  ablen st = length (abuf st) /\ abpos st <= ablen st /\
  consumed st + length (pending st) = T /\
  ablen st - abpos st <= consumed st /\
  (exhausted st = true <-> nph S st = NDone) /\
  (nph S st = NRun -> smeas (asrc st) + 3 <= B) /\
  2 <= B /\
  SP (asrc st) /\
  (nph S st <> NRun -> SD (asrc st)).

(* number of items the normalized generator can still yield *)
Definition need (st : astate S) : nat :=
  match nph S st with NRun => Datatypes.S (smeas (asrc st)) | _ => 0 end.

(* ------------------------------------------------------------------ 1. _iter_normalized *)
Lemma norm_loop_spec : forall fuel st acc s o st',
  smeas s < fuel -> SP s ->
  norm_loop S nxt cs fuel st acc s = (o, st') ->
  abuf st' = abuf st /\ ablen st' = ablen st /\ abpos st' = abpos st /\
  SP (asrc st') /\ (nph S st' <> NRun -> SD (asrc st')) /\
  match o with
  | Some c => c <> [] /\ consumed st' = consumed st + length c /\
              exhausted st' = exhausted st /\ acc ++ sabs s = c ++ pending st' /\
              need st' <= smeas s /\ nph S st' <> NDone
  | None => acc ++ sabs s = [] /\ consumed st' = consumed st /\ exhausted st' = true /\
            nph S st' = NDone
  end.
Proof.
  induction fuel as [|f IH]; intros st acc s o st' Hf HSP H; [lia|].
  cbn [norm_loop] in H. pose proof (Hnxt s HSP) as Hs.
  destruct (nxt s) as [[item|] s1] eqn:En.
  - destruct Hs as (Hab & Hm & HSP1).
    destruct (Nat.leb_spec cs (length acc)) as [Hle|Hgt].
    + inversion H; subst o st'; clear H. unfold pending, need. cbn [abuf ablen abpos consumed exhausted nph nacc asrc].
      repeat split; auto.
      * intros Hx. contradiction.
      * intros ->. simpl in Hle. lia.
      * rewrite Hab. reflexivity.
      * discriminate.
    + apply IH in H; [|lia|exact HSP1]. destruct H as (Hb & Hl & Hp & HSP' & HSD' & Ho).
      repeat split; auto. destruct o as [c|].
      * destruct Ho as (Hc & Hco & Hex & Hpe & Hne & Hnd). repeat split; auto.
        -- rewrite <- Hpe, Hab, app_assoc. reflexivity.
        -- lia.
      * destruct Ho as (Hnil & Hco & Hex & Hnd). repeat split; auto.
        rewrite Hab, app_assoc. exact Hnil.
  - destruct Hs as (Hs & HSP1 & HSD1). destruct acc as [|a acc'].
    + inversion H; subst o st'; clear H. cbn [abuf ablen abpos consumed exhausted nph nacc asrc].
      repeat split; auto.
    + inversion H; subst o st'; clear H. unfold pending, need. cbn [abuf ablen abpos consumed exhausted nph nacc asrc].
      repeat split; auto.
      * discriminate.
      * rewrite Hs, !app_nil_r. reflexivity.
      * lia.
      * discriminate.
Qed.

(* everything the later proofs need about one __anext__ of self._source *)
Lemma source_next_full : forall st o st', AInv st -> source_next S nxt cs F st = (o, st') ->
  AInv st' /\ abuf st' = abuf st /\ ablen st' = ablen st /\ abpos st' = abpos st /\
  match o with
  | Some c => pending st = c ++ pending st' /\ c <> [] /\ need st' < need st
  | None => pending st = [] /\ pending st' = [] /\ exhausted st' = true /\ need st' = 0
  end.
Proof.
  intros st o st' HI H. destruct HI as (Hl & Hp & Hc & Hb & He & Hm & HF & HSP & HSD).
  unfold source_next in H. destruct (nph S st) eqn:Eph.
  - apply norm_loop_spec in H; [|specialize (Hm eq_refl); lia|exact HSP].
    destruct H as (Hb' & Hl' & Hp' & HSP' & HSD' & Ho).
    assert (Hpd : pending st = nacc S st ++ sabs (asrc st)) by (unfold pending; rewrite Eph; reflexivity).
    assert (Hnd : need st = Datatypes.S (smeas (asrc st))) by (unfold need; rewrite Eph; reflexivity).
    specialize (Hm eq_refl).
    destruct o as [c|].
    + destruct Ho as (Hcn & Hco & Hex & Hpe & Hne & Hndone).
      assert (Hlen : length (pending st) = length c + length (pending st'))
        by (rewrite Hpd, Hpe, app_length; reflexivity).
      split; [|repeat split; auto; try congruence; lia].
      unfold AInv. rewrite Hb', Hl', Hp', Hco, Hex.
      split; [exact Hl|]. split; [exact Hp|]. split; [lia|]. split; [lia|]. split; [split|].
      * intros Hx. apply He in Hx. discriminate.
      * intros Hx. contradiction.
      * split; [|split; [exact HF|split; [exact HSP'|exact HSD']]].
        intros Hr. unfold need in Hne. rewrite Hr in Hne. lia.
    + destruct Ho as (Hnil & Hco & Hex & Hndone).
      assert (Hp0 : pending st' = []) by (unfold pending; rewrite Hndone; reflexivity).
      assert (Hn0 : need st' = 0) by (unfold need; rewrite Hndone; reflexivity).
      split; [|repeat split; auto; congruence].
      unfold AInv. rewrite Hb', Hl', Hp', Hco, Hp0. rewrite Hpd, Hnil in Hc.
      repeat split; auto. rewrite Hndone. discriminate.
  - inversion H; subst o st'; clear H.
    assert (HSD0 : SD (asrc st)) by (apply HSD; discriminate).
    unfold AInv, pending, need in *. cbn [abuf ablen abpos consumed exhausted nph nacc asrc].
    rewrite Eph in *. repeat split; auto. discriminate.
  - inversion H; subst o st'; clear H.
    assert (Hp0 : pending st = []) by (unfold pending; rewrite Eph; reflexivity).
    assert (Hn0 : need st = 0) by (unfold need; rewrite Eph; reflexivity).
    split; [unfold AInv; rewrite Eph; repeat split; auto; try apply He; auto; discriminate|].
    repeat split; auto. apply He. reflexivity.
Qed.

Lemma source_next_spec : forall st o st', AInv st -> source_next S nxt cs F st = (o, st') ->
  AInv st' /\ abuf st' = abuf st /\ ablen st' = ablen st /\ abpos st' = abpos st /\
  match o with
  | Some c => pending st = c ++ pending st' /\ c <> []
  | None => pending st = [] /\ pending st' = [] /\ exhausted st' = true
  end.
Proof.
  intros st o st' HI H. apply source_next_full in H; [|exact HI].
  destruct H as (HI' & Hb & Hl & Hp & Ho).
  split; [exact HI'|]. split; [exact Hb|]. split; [exact Hl|]. split; [exact Hp|].
  destruct o as [c|].
  - destruct Ho as (H1 & H2 & _). split; assumption.
  - destruct Ho as (H1 & H2 & H3 & _). repeat split; assumption.
Qed.

(* ------------------------------------------------------------------ small facts *)
Lemma pending_set_buf : forall st b l p, pending (set_buf S st b l p) = pending st.
Proof. reflexivity. Qed.

Lemma pending_set_pos : forall st p, pending (set_pos S st p) = pending st.
Proof. reflexivity. Qed.

Lemma need_set_buf : forall st b l p, need (set_buf S st b l p) = need st.
Proof. reflexivity. Qed.

Lemma need_set_pos : forall st p, need (set_pos S st p) = need st.
Proof. reflexivity. Qed.

Lemma need_0_pending : forall st, need st = 0 -> pending st = [].
Proof.
  clear cs_pos HBF.
  intros st H. unfold need, pending in *. destruct (nph S st); [discriminate|reflexivity|reflexivity].
Qed.

Lemma need_le_F : forall st, AInv st -> need st + 2 <= B.
Proof.
  clear cs_pos HBF.
  intros st (_ & _ & _ & _ & _ & Hm & HF & HSP & HSD). unfold need. destruct (nph S st); [|lia|lia].
  specialize (Hm eq_refl). lia.
Qed.

Lemma buffered_len : forall st, AInv st -> length (skipn (abpos st) (abuf st)) = ablen st - abpos st.
Proof. clear cs_pos HBF. intros st (Hl & _). rewrite skipn_length. lia. Qed.

Lemma aabs_length : forall st, AInv st ->
  length (aabs st) = (ablen st - abpos st) + length (pending st).
Proof.
  clear cs_pos HBF.
  intros st HI. unfold aabs. rewrite app_length, buffered_len by exact HI. reflexivity.
Qed.

Lemma aabs_length_le : forall st, AInv st -> length (aabs st) <= T.
Proof.
  clear cs_pos HBF.
  intros st HI. rewrite aabs_length by exact HI. destruct HI as (_ & _ & Hc & Hb & _). lia.
Qed.

(* moving / replacing the buffer: the invariant only looks at the buffer fields *)
Lemma AInv_set_buf : forall st b l p, AInv st -> l = length b -> p <= l -> l - p <= consumed st ->
  AInv (set_buf S st b l p).
Proof.
  clear cs_pos HBF.
  intros st b l p (Hl & Hp & Hc & Hb & He & Hm & HF & HSP & HSD) Hlb Hpl Hco.
  unfold AInv. rewrite pending_set_buf. cbn [set_buf abuf ablen abpos consumed exhausted nph asrc].
  repeat split; auto; apply He.
Qed.

Lemma AInv_set_pos : forall st p, AInv st -> abpos st <= p -> p <= ablen st -> AInv (set_pos S st p).
Proof.
  clear cs_pos HBF.
  intros st p (Hl & Hp & Hc & Hb & He & Hm & HF & HSP & HSD) Hlo Hhi.
  unfold AInv. rewrite pending_set_pos. cbn [set_pos abuf ablen abpos consumed exhausted nph asrc].
  repeat split; auto; try lia; apply He.
Qed.

Lemma trim_spec : forall st, AInv st ->
  AInv (trim_buffer S st) /\ aabs (trim_buffer S st) = aabs st /\
  abpos (trim_buffer S st) = 0 /\ need (trim_buffer S st) = need st.
Proof.
  clear cs_pos HBF.
  intros st HI. pose proof HI as (Hl & Hp & Hc & Hb & He & Hm & HF & HSP & HSD). unfold trim_buffer.
  split; [|split; [|split]]; try reflexivity.
  apply AInv_set_buf; [exact HI| rewrite skipn_length; lia | lia | lia].
Qed.

(* ------------------------------------------------------------------ 2. peek *)
Lemma peek_loop_spec : forall fuel st size,
  AInv st -> abpos st = 0 -> need st <= fuel ->
  let st' := peek_loop S nxt cs F fuel st size in
  AInv st' /\ aabs st' = aabs st /\ abpos st' = 0 /\ (size <= ablen st' \/ pending st' = []).
Proof.
  induction fuel as [|f IH]; intros st size HI Hp0 Hf; cbv zeta.
  - cbn [peek_loop]. split; [exact HI|]. split; [reflexivity|]. split; [exact Hp0|].
    right. apply need_0_pending. lia.
  - cbn [peek_loop]. destruct (source_next S nxt cs F st) as [o st1] eqn:Esn.
    apply source_next_full in Esn; [|exact HI].
    destruct Esn as (HI1 & Hb1 & Hl1 & Hp1 & Ho).
    destruct o as [chunk|].
    + destruct Ho as (Hpe & Hcn & Hne).
      set (st2 := set_buf S st1 (abuf st1 ++ chunk) (length (abuf st1 ++ chunk)) (abpos st1)).
      assert (HI2 : AInv st2).
      { apply AInv_set_buf; [exact HI1|reflexivity|rewrite app_length; destruct HI1 as (? & ? & _); lia|].
        rewrite app_length.
        destruct HI as (Hl & Hp & Hc & Hb & _). destruct HI1 as (Hl' & Hp' & Hc' & Hb' & _).
        apply (f_equal (@length N)) in Hpe. rewrite app_length in Hpe. lia. }
      assert (Ha2 : aabs st2 = aabs st).
      { unfold aabs. change (pending st2) with (pending st1).
        change (abuf st2) with (abuf st1 ++ chunk). change (abpos st2) with (abpos st1).
        rewrite Hp1, Hp0, Hb1, Hpe. simpl. rewrite app_assoc. reflexivity. }
      assert (Hp2 : abpos st2 = 0) by (change (abpos st2) with (abpos st1); congruence).
      fold st2. destruct (Nat.leb_spec size (ablen st2)) as [Hle|Hgt].
      * split; [exact HI2|]. split; [exact Ha2|]. split; [exact Hp2|]. left. exact Hle.
      * destruct (IH st2 size HI2 Hp2) as (HI' & Ha' & Hp' & Hor).
        { unfold st2. rewrite need_set_buf. lia. }
        split; [exact HI'|]. split; [congruence|]. split; [exact Hp'|]. exact Hor.
    + destruct Ho as (Hpe & Hpe1 & Hex & Hn0).
      split; [exact HI1|]. split; [|split; [congruence|right; exact Hpe1]].
      unfold aabs. rewrite Hb1, Hp1, Hpe, Hpe1. reflexivity.
Qed.

Lemma apeek_spec : forall st size out st', AInv st -> apeek S nxt cs F st size = (out, st') ->
  out = sp_peek cs size (aabs st) /\ aabs st' = aabs st /\ AInv st'.
Proof.
  intros st size out st' HI H. unfold apeek in H. unfold sp_peek.
  remember (match size with None => cs | Some n => if cs <? n then cs else n end) as n eqn:Heqn.
  clear Heqn.
  set (st1 := if 0 <? abpos st then trim_buffer S st else st) in H.
  assert (H1 : AInv st1 /\ aabs st1 = aabs st /\ abpos st1 = 0).
  { unfold st1. destruct (Nat.ltb_spec 0 (abpos st)) as [Hlt|Hge].
    - destruct (trim_spec st HI) as (Ha & Hb & Hc & _). auto.
    - split; [exact HI|]. split; [reflexivity|lia]. }
  destruct H1 as (HI1 & Ha1 & Hp1). clearbody st1.
  set (st2 := if ablen st1 <? n then peek_loop S nxt cs F F st1 n else st1) in H.
  assert (H2 : AInv st2 /\ aabs st2 = aabs st1 /\ abpos st2 = 0 /\ (n <= ablen st2 \/ pending st2 = [])).
  { unfold st2. destruct (Nat.ltb_spec (ablen st1) n) as [Hlt|Hge].
    - apply peek_loop_spec; auto. pose proof (need_le_F st1 HI1). lia.
    - split; [exact HI1|]. split; [reflexivity|]. split; [exact Hp1|]. left. exact Hge. }
  destruct H2 as (HI2 & Ha2 & Hp2 & Hor). clearbody st2.
  inversion H; subst out st'; clear H.
  split; [|split; [congruence|exact HI2]].
  rewrite <- Ha1, <- Ha2. unfold aabs. rewrite Hp2. cbn [skipn].
  destruct Hor as [Hle|Hnil].
  - rewrite firstn_app_l; [reflexivity|]. destruct HI2 as (Hl & _). lia.
  - rewrite Hnil, app_nil_r. reflexivity.
Qed.

(* ------------------------------------------------------------------ 3. _iter_with_buffer *)
(* invariant of a suspended _iter_with_buffer generator: once it iterates over self._source
   the buffer has been handed out completely *)
Definition GInv (w : wgen) (st : astate S) : Prop :=
  match w with W2 => abpos st = ablen st | _ => True end.

(* upper bound on the number of items the generator can still yield *)
Definition gmeas (w : wgen) (st : astate S) : nat :=
  match w with W0 => 2 | W1 => 1 | W2 => 0 end + need st.

Lemma buffer_empty : forall st, AInv st -> abpos st = ablen st -> skipn (abpos st) (abuf st) = [].
Proof.
  clear cs_pos HBF.
  intros st (Hl & _) Hp. apply skipn_all2. lia.
Qed.

Lemma gmeas_0 : forall w st, AInv st -> GInv w st -> gmeas w st = 0 -> aabs st = [].
Proof.
  clear cs_pos HBF.
  intros w st HI HG H0. unfold gmeas in H0. destruct w; try lia. cbn [GInv] in HG.
  unfold aabs. rewrite buffer_empty by assumption. rewrite need_0_pending by lia. reflexivity.
Qed.

(* yield self._buffer[buffer_pos:self._buffer_len] *)
Lemma rest_step : forall st, AInv st ->
  AInv (set_pos S st (ablen st)) /\
  aabs st = firstn (ablen st - abpos st) (skipn (abpos st) (abuf st)) ++ aabs (set_pos S st (ablen st)).
Proof.
  clear cs_pos HBF.
  intros st HI. pose proof HI as (Hl & Hp & _).
  split; [apply AInv_set_pos; [exact HI|lia|lia]|].
  unfold aabs. rewrite pending_set_pos. cbn [set_pos abuf abpos].
  rewrite firstn_all2 by (rewrite skipn_length; lia).
  rewrite (@skipn_all2 _ (ablen st) (abuf st)) by lia. reflexivity.
Qed.

(* async for chunk in self._source: yield chunk *)
Lemma src_step : forall st o st', AInv st -> abpos st = ablen st ->
  source_next S nxt cs F st = (o, st') ->
  AInv st' /\ abpos st' = ablen st' /\
  match o with
  | Some c => aabs st = c ++ aabs st' /\ need st' < need st
  | None => aabs st = [] /\ aabs st' = []
  end.
Proof.
  intros st o st' HI Hpe H. apply source_next_full in H; [|exact HI].
  destruct H as (HI' & Hb & Hl & Hp & Ho).
  assert (Hpe' : abpos st' = ablen st') by congruence.
  split; [exact HI'|]. split; [exact Hpe'|].
  unfold aabs. rewrite !buffer_empty by assumption. cbn [app].
  destruct o as [c|].
  - destruct Ho as (H1 & _ & H3). split; assumption.
  - destruct Ho as (H1 & H2 & _). split; assumption.
Qed.

Lemma iwb_step : forall hint w st o w' st', AInv st -> GInv w st ->
  iwb_next S nxt cs F hint w st = (o, w', st') ->
  AInv st' /\ GInv w' st' /\
  match o with
  | Some c => aabs st = c ++ aabs st' /\ gmeas w' st' < gmeas w st
  | None => aabs st = [] /\ aabs st' = []
  end.
Proof.
  intros hint w st o w' st' HI HG H. pose proof HI as (Hl & Hp & _).
  assert (Hrest : forall w0, w0 <> W2 ->
    (Some (firstn (ablen st - abpos st) (skipn (abpos st) (abuf st))), W2, set_pos S st (ablen st))
      = (o, w', st') ->
    AInv st' /\ GInv w' st' /\
    match o with
    | Some c => aabs st = c ++ aabs st' /\ gmeas w' st' < gmeas w0 st
    | None => aabs st = [] /\ aabs st' = []
    end).
  { intros w0 Hw0 E. inversion E; subst o w' st'; clear E.
    destruct (rest_step st HI) as [HI' Ha]. split; [exact HI'|]. split; [reflexivity|].
    split; [exact Ha|]. unfold gmeas. rewrite need_set_pos. destruct w0; try lia. contradiction. }
  assert (Hsrc : forall w0, abpos st = ablen st ->
    (let '(o, st1) := source_next S nxt cs F st in (o, W2, st1)) = (o, w', st') ->
    AInv st' /\ GInv w' st' /\
    match o with
    | Some c => aabs st = c ++ aabs st' /\ gmeas w' st' < gmeas w0 st
    | None => aabs st = [] /\ aabs st' = []
    end).
  { intros w0 Hpe E. destruct (source_next S nxt cs F st) as [o1 st1] eqn:Esn.
    inversion E; subst o w' st'; clear E.
    apply src_step in Esn; [|exact HI|exact Hpe]. destruct Esn as (HI' & Hpe' & Ho).
    split; [exact HI'|]. split; [exact Hpe'|].
    destruct o1 as [c|]; [|exact Ho]. destruct Ho as [Ha Hn]. split; [exact Ha|].
    unfold gmeas. destruct w0; lia. }
  destruct w; cbn [iwb_next] in H.
  - destruct (Nat.ltb_spec (abpos st) (ablen st)) as [Hlt|Hge].
    + destruct (Nat.ltb_spec 0 hint) as [Hh0|Hh0]; cbn [andb] in H;
        [destruct (Nat.ltb_spec hint (ablen st - abpos st)) as [Hh1|Hh1]|].
      * inversion H; subst o w' st'; clear H.
        split; [apply AInv_set_pos; [exact HI|lia|lia]|]. split; [exact I|]. split.
        -- unfold aabs. rewrite pending_set_pos. cbn [set_pos abuf abpos].
           rewrite app_assoc. f_equal. rewrite <- skipn_skipn'. rewrite firstn_skipn. reflexivity.
        -- unfold gmeas. rewrite need_set_pos. lia.
      * apply (Hrest W0); [discriminate|exact H].
      * apply (Hrest W0); [discriminate|exact H].
    + apply (Hsrc W0); [lia|exact H].
  - apply (Hrest W1); [discriminate|exact H].
  - apply (Hsrc W2); [exact HG|exact H].
Qed.

(* ------------------------------------------------------------------ 4. _read_from *)
Lemma drain_spec : forall fuel hint w st acc out st', AInv st -> GInv w st -> gmeas w st <= fuel ->
  drain S nxt cs true F fuel (GW hint w) st acc = (out, st') ->
  out = Some (acc ++ aabs st) /\ aabs st' = [] /\ AInv st'.
Proof.
  induction fuel as [|f IH]; intros hint w st acc out st' HI HG Hf H.
  - cbn [drain] in H. inversion H; subst out st'; clear H.
    assert (Hnil : aabs st = []) by (apply (gmeas_0 w); [assumption|assumption|lia]).
    rewrite Hnil, app_nil_r. auto.
  - cbn [drain gen_next] in H.
    destruct (iwb_next S nxt cs F hint w st) as [[o w1] st1] eqn:Eiwb.
    apply iwb_step in Eiwb; [|exact HI|exact HG]. destruct Eiwb as (HI1 & HG1 & Ho).
    destruct o as [c|].
    + destruct Ho as [Ha Hm]. apply IH in H; [|exact HI1|exact HG1|lia].
      destruct H as (Hout & Hnil & HI'). split; [|auto].
      rewrite Hout, Ha, app_assoc. reflexivity.
    + destruct Ho as [Ha Ha1]. inversion H; subst out st'; clear H.
      rewrite Ha, app_nil_r. auto.
Qed.

(* self._prepend_buffer(chunk[remaining:]) *)
Lemma prepend_spec : forall st x, AInv st -> length x + (ablen st - abpos st) <= consumed st ->
  AInv (prepend_buffer S st x) /\ aabs (prepend_buffer S st x) = x ++ aabs st.
Proof.
  clear cs_pos HBF.
  intros st x HI Hx. pose proof HI as (Hl & Hp & _). unfold prepend_buffer.
  destruct (Nat.ltb_spec (abpos st) (ablen st)) as [Hlt|Hge]; cbv zeta.
  - split.
    + apply AInv_set_buf; [exact HI|reflexivity|lia|].
      rewrite app_length, skipn_length. lia.
    + unfold aabs. rewrite pending_set_buf. cbn [set_buf abuf abpos skipn].
      rewrite app_assoc. reflexivity.
  - split.
    + apply AInv_set_buf; [exact HI|reflexivity|lia|lia].
    + unfold aabs. rewrite pending_set_buf. cbn [set_buf abuf abpos skipn].
      rewrite (skipn_all2 (abuf st)) by lia. reflexivity.
Qed.

Lemma take_loop_spec : forall fuel hint w st rem acc out st', AInv st -> GInv w st ->
  gmeas w st <= fuel -> 0 < rem ->
  take_loop S nxt cs true F fuel (GW hint w) st rem acc = (out, st') ->
  out = Some (acc ++ firstn rem (aabs st)) /\ aabs st' = skipn rem (aabs st) /\ AInv st'.
Proof.
  induction fuel as [|f IH]; intros hint w st rem acc out st' HI HG Hf Hrem H.
  - cbn [take_loop] in H. inversion H; subst out st'; clear H.
    assert (Hnil : aabs st = []) by (apply (gmeas_0 w); [assumption|assumption|lia]).
    rewrite Hnil, firstn_nil, skipn_nil, app_nil_r. auto.
  - cbn [take_loop gen_next] in H.
    destruct (iwb_next S nxt cs F hint w st) as [[o w1] st1] eqn:Eiwb.
    apply iwb_step in Eiwb; [|exact HI|exact HG]. destruct Eiwb as (HI1 & HG1 & Ho).
    destruct o as [c|].
    + destruct Ho as [Ha Hm].
      destruct (Nat.ltb_spec rem (length c)) as [Hlt|Hge].
      * inversion H; subst out st'; clear H.
        destruct (prepend_spec st1 (skipn rem c) HI1) as [HI' Ha'].
        { pose proof (aabs_length_le st HI) as Hle. rewrite Ha, app_length in Hle.
          rewrite aabs_length in Hle by exact HI1. rewrite skipn_length.
          destruct HI1 as (_ & _ & Hc1 & _). lia. }
        rewrite Ha, Ha'. rewrite firstn_app_l by lia. rewrite skipn_app_l by lia. auto.
      * destruct (Nat.eqb_spec (rem - length c) 0) as [Hz|Hnz].
        -- inversion H; subst out st'; clear H.
           rewrite Ha. rewrite firstn_app_r by lia. rewrite skipn_app_r by lia.
           rewrite Hz. cbn [firstn skipn]. rewrite app_nil_r. auto.
        -- apply IH in H; [|exact HI1|exact HG1|lia|lia].
           destruct H as (Hout & Ha' & HI'). split; [|split; [|exact HI']].
           ++ rewrite Hout, Ha. rewrite firstn_app_r by lia. rewrite app_assoc. reflexivity.
           ++ rewrite Ha', Ha. rewrite skipn_app_r by lia. reflexivity.
    + destruct Ho as [Ha Ha1]. inversion H; subst out st'; clear H.
      rewrite Ha, Ha1, firstn_nil, skipn_nil, app_nil_r. auto.
Qed.

Lemma read_from_spec : forall st size out st', AInv st ->
  read_from S nxt cs true F (GW (hint_of size) W0) st size = (out, st') ->
  (out, aabs st') = (Some (fst (sp_read size (aabs st))), snd (sp_read size (aabs st))) /\ AInv st'.
Proof.
  intros st size out st' HI H. unfold read_from in H. unfold sp_read, lim. cbn [fst snd].
  pose proof (need_le_F st HI) as HF.
  destruct size as [[|n]|].
  - inversion H; subst out st'; clear H. cbn [Nat.min firstn skipn]. auto.
  - apply take_loop_spec in H; [|exact HI|exact I|unfold gmeas; lia|lia].
    destruct H as (Hout & Ha & HI'). split; [|exact HI'].
    rewrite Hout, Ha. rewrite firstn_min_len, skipn_min_len. reflexivity.
  - apply drain_spec in H; [|exact HI|exact I|unfold gmeas; lia].
    destruct H as (Hout & Ha & HI'). split; [|exact HI'].
    rewrite Hout, Ha. rewrite firstn_all, skipn_all. reflexivity.
Qed.

(* ------------------------------------------------------------------ 5. read, pipe *)
Lemma aread_spec : forall st size out st', AInv st -> aread S nxt cs true F st size = (out, st') ->
  (out, aabs st') = sp_read size (aabs st) /\ AInv st'.
Proof.
  intros st size out st' HI H. unfold aread in H.
  destruct (read_from S nxt cs true F (GW (hint_of size) W0) st size) as [o st1] eqn:Erf.
  apply read_from_spec in Erf; [|exact HI]. destruct Erf as [E HI1].
  injection E as Eo Ea. subst o. inversion H; subst out st'; clear H.
  split; [|exact HI1]. rewrite Ea. unfold sp_read. reflexivity.
Qed.

Lemma apipe_spec : forall st out st', AInv st -> apipe S nxt cs true F st = (out, st') ->
  out = aabs st /\ aabs st' = [] /\ AInv st'.
Proof.
  intros st out st' HI H. unfold apipe in H. pose proof (need_le_F st HI) as HF.
  destruct (drain S nxt cs true F F (GW 0 W0) st []) as [o st1] eqn:Ed.
  apply drain_spec in Ed; [|exact HI|exact I|unfold gmeas; lia].
  destruct Ed as (Ho & Ha & HI1). subst o. inversion H; subst out st'; clear H. auto.
Qed.

(* ------------------------------------------------------------------ 6. tell, eof *)
Lemma atell_spec : forall st, AInv st -> atell S st + length (aabs st) = T.
Proof.
  clear cs_pos HBF.
  intros st HI. rewrite aabs_length by exact HI. unfold atell.
  destruct HI as (_ & _ & Hc & Hb & _). lia.
Qed.

Lemma aeof_sound : forall st, AInv st -> aeof S st = true -> aabs st = [].
Proof.
  clear cs_pos HBF.
  intros st HI H. unfold aeof in H. apply andb_true_iff in H as [Hex Heq].
  apply Nat.eqb_eq in Heq. unfold aabs. rewrite buffer_empty by (auto; lia).
  destruct HI as (_ & _ & _ & _ & He & _). apply He in Hex. unfold pending. rewrite Hex. reflexivity.
Qed.

(* ------------------------------------------------------------------ 7. the basic operations *)
Lemma a_refine_op_basic : forall st o r st', basic_op o = true -> AInv st ->
  arun_op S nxt cs true F st o = (r, st') ->
  sp_op cs o (aabs st) = (r, aabs st') /\ AInv st'.
Proof.
  intros st o r st' Hb HI H.
  destruct o; try discriminate Hb; cbn [arun_op sp_op] in *.
  - destruct (aread S nxt cs true F st size) as [b st1] eqn:E. inversion H; subst r st'.
    apply aread_spec in E; [|exact HI]. destruct E as [E HI']. split; [|exact HI'].
    rewrite <- E. reflexivity.
  - destruct (apeek S nxt cs F st size) as [b st1] eqn:E. inversion H; subst r st'.
    apply apeek_spec in E; [|exact HI]. destruct E as (Ho & Ha & HI'). split; [|exact HI'].
    rewrite Ho, Ha. reflexivity.
  - destruct (apipe S nxt cs true F st) as [b st1] eqn:E. inversion H; subst r st'.
    apply apipe_spec in E; [|exact HI]. destruct E as (Ho & Ha & HI'). split; [|exact HI'].
    rewrite Ho, Ha. reflexivity.
  - destruct (apipe S nxt cs true F st) as [b st1] eqn:E. inversion H; subst r st'.
    apply apipe_spec in E; [|exact HI]. destruct E as (Ho & Ha & HI'). split; [|exact HI'].
    rewrite Ha. reflexivity.
Qed.

End AsyncProofs.

(* ================================================================== the unconditional contract *)
(* the statements for a source that conforms in every state (the top-level reader): SP and SD
   trivial, B = F *)
Definition TrueP {S : Type} (_ : S) : Prop := True.

Definition AInv_total (S : Type) (sabs : S -> bytes) (smeas : S -> nat) (F T : nat)
  : astate S -> Prop := AInv S sabs smeas TrueP TrueP F T.

Lemma Hnxt_total : forall (S : Type) (nxt : S -> option bytes * S) (sabs : S -> bytes)
  (smeas : S -> nat),
  (forall s, match nxt s with
             | (Some c, s') => sabs s = c ++ sabs s' /\ smeas s' < smeas s
             | (None, s') => sabs s = []
             end) ->
  forall s, @TrueP S s ->
            match nxt s with
            | (Some c, s') => sabs s = c ++ sabs s' /\ smeas s' < smeas s /\ @TrueP S s'
            | (None, s') => sabs s = [] /\ @TrueP S s' /\ @TrueP S s'
            end.
Proof.
  intros S nxt sabs smeas H s _. specialize (H s). destruct (nxt s) as [[c|] s'].
  - destruct H as [H1 H2]. repeat split; assumption.
  - repeat split; assumption.
Qed.

Lemma a_refine_op_basic_total : forall (S : Type) (nxt : S -> option bytes * S)
  (sabs : S -> bytes) (smeas : S -> nat) (cs F T : nat),
  0 < cs ->
  (forall s, match nxt s with
             | (Some c, s') => sabs s = c ++ sabs s' /\ smeas s' < smeas s
             | (None, s') => sabs s = []
             end) ->
  forall st o r st', basic_op o = true -> AInv_total S sabs smeas F T st ->
  arun_op S nxt cs true F st o = (r, st') ->
  sp_op cs o (aabs S sabs st) = (r, aabs S sabs st') /\ AInv_total S sabs smeas F T st'.
Proof.
  intros S nxt sabs smeas cs F T Hcs H.
  exact (a_refine_op_basic S nxt sabs smeas TrueP TrueP cs F F T Hcs (le_n F)
           (Hnxt_total S nxt sabs smeas H)).
Qed.

Lemma atell_spec_total : forall (S : Type) (sabs : S -> bytes) (smeas : S -> nat) (F T : nat)
  (st : astate S), AInv_total S sabs smeas F T st -> atell S st + length (aabs S sabs st) = T.
Proof. intros S sabs smeas F T. exact (atell_spec S sabs smeas TrueP TrueP F T). Qed.

Lemma aeof_sound_total : forall (S : Type) (sabs : S -> bytes) (smeas : S -> nat) (F T : nat)
  (st : astate S), AInv_total S sabs smeas F T st -> aeof S st = true -> aabs S sabs st = [].
Proof. intros S sabs smeas F T. exact (aeof_sound S sabs smeas TrueP TrueP F T). Qed.

(* ================================================================== the list-of-chunks source *)
Lemma chunks_next_good : forall s : list bytes,
  match chunks_next s with
  | (Some c, s') => concat s = c ++ concat s' /\ length s' < length s
  | (None, s') => concat s = []
  end.
Proof.
  intros [|c tl]; cbn [chunks_next concat length]; [reflexivity|]. split; [reflexivity|lia].
Qed.

(* the async reader agrees with the cursor on results and tell(); its eof flag may lag behind
   (it is raised only once the source has reported its end), but is never raised early *)
Definition obs_ok (a s : obs) : Prop :=
  o_res a = o_res s /\ o_tell a = o_tell s /\ (o_end a = true -> o_end s = true).

Lemma a_refine_run_basic : forall cs F T, 0 < cs -> forall ops (st : astate (list bytes)) t,
  forallb basic_op ops = true ->
  AInv_total (list bytes) (@concat N) (@length bytes) F T st ->
  t + length (aabs (list bytes) (@concat N) st) = T ->
  Forall2 obs_ok (async_run cs true F (A0 st) (flat ops))
                 (sp_run cs [] [t] (aabs (list bytes) (@concat N) st) (flat ops)).
Proof.
  intros cs F T Hcs. induction ops as [|o ops IH]; intros st t Hb HI Ht; [constructor|].
  cbn [forallb] in Hb. apply andb_true_iff in Hb as [Hbo Hbs].
  unfold flat. cbn [map async_run async_step sp_run view]. fold (flat ops).
  destruct (arun_op (list bytes) nx0 cs true F st o) as [r st'] eqn:Erun.
  unfold nx0 in Erun.
  destruct (a_refine_op_basic_total (list bytes) chunks_next (@concat N) (@length bytes) cs F T Hcs
              chunks_next_good st o r st' Hbo HI Erun) as [Hsp HI'].
  rewrite Hsp. cbn [astack_obs map last].
  pose proof (sp_op_suffix cs o _ _ _ Hbo Hsp) as Hsuf.
  pose proof (atell_spec_total (list bytes) (@concat N) (@length bytes) F T st' HI') as Htell.
  remember (aabs (list bytes) (@concat N) st) as v eqn:Hv.
  remember (aabs (list bytes) (@concat N) st') as v' eqn:Hv'.
  assert (Hlen : length v' <= length v).
  { rewrite Hsuf at 1. rewrite skipn_length. lia. }
  constructor.
  - unfold obs_ok. cbn [o_res o_tell o_end]. split; [reflexivity|]. split; [lia|].
    intros He. apply (aeof_sound_total (list bytes) (@concat N) (@length bytes) F T st' HI') in He.
    rewrite <- Hv' in He. rewrite He. reflexivity.
  - rewrite <- Hsuf. rewrite Hv'. apply IH; [exact Hbs|exact HI'|]. rewrite <- Hv'. lia.
Qed.

(* the initial state of the top-level reader *)
Lemma ainit_AInv : forall (chunks : list bytes) B, length chunks + 3 <= B ->
  AInv (list bytes) (@concat N) (@length bytes) TrueP TrueP B (length (concat chunks))
       (ainit (list bytes) chunks).
Proof.
  intros chunks B HB. unfold AInv, pending, ainit, TrueP.
  cbn [abuf ablen abpos consumed exhausted nph nacc asrc length app].
  repeat split; try lia; try discriminate.
Qed.

Lemma a_refine_history_basic : forall cs F chunks ops, 0 < cs -> length chunks + 3 <= F ->
  forallb basic_op ops = true ->
  Forall2 obs_ok (async_history cs true F chunks (flat ops))
                 (spec_history cs (length (concat chunks)) (concat chunks) (flat ops)).
Proof.
  intros cs F chunks ops Hcs HF Hb. unfold async_history, spec_history.
  rewrite firstn_all.
  change (concat chunks) with (aabs (list bytes) (@concat N) (ainit (list bytes) chunks)).
  apply (a_refine_run_basic cs F (length (concat chunks)) Hcs ops (ainit (list bytes) chunks) 0 Hb).
  - apply ainit_AInv. exact HF.
  - reflexivity.
Qed.
