(* C14 — executable model of falcon/asgi/reader.py:BufferedReader, statement by statement.
   Async generators are explicit step functions (generator state -> next item).  The reader
   is generic in its source (an async iterator: [nxt s = (Some chunk, s')] or [(None, s')]
   for StopAsyncIteration), so that a delimited sub-reader is the same model whose source
   is the parent's suspended _iter_delimited generator.

   [fixed] selects the repaired end-of-stream yield of _iter_delimited
   (fixes/C14-async-iter-delimited.patch); [fixed := false] is the code as found.
   [F] is the fuel given to every loop (the harness passes a bound above the number of
   source chunks plus bytes; the out-of-fuel results are never reached). *)
From Coq Require Import ZArith NArith List Bool Arith Lia.
From Falcon.lib Require Import PyStr.
From Falcon.gen Require Import ConstsC14.
From Falcon.C14 Require Import Spec.
Import ListNotations.
Local Open Scope nat_scope.

Section Async.
Variable S : Type.
Variable nxt : S -> option bytes * S.      (* source.__anext__() *)
Variable cs : nat.                         (* self._chunk_size *)
Variable fixed : bool.
Variable F : nat.

(* phase of the persistent _iter_normalized generator (self._source) *)
Inductive nphase := NRun | NFinal | NDone.

Record astate := amk {
  abuf : bytes;         (* _buffer *)
  ablen : nat;          (* _buffer_len *)
  abpos : nat;          (* _buffer_pos *)
  consumed : nat;       (* _consumed *)
  exhausted : bool;     (* _exhausted *)
  nacc : bytes;         (* local `chunk` of _iter_normalized *)
  nph : nphase;
  asrc : S }.

Definition ainit (s : S) : astate := amk [] 0 0 0 false [] NRun s.

Definition set_buf (st : astate) (b : bytes) (l p : nat) : astate :=
  amk b l p (consumed st) (exhausted st) (nacc st) (nph st) (asrc st).

Definition set_pos (st : astate) (p : nat) : astate :=
  amk (abuf st) (ablen st) p (consumed st) (exhausted st) (nacc st) (nph st) (asrc st).

(* the `async for item in source` loop of _iter_normalized up to its next yield *)
Fixpoint norm_loop (fuel : nat) (st : astate) (acc : bytes) (s : S) : option bytes * astate :=
  match fuel with
  | 0 => (None, st)
  | Datatypes.S f =>
    match nxt s with
    | (Some item, s') =>
      if cs <=? length acc then
        (Some acc, amk (abuf st) (ablen st) (abpos st) (consumed st + length acc) (exhausted st)
                       item NRun s')
      else norm_loop f st (acc ++ item) s'
    | (None, s') =>
      match acc with
      | [] => (None, amk (abuf st) (ablen st) (abpos st) (consumed st) true [] NDone s')
      | _ => (Some acc, amk (abuf st) (ablen st) (abpos st) (consumed st + length acc)
                            (exhausted st) [] NFinal s')
      end
    end
  end.

(* self._source.__anext__() *)
Definition source_next (st : astate) : option bytes * astate :=
  match nph st with
  | NRun => norm_loop F st (nacc st) (asrc st)
  | NFinal => (None, amk (abuf st) (ablen st) (abpos st) (consumed st) true [] NDone (asrc st))
  | NDone => (None, st)
  end.

Definition trim_buffer (st : astate) : astate :=
  set_buf st (skipn (abpos st) (abuf st)) (ablen st - abpos st) 0.

Definition prepend_buffer (st : astate) (chunk : bytes) : astate :=
  if abpos st <? ablen st then
    let b := chunk ++ skipn (abpos st) (abuf st) in set_buf st b (length b) 0
  else set_buf st chunk (length chunk) 0.

(* ---- _iter_with_buffer(size_hint) *)
Inductive wgen := W0 | W1 | W2.

Definition iwb_next (hint : nat) (g : wgen) (st : astate) : option bytes * wgen * astate :=
  match g with
  | W0 =>
    if abpos st <? ablen st then
      if (0 <? hint) && (hint <? ablen st - abpos st) then
        (Some (firstn hint (skipn (abpos st) (abuf st))), W1, set_pos st (abpos st + hint))
      else
        (Some (firstn (ablen st - abpos st) (skipn (abpos st) (abuf st))), W2, set_pos st (ablen st))
    else let '(o, st1) := source_next st in (o, W2, st1)
  | W1 =>
    (Some (firstn (ablen st - abpos st) (skipn (abpos st) (abuf st))), W2, set_pos st (ablen st))
  | W2 => let '(o, st1) := source_next st in (o, W2, st1)
  end.

(* ---- _iter_delimited(delimiter, size_hint) *)
Inductive dgen :=
| D0                    (* not started *)
| DHintFound (pos : nat)   (* suspended at the size_hint yield, delimiter known at pos *)
| DHintNone             (* suspended at the size_hint yield, no delimiter in the buffer *)
| DLoop                 (* about to fetch the next chunk *)
| DLoop168              (* suspended at `yield output`; resumes at the find below *)
| DDone.

(* the tail of the loop body: pos = self._buffer.find(delimiter) ... *)
Definition idel_find (d : bytes) (st : astate) : option (option bytes * dgen * astate) :=
  match find d (abuf st) with
  | Some pos =>
    if 0 <? pos then Some (Some (firstn pos (abuf st)), DDone, set_pos st pos)
    else Some (None, DDone, st)
  | None => None     (* next iteration *)
  end.

Fixpoint idel_loop (fuel : nat) (d : bytes) (st : astate) : option bytes * dgen * astate :=
  match fuel with
  | 0 => (None, DDone, st)
  | Datatypes.S f =>
    let dl1 := length d - 1 in
    match source_next st with
    | (None, st1) =>
      (* source exhausted: yield self._buffer *)
      (Some (abuf st1), DDone, if fixed then set_pos st1 (ablen st1) else st1)
    | (Some chunk, st1) =>
      if dl1 <? ablen st1 then
        let offset := ablen st1 - dl1 in
        let fragment := skipn offset (abuf st1) ++ firstn dl1 chunk in
        match find d fragment with
        | None => (Some (abuf st1), DLoop168, set_buf st1 chunk (length chunk) (abpos st1))
        | Some pos =>
          let b := abuf st1 ++ chunk in
          (Some (firstn (offset + pos) b), DDone,
           set_buf st1 b (ablen st1 + length chunk) (offset + pos))
        end
      else
        let st2 := match abuf st1 with
                   | [] => set_buf st1 chunk (length chunk) (abpos st1)
                   | _ => set_buf st1 (abuf st1 ++ chunk) (ablen st1 + length chunk) (abpos st1)
                   end in
        match idel_find d st2 with
        | Some r => r
        | None => idel_loop f d st2
        end
    end
  end.

Definition idel_enter_loop (d : bytes) (st : astate) : option bytes * dgen * astate :=
  let st1 := if 0 <? abpos st then trim_buffer st else st in
  idel_loop F d st1.

Inductive dres := DYield (o : option bytes) (g : dgen) (st : astate) | DValueError.

Definition idel_next (d : bytes) (hint : nat) (g : dgen) (st : astate) : dres :=
  let dl1 := length d - 1 in
  match g with
  | D0 =>
    if (length d =? 0) || (cs <? length d) then DValueError else
    if abpos st <? ablen st then
      match find d (skipn (abpos st) (abuf st)) with
      | Some i =>
        let pos := abpos st + i in
        if pos =? 0 then DYield None DDone st
        else if (0 <? hint) && (hint <? pos - abpos st) then
          DYield (Some (firstn hint (skipn (abpos st) (abuf st)))) (DHintFound pos)
                 (set_pos st (abpos st + hint))
        else
          DYield (Some (firstn (pos - abpos st) (skipn (abpos st) (abuf st)))) DDone (set_pos st pos)
      | None =>
        if (0 <? hint) && (hint + dl1 <? ablen st - abpos st) then
          DYield (Some (firstn hint (skipn (abpos st) (abuf st)))) DHintNone
                 (set_pos st (abpos st + hint))
        else let '(o, g', st') := idel_enter_loop d st in DYield o g' st'
      end
    else let '(o, g', st') := idel_enter_loop d st in DYield o g' st'
  | DHintFound pos =>
    DYield (Some (firstn (pos - abpos st) (skipn (abpos st) (abuf st)))) DDone (set_pos st pos)
  | DHintNone => let '(o, g', st') := idel_enter_loop d st in DYield o g' st'
  | DLoop => let '(o, g', st') := idel_loop F d st in DYield o g' st'
  | DLoop168 =>
    match idel_find d st with
    | Some (o, g', st') => DYield o g' st'
    | None => let '(o, g', st') := idel_loop F d st in DYield o g' st'
    end
  | DDone => DYield None DDone st
  end.

(* ---- _read_from(source, size) over either generator *)
Inductive gen := GW (hint : nat) (g : wgen) | GD (d : bytes) (hint : nat) (g : dgen).

Inductive gres := GItem (o : option bytes) (g : gen) (st : astate) | GValueError.

Definition gen_next (g : gen) (st : astate) : gres :=
  match g with
  | GW hint w => let '(o, w', st') := iwb_next hint w st in GItem o (GW hint w') st'
  | GD d hint dg =>
    match idel_next d hint dg st with
    | DYield o dg' st' => GItem o (GD d hint dg') st'
    | DValueError => GValueError
    end
  end.

(* size = -1 / None: drain *)
Fixpoint drain (fuel : nat) (g : gen) (st : astate) (acc : bytes) : option bytes * astate :=
  match fuel with
  | 0 => (Some acc, st)
  | Datatypes.S f =>
    match gen_next g st with
    | GValueError => (None, st)
    | GItem None _ st' => (Some acc, st')
    | GItem (Some chunk) g' st' => drain f g' st' (acc ++ chunk)
    end
  end.

Fixpoint take_loop (fuel : nat) (g : gen) (st : astate) (remaining : nat) (acc : bytes)
  : option bytes * astate :=
  match fuel with
  | 0 => (Some acc, st)
  | Datatypes.S f =>
    match gen_next g st with
    | GValueError => (None, st)
    | GItem None _ st' => (Some acc, st')
    | GItem (Some chunk) g' st' =>
      if remaining <? length chunk then
        (Some (acc ++ firstn remaining chunk), prepend_buffer st' (skipn remaining chunk))
      else
        let remaining' := remaining - length chunk in
        if remaining' =? 0 then (Some (acc ++ chunk), st')
        else take_loop f g' st' remaining' (acc ++ chunk)
    end
  end.

(* None = ValueError *)
Definition read_from (g : gen) (st : astate) (size : option nat) : option bytes * astate :=
  match size with
  | None => drain F g st []
  | Some 0 => (Some [], st)
  | Some n => take_loop F g st n []
  end.

Definition hint_of (size : option nat) : nat := match size with Some n => n | None => 0 end.

Definition aread (st : astate) (size : option nat) : bytes * astate :=
  match read_from (GW (hint_of size) W0) st size with
  | (Some b, st') => (b, st')
  | (None, st') => ([], st')      (* unreachable: _iter_with_buffer never raises *)
  end.

Fixpoint peek_loop (fuel : nat) (st : astate) (size : nat) : astate :=
  match fuel with
  | 0 => st
  | Datatypes.S f =>
    match source_next st with
    | (None, st1) => st1
    | (Some chunk, st1) =>
      let b := abuf st1 ++ chunk in
      let st2 := set_buf st1 b (length b) (abpos st1) in
      if size <=? ablen st2 then st2 else peek_loop f st2 size
    end
  end.

Definition apeek (st : astate) (size : option nat) : bytes * astate :=
  let n := match size with None => cs | Some n => if cs <? n then cs else n end in
  let st1 := if 0 <? abpos st then trim_buffer st else st in
  let st2 := if ablen st1 <? n then peek_loop F st1 n else st1 in
  (firstn n (abuf st2), st2).

(* true = ok, false = DelimiterError *)
Definition consume_delimiter (st : astate) (d : bytes) : bool * astate :=
  let '(pk, st1) := apeek st (Some (length d)) in
  if str_eqb pk d then (true, set_pos st1 (abpos st1 + length d)) else (false, st1).

Definition aread_until (st : astate) (d : bytes) (size : option nat) (consume : bool)
  : result * astate :=
  match read_from (GD d (hint_of size) D0) st size with
  | (None, st1) => (RValErr, st1)
  | (Some b, st1) =>
    if consume then
      let '(ok, st2) := consume_delimiter st1 d in
      if ok then (RBytes b, st2) else (RDelimErr [], st2)
    else (RBytes b, st1)
  end.

Definition apipe (st : astate) : bytes * astate :=
  match drain F (GW 0 W0) st [] with
  | (Some b, st') => (b, st')
  | (None, st') => ([], st')
  end.

Definition apipe_until (st : astate) (d : bytes) (consume : bool) : result * astate :=
  match drain F (GD d 0 D0) st [] with
  | (None, st1) => (RValErr, st1)
  | (Some b, st1) =>
    if consume then
      let '(ok, st2) := consume_delimiter st1 d in
      if ok then (RBytes b, st2) else (RDelimErr b, st2)
    else (RBytes b, st1)
  end.

Definition atell (st : astate) : nat := consumed st - (ablen st - abpos st).
Definition aeof (st : astate) : bool := exhausted st && (ablen st =? abpos st).

Definition arun_op (st : astate) (o : op) : result * astate :=
  match o with
  | ORead size => let '(b, st1) := aread st size in (RBytes b, st1)
  | OPeek size => let '(b, st1) := apeek st size in (RBytes b, st1)
  | OReadUntil d size consume => aread_until st d size consume
  | OPipe => let '(b, st1) := apipe st in (RBytes b, st1)
  | OPipeUntil d consume => apipe_until st d consume
  | OExhaust => let '(_, st1) := apipe st in (RBytes [], st1)
  | OReadline _ => (RValErr, st)      (* the async reader has no readline()/readlines() *)
  | OReadlines _ => (RValErr, st)
  end.

(* delimit(): the child's source is the suspended generator self._iter_delimited(delimiter) *)
Definition child_nxt (d : bytes) (p : dgen * astate) : option bytes * (dgen * astate) :=
  match idel_next d 0 (fst p) (snd p) with
  | DYield o g' st' => (o, (g', st'))
  | DValueError => (None, (DDone, snd p))
  end.

End Async.

Arguments abuf {S}.
Arguments ablen {S}.
Arguments abpos {S}.
Arguments consumed {S}.
Arguments exhausted {S}.
Arguments asrc {S}.

(* ---- top-level source: the list of chunks the async iterator yields *)
Definition chunks_next (l : list bytes) : option bytes * list bytes :=
  match l with [] => (None, []) | c :: tl => (Some c, tl) end.

Section AsyncHistory.
Variable cs : nat.
Variable fixed : bool.
Variable F : nat.

Definition a0 := astate (list bytes).
Definition a1 := astate (dgen * a0).
Definition a2 := astate (dgen * a1).

Definition nx0 := chunks_next.
Definition nx1 (d1 : bytes) := child_nxt (list bytes) nx0 cs fixed F d1.
Definition nx2 (d1 d2 : bytes) := child_nxt (dgen * a0) (nx1 d1) cs fixed F d2.

Inductive astack :=
| A0 (s : a0)
| A1 (d1 : bytes) (s : a1)
| A2 (d1 d2 : bytes) (s : a2).

Definition astack_obs (k : astack) : nat * bool :=
  match k with
  | A0 s => (atell _ s, aeof _ s)
  | A1 _ s => (atell _ s, aeof _ s)
  | A2 _ _ s => (atell _ s, aeof _ s)
  end.

Definition async_step (k : astack) (h : hop) : result * astack :=
  match h, k with
  | HOp o, A0 s => let '(r, s') := arun_op _ nx0 cs fixed F s o in (r, A0 s')
  | HOp o, A1 d1 s => let '(r, s') := arun_op _ (nx1 d1) cs fixed F s o in (r, A1 d1 s')
  | HOp o, A2 d1 d2 s => let '(r, s') := arun_op _ (nx2 d1 d2) cs fixed F s o in (r, A2 d1 d2 s')
  | HDelimit d, A0 s => (RBytes [], A1 d (ainit _ (D0, s)))
  | HDelimit d, A1 d1 s => (RBytes [], A2 d1 d (ainit _ (D0, s)))
  | HDelimit d, A2 _ _ _ => (RBytes [], k)
  | HPop, A0 _ => (RBytes [], k)
  | HPop, A1 d1 s => let '(_, s') := apipe _ (nx1 d1) cs fixed F s in (RBytes [], A0 (snd (asrc s')))
  | HPop, A2 d1 d2 s => let '(_, s') := apipe _ (nx2 d1 d2) cs fixed F s in (RBytes [], A1 d1 (snd (asrc s')))
  end.

Fixpoint async_run (k : astack) (h : list hop) : list obs :=
  match h with
  | [] => []
  | x :: h' =>
    let '(r, k') := async_step k x in
    let '(t, e) := astack_obs k' in
    {| o_res := r; o_tell := t; o_end := e |} :: async_run k' h'
  end.

Definition async_history (chunks : list bytes) (h : list hop) : list obs :=
  async_run (A0 (ainit _ chunks)) h.

End AsyncHistory.
