From Coq Require Import ZArith List Bool String.
From Coq Require Import ExtrOcamlBasic.
From Falcon.lib Require Import Wire PyStr.
From Falcon.C14 Require Import Spec Oracle Model ModelAsync.
Import ListNotations.
Open Scope Z_scope.

Definition d_size (v : val) : option nat := dopt dnat v.

Definition d_op (v : val) : op :=
  match v with
  | L [I 0; s] => ORead (d_size s)
  | L [I 1; s] => OPeek (d_size s)
  | L [I 2; d; s; c] => OReadUntil (dstr d) (d_size s) (dbool c)
  | L [I 3] => OPipe
  | L [I 4; d; c] => OPipeUntil (dstr d) (dbool c)
  | L [I 5; s] => OReadline (d_size s)
  | L [I 6; s] => OReadlines (d_size s)
  | _ => OExhaust
  end.

Definition d_hop (v : val) : hop :=
  match v with
  | L [I 0; o] => HOp (d_op o)
  | L [I 1; d] => HDelimit (dstr d)
  | _ => HPop
  end.

Definition v_result (r : result) : val :=
  match r with
  | RBytes b => L [I 0; vstr b]
  | RDelimErr b => L [I 1; vstr b]
  | RLines l => L [I 2; vlist vstr l]
  | RValErr => L [I 3]
  end.

Definition d_result (v : val) : result :=
  match v with
  | L [I 0; b] => RBytes (dstr b)
  | L [I 1; b] => RDelimErr (dstr b)
  | L [I 2; l] => RLines (dlist dstr l)
  | _ => RValErr
  end.

Definition d_obs (v : val) : obs :=
  {| o_res := d_result (nth_val 0 v); o_tell := dnat (nth_val 1 v); o_end := dbool (nth_val 2 v) |}.

Definition v_obs (o : obs) : val :=
  L [v_result (o_res o); vnat (o_tell o); vbool (o_end o)].

(* ops: 0 spec cursor  [0; cs; maxlen; data; history]
        1 sync model   [1; cs; maxlen; data; schedule; history]
        2 async model  [2; cs; chunks; history]
        3 oracle on an observed run  [3; sync?; cs; maxlen; data; history; observations] -> first bad step *)
Definition run (v : val) : val :=
  match v with
  | L [I 0; cs; maxlen; data; h] =>
    vlist v_obs (spec_history (dnat cs) (dnat maxlen) (dstr data) (dlist d_hop h))
  | L [I 1; cs; maxlen; data; sch; h] =>
    vlist v_result (sync_history (dnat cs) (dnat maxlen) (dstr data) (dlist dnat sch) (dlist d_hop h))
  | L [I 2; cs; chunks; h] =>
    let cl := dlist dstr chunks in
    let fuel := (List.length cl + List.length (List.concat cl) + 10)%nat in
    vlist v_obs (async_history (dnat cs) true fuel cl (dlist d_hop h))
  | L [I 3; sync; cs; maxlen; data; h; impl] =>
    vopt vnat (oracle (dbool sync) (dnat cs) (dnat maxlen) (dstr data) (dlist d_hop h) (dlist d_obs impl))
  | _ => L [I (-1)]
  end.

Extraction "C14/model.ml" run.
