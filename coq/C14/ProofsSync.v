(* C14 — refinement proofs for the sync reader: perform_read, fill_buffer, peek, _read, read,
   pipe against the flat cursor of Spec.v, for any conforming source; then for the scripted
   top-level source, histories of basic operations. *)
From Coq Require Import ZArith NArith List Bool Arith Lia.
From Falcon.lib Require Import PyStr.
From Falcon.C14 Require Import Spec Model ProofsDefs.
Import ListNotations.
Local Open Scope nat_scope.

(* ------------------------------------------------------------------ generic list lemmas *)
Section ListLemmas.
Context {A : Type}.
Implicit Types l : list A.

Lemma skipn_skipn' x y l : skipn x (skipn y l) = skipn (y + x) l.
Proof.
  revert l. induction y as [|y IH]; intros l.
  - reflexivity.
  - destruct l as [|a l].
    + rewrite !skipn_nil. reflexivity.
    + simpl. apply IH.
Qed.

Lemma firstn_split_at c m l :
  c <= m -> firstn c l ++ firstn (m - c) (skipn c l) = firstn m l.
Proof.
  intros H.
  transitivity (firstn c (firstn m l) ++ skipn c (firstn m l)); [|apply firstn_skipn].
  rewrite firstn_firstn, skipn_firstn_comm.
  rewrite Nat.min_l by lia. reflexivity.
Qed.

Lemma firstn_min_r n r l : length l <= r -> firstn (Nat.min n r) l = firstn n l.
Proof.
  intros H. destruct (Nat.le_ge_cases n r) as [Hn|Hn].
  - rewrite Nat.min_l by lia. reflexivity.
  - rewrite Nat.min_r by lia. rewrite !firstn_all2 by lia. reflexivity.
Qed.

Lemma skipn_min_r n r l : length l <= r -> skipn (Nat.min n r) l = skipn n l.
Proof.
  intros H. destruct (Nat.le_ge_cases n r) as [Hn|Hn].
  - rewrite Nat.min_l by lia. reflexivity.
  - rewrite Nat.min_r by lia. rewrite !skipn_all2 by lia. reflexivity.
Qed.

Lemma firstn_min_len n l : firstn (Nat.min n (length l)) l = firstn n l.
Proof. apply firstn_min_r. lia. Qed.

Lemma skipn_min_len n l : skipn (Nat.min n (length l)) l = skipn n l.
Proof. apply skipn_min_r. lia. Qed.

Lemma skipn_firstn_glue a c l : a <= c -> skipn a (firstn c l) ++ skipn c l = skipn a l.
Proof.
  intros H.
  transitivity (skipn a (firstn c l ++ skipn c l)); [|rewrite firstn_skipn; reflexivity].
  rewrite skipn_app. f_equal. rewrite firstn_length.
  destruct (Nat.le_ge_cases c (length l)) as [Hc|Hc].
  - rewrite Nat.min_l by lia. replace (a - c) with 0 by lia. reflexivity.
  - rewrite (skipn_all2 l) by lia. rewrite skipn_nil. reflexivity.
Qed.

(* firstn / skipn across an append when the request stays inside the first part *)
Lemma firstn_app_l n l1 l2 : n <= length l1 -> firstn n (l1 ++ l2) = firstn n l1.
Proof.
  intros H. rewrite firstn_app. replace (n - length l1) with 0 by lia.
  simpl. apply app_nil_r.
Qed.

Lemma skipn_app_l n l1 l2 : n <= length l1 -> skipn n (l1 ++ l2) = skipn n l1 ++ l2.
Proof.
  intros H. rewrite skipn_app. replace (n - length l1) with 0 by lia. reflexivity.
Qed.

(* ... and when it goes beyond the first part *)
Lemma firstn_app_r n l1 l2 :
  length l1 <= n -> firstn n (l1 ++ l2) = l1 ++ firstn (n - length l1) l2.
Proof. intros H. rewrite firstn_app. rewrite firstn_all2 by lia. reflexivity. Qed.

Lemma skipn_app_r n l1 l2 :
  length l1 <= n -> skipn n (l1 ++ l2) = skipn (n - length l1) l2.
Proof. intros H. rewrite skipn_app. rewrite skipn_all2 by lia. reflexivity. Qed.

End ListLemmas.

Definition basic_op (o : op) : bool :=
  match o with ORead _ | OPeek _ | OPipe | OExhaust => true | _ => false end.

(* ================================================================== the source contract, relativised *)
(* [good_source] (ProofsDefs.v) quantifies over all source states.  A parent reader is a
   conforming source for its delimited child only in states satisfying its representation
   invariant, so the contract is relativised to a predicate [P] on source states that the read
   function preserves. *)
Definition good_source_on {T : Type} (P : T -> Prop) (crd : T -> nat -> bytes * T)
           (cabs : T -> bytes) : Prop :=
  forall s n, P s -> 0 < n ->
    exists k, k <= n /\
      fst (crd s n) = firstn k (cabs s) /\
      cabs (snd (crd s n)) = skipn k (cabs s) /\
      (cabs s <> [] -> 0 < k) /\
      P (snd (crd s n)).

Lemma good_source_total : forall S rd sabs,
  good_source S rd sabs -> good_source_on (fun _ : S => True) rd sabs.
Proof.
  intros S rd sabs H s n _ Hn. destruct (H s n Hn) as (k & H1 & H2 & H3 & H4).
  exists k. auto.
Qed.

(* what the invariant says about the source side of a reader state: the source state
   satisfies [P]; and, when [NT] holds, the byte budget _max_bytes_remaining covers everything
   the source will still deliver (so that [tail st = sabs (src st)]: no truncation).  [NT] is
   False for the top-level reader (whose budget is the declared stream length) and True for
   delimited children (whose budget is the parent's _normalize_size(None)). *)
Definition srcok (S : Type) (sabs : S -> bytes) (P : S -> Prop) (NT : Prop) (st : state S) : Prop :=
  P (src st) /\ (NT -> length (sabs (src st)) <= rem st).

(* the representation invariant of a reader over such a source *)
Definition InvP (S : Type) (sabs : S -> bytes) (P : S -> Prop) (NT : Prop) (st : state S) : Prop :=
  ProofsDefs.Inv S st /\ srcok S sabs P NT st.

Lemma InvP_total : forall S sabs (st : state S),
  InvP S sabs (fun _ => True) False st <-> ProofsDefs.Inv S st.
Proof.
  intros S sabs st. unfold InvP, srcok. split; [tauto|]. intro H. split; [exact H|].
  split; [exact I | intros []].
Qed.

(* ================================================================== any conforming source *)
Section SyncProofs.
Variable S : Type.
Variable rd : S -> nat -> bytes * S.
Variable sabs : S -> bytes.
Variable cs : nat.
Variable P : S -> Prop.
Variable NT : Prop.
Hypothesis Hsrc : good_source_on P rd sabs.
Hypothesis cs_pos : 0 < cs.
Notation tail := (tail S sabs).
Notation abs := (abs S sabs).
Notation srcok := (srcok S sabs P NT).
Notation Inv := (InvP S sabs P NT).

(* the source contract, phrased on the length of the returned chunk *)
Lemma rd_spec : forall s n chunk s', P s -> 0 < n -> rd s n = (chunk, s') ->
  length chunk <= n /\
  chunk = firstn (length chunk) (sabs s) /\
  sabs s' = skipn (length chunk) (sabs s) /\
  (length chunk = 0 -> sabs s = []) /\
  P s'.
Proof using Hsrc.
  clear cs_pos.
  intros s n chunk s' HP Hpos Erd.
  destruct (Hsrc s n HP Hpos) as (k & Hk & Hout & Habs & Hne & HP').
  rewrite Erd in Hout, Habs, HP'. cbn [fst snd] in Hout, Habs, HP'.
  subst chunk. rewrite firstn_length.
  destruct (Nat.le_ge_cases k (length (sabs s))) as [Hkl|Hkl].
  - rewrite Nat.min_l by lia. repeat split; auto.
    intros Hk0. destruct (sabs s) as [|a l] eqn:El; [reflexivity|].
    assert (0 < k) by (apply Hne; discriminate). lia.
  - rewrite Nat.min_r by lia. repeat split.
    + lia.
    + rewrite !firstn_all2 by lia. reflexivity.
    + rewrite Habs. rewrite !skipn_all2 by lia. reflexivity.
    + intros Hl0. destruct (sabs s); [reflexivity|discriminate].
    + exact HP'.
Qed.

(* ------------------------------------------------------------------ 1. _perform_read *)
Lemma pr_loop_spec : forall fuel size cl result r s res r' s',
  pr_loop S rd fuel size cl result r s = (res, r', s') ->
  P s -> size - cl <= r -> size - cl <= fuel ->
  res = result ++ firstn (size - cl) (sabs s) /\
  firstn r' (sabs s') = skipn (size - cl) (firstn r (sabs s)) /\
  P s' /\ (length (sabs s) <= r -> length (sabs s') <= r').
Proof using Hsrc.
  clear cs_pos.
  induction fuel as [|f IH]; intros size cl result r s res r' s' Hloop HP Hr Hf.
  - cbn [pr_loop] in Hloop. inversion Hloop; subst res r' s'.
    replace (size - cl) with 0 by lia. simpl. rewrite app_nil_r. auto.
  - cbn [pr_loop] in Hloop. remember (size - cl) as m eqn:Heqm.
    destruct (Nat.eqb_spec m 0) as [Hm|Hm].
    + inversion Hloop; subst res r' s'. rewrite Hm. simpl. rewrite app_nil_r. auto.
    + destruct (rd s m) as [chunk s1] eqn:Erd.
      assert (Hmpos : 0 < m) by lia.
      destruct (rd_spec s m chunk s1 HP Hmpos Erd) as (Hle & Hch & Hab & Hz & HP1).
      destruct (Nat.eqb_spec (length chunk) 0) as [Hc|Hc].
      * inversion Hloop; subst res r' s'. rewrite Hab, (Hz Hc).
        rewrite !firstn_nil, !skipn_nil, app_nil_r. simpl. auto.
      * apply IH in Hloop; try lia; [|exact HP1].
        destruct Hloop as (Hres & Htl & HP' & Hnt). split; [|split; [|split]].
        -- rewrite Hres, Hab, <- app_assoc. f_equal.
           rewrite Hch at 1. apply firstn_split_at. lia.
        -- rewrite Htl, Hab. rewrite <- skipn_firstn_comm. rewrite skipn_skipn'.
           f_equal. lia.
        -- exact HP'.
        -- intro Hlen. apply Hnt. rewrite Hab, skipn_length. lia.
Qed.

Lemma tail_length : forall st, length (tail st) <= rem st.
Proof using. clear cs_pos. intros st. unfold ProofsDefs.tail. rewrite firstn_length. lia. Qed.

Lemma perform_read_spec : forall st n out st', srcok st ->
  perform_read S rd st n = (out, st') ->
  out = firstn n (tail st) /\ tail st' = skipn n (tail st) /\
  buf st' = buf st /\ blen st' = blen st /\ bpos st' = bpos st /\ srcok st'.
Proof using Hsrc.
  clear cs_pos.
  intros st n out st' Hok H. pose proof Hok as [HP Hnt]. unfold perform_read in H.
  pose proof (tail_length st) as Hlen.
  rewrite <- (firstn_min_r n (rem st) (tail st) Hlen).
  rewrite <- (skipn_min_r n (rem st) (tail st) Hlen).
  remember (Nat.min n (rem st)) as m eqn:Heqm.
  assert (Hm : m <= rem st) by lia.
  clear Heqm Hlen.
  destruct (Nat.eqb_spec m 0) as [Hm0|Hm0].
  - inversion H; subst out st'. rewrite Hm0. simpl. auto 6.
  - destruct (rd (src st) m) as [chunk s1] eqn:Erd.
    assert (Hmpos : 0 < m) by lia.
    destruct (rd_spec (src st) m chunk s1 HP Hmpos Erd) as (Hle & Hch & Hab & Hz & HP1).
    unfold ProofsDefs.tail, ProofsSync.srcok.
    destruct (Nat.eqb_spec (length chunk) m) as [Hcm|Hcm].
    + inversion H; subst out st'. cbn [rem src buf blen bpos].
      repeat split; auto.
      * rewrite firstn_firstn, Nat.min_l by lia. rewrite <- Hcm. exact Hch.
      * rewrite Hab, <- skipn_firstn_comm, Hcm. reflexivity.
      * intro HN. specialize (Hnt HN). rewrite Hab, skipn_length. lia.
    + destruct (Nat.eqb_spec (length chunk) 0) as [Hc0|Hc0].
      * inversion H; subst out st'. cbn [rem src buf blen bpos].
        rewrite Hab, (Hz Hc0). rewrite !firstn_nil, !skipn_nil. simpl. auto 7.
      * destruct (pr_loop S rd m m (length chunk) chunk (rem st - length chunk) s1)
          as [[res r2] s2] eqn:Eloop.
        inversion H; subst out st'. cbn [rem src buf blen bpos].
        apply pr_loop_spec in Eloop; try lia; [|exact HP1].
        destruct Eloop as (Hres & Htl & HP2 & Hnt2). repeat split; auto.
        -- rewrite firstn_firstn, Nat.min_l by lia.
           rewrite Hres, Hab. rewrite Hch at 1. apply firstn_split_at. lia.
        -- rewrite Htl, Hab. rewrite <- skipn_firstn_comm. rewrite skipn_skipn'.
           f_equal. lia.
        -- intro HN. specialize (Hnt HN). apply Hnt2. rewrite Hab, skipn_length. lia.
Qed.

(* ------------------------------------------------------------------ small facts *)
(* [srcok] only looks at the budget and the source *)
Lemma srcok_frame : forall st st', rem st' = rem st -> src st' = src st -> srcok st -> srcok st'.
Proof using. clear cs_pos. intros st st' Hr Hs. unfold ProofsSync.srcok. rewrite Hr, Hs. auto. Qed.

(* with [NT] the budget does not truncate *)
Lemma tail_notrunc : forall st, NT -> srcok st -> tail st = sabs (src st).
Proof using.
  clear cs_pos. intros st HN [_ Hnt]. unfold ProofsDefs.tail. apply firstn_all2. auto.
Qed.

Lemma buffered_length : forall st, Inv st -> length (skipn (bpos st) (buf st)) = avail S st.
Proof using. clear cs_pos. intros st [[Hl Hp] _]. rewrite skipn_length. unfold avail. lia. Qed.

Lemma abs_length : forall st, Inv st ->
  length (abs st) = avail S st + length (tail st).
Proof using.
  clear cs_pos.
  intros st HI. unfold ProofsDefs.abs. rewrite app_length, buffered_length by exact HI.
  reflexivity.
Qed.

Lemma abs_length_le : forall st, Inv st -> length (abs st) <= rem st + avail S st.
Proof using.
  clear cs_pos.
  intros st HI. rewrite abs_length by exact HI. pose proof (tail_length st). lia.
Qed.

(* ------------------------------------------------------------------ 2. _fill_buffer *)
Lemma fill_buffer_spec : forall st, Inv st -> let st' := fill_buffer S rd cs st in
  Inv st' /\ abs st' = abs st /\ (cs <= avail S st' \/ tail st' = []).
Proof using Hsrc.
  clear cs_pos.
  intros st HI. cbv zeta. pose proof HI as [[Hl Hp] Hok]. unfold fill_buffer.
  destruct (Nat.ltb_spec (avail S st) cs) as [Hlt|Hge].
  2:{ split; [exact HI|]. split; [reflexivity|]. left. exact Hge. }
  destruct (perform_read S rd st (cs - avail S st)) as [c st1] eqn:Epr.
  apply perform_read_spec in Epr; [|exact Hok].
  destruct Epr as (Hc & Ht & Hb & Hbl & Hbp & Hok1).
  assert (Hcl : length c = Nat.min (cs - avail S st) (length (tail st)))
    by (rewrite Hc; apply firstn_length).
  assert (Hend : cs - avail S st <= length (tail st) \/ tail st1 = []).
  { destruct (Nat.le_ge_cases (cs - avail S st) (length (tail st))) as [H|H];
      [left; exact H | right; rewrite Ht; apply skipn_all2; exact H]. }
  destruct (Nat.eqb_spec (bpos st) 0) as [Hz|Hnz].
  - unfold InvP, ProofsDefs.Inv, ProofsDefs.abs, avail in *.
    change (tail (mk (buf st1 ++ c) (length (buf st1 ++ c)) (bpos st1) (rem st1) (src st1)))
      with (tail st1).
    change (srcok (mk (buf st1 ++ c) (length (buf st1 ++ c)) (bpos st1) (rem st1) (src st1)))
      with (srcok st1).
    cbn [buf blen bpos] in *.
    rewrite Hb, Hbp, Hz in *. rewrite app_length. split; [split; [split; lia | exact Hok1]|]. split.
    + simpl. rewrite <- app_assoc. f_equal. rewrite Ht, Hc. apply firstn_skipn.
    + destruct Hend as [H|H]; [left; lia | right; exact H].
  - unfold InvP, ProofsDefs.Inv, ProofsDefs.abs, avail in *.
    change (tail (mk (skipn (bpos st) (buf st) ++ c) (length (skipn (bpos st) (buf st) ++ c))
                     0 (rem st1) (src st1)))
      with (tail st1).
    change (srcok (mk (skipn (bpos st) (buf st) ++ c) (length (skipn (bpos st) (buf st) ++ c))
                     0 (rem st1) (src st1)))
      with (srcok st1).
    cbn [buf blen bpos] in *.
    rewrite app_length, skipn_length. split; [split; [split; lia | exact Hok1]|]. split.
    + simpl. rewrite <- app_assoc. f_equal. rewrite Ht, Hc. apply firstn_skipn.
    + destruct Hend as [H|H]; [left; lia | right; exact H].
Qed.

(* ------------------------------------------------------------------ 3. peek *)
Lemma peek_size_le : forall size, peek_size cs size <= cs.
Proof using.
  clear cs_pos.
  intros [n|]; unfold peek_size; [|lia].
  destruct (Nat.ltb_spec cs n); lia.
Qed.

Lemma peek_spec : forall st size out st', Inv st -> peek S rd cs st size = (out, st') ->
  out = sp_peek cs size (abs st) /\ abs st' = abs st /\ Inv st'.
Proof using Hsrc.
  clear cs_pos.
  intros st size out st' HI H. unfold peek in H.
  change (sp_peek cs size (abs st)) with (firstn (peek_size cs size) (abs st)).
  pose proof (peek_size_le size) as Hn.
  remember (peek_size cs size) as n eqn:Heqn. clear Heqn.
  assert (Hst : Inv st' /\ abs st' = abs st /\ (n <= avail S st' \/ tail st' = [])).
  { destruct (Nat.ltb_spec (avail S st) n) as [Hlt|Hge].
    - inversion H; subst st'. clear H.
      destruct (fill_buffer_spec st HI) as (HI' & Ha & He).
      split; [exact HI'|]. split; [exact Ha|].
      destruct He as [He|He]; [left; lia | right; exact He].
    - inversion H; subst st'. split; [exact HI|]. split; [reflexivity|]. left; exact Hge. }
  destruct Hst as (HI' & Ha & He).
  split; [|split; assumption].
  assert (Hout : out = firstn n (skipn (bpos st') (buf st'))).
  { destruct (avail S st <? n); inversion H; reflexivity. }
  rewrite Hout, <- Ha. unfold ProofsDefs.abs.
  destruct He as [He|He].
  - rewrite firstn_app_l; [reflexivity|]. rewrite buffered_length by exact HI'. exact He.
  - rewrite He, app_nil_r. reflexivity.
Qed.

(* ------------------------------------------------------------------ 4. _read *)
Lemma read__spec : forall st n out st', Inv st -> read_ S rd cs true st n = (out, st') ->
  out = firstn n (abs st) /\ abs st' = skipn n (abs st) /\ Inv st'.
Proof using Hsrc.
  clear cs_pos.
  intros st n out st' HI H. pose proof HI as [[Hl Hp] Hok]. pose proof Hok as [HP Hnt].
  pose proof (buffered_length st HI) as Hbl.
  unfold read_ in H.
  destruct (Nat.leb_spec n (avail S st)) as [Hle|Hgt].
  - (* served from the buffer *)
    destruct (Nat.eqb_spec n (blen st)) as [Hnb|Hnb];
      destruct (Nat.eqb_spec (bpos st) 0) as [Hp0|Hp0]; cbn [andb] in H;
      inversion H; subst out st'; clear H.
    1:{ unfold ProofsDefs.abs, InvP, ProofsDefs.Inv.
        change (tail (mk [] 0 (bpos st) (rem st) (src st))) with (tail st).
        change (srcok (mk [] 0 (bpos st) (rem st) (src st))) with (srcok st).
        cbn [buf blen bpos]. rewrite Hp0. simpl.
        rewrite firstn_app_l by lia. rewrite skipn_app_l by lia.
        rewrite firstn_all2, skipn_all2 by lia. simpl. repeat split; auto. }
    all: unfold ProofsDefs.abs, InvP, ProofsDefs.Inv;
      change (tail (mk (buf st) (blen st) (bpos st + n) (rem st) (src st))) with (tail st);
      change (srcok (mk (buf st) (blen st) (bpos st + n) (rem st) (src st))) with (srcok st);
      cbn [buf blen bpos];
      rewrite firstn_app_l by lia; rewrite skipn_app_l by lia;
      rewrite skipn_skipn'; unfold avail in Hle; repeat split; auto; lia.
  - destruct (Nat.eqb_spec (blen st) 0) as [Hb0|Hb0];
      destruct (Nat.leb_spec cs n) as [Hcn|Hcn]; cbn [andb] in H.
    1:{ (* empty buffer, large read: straight from the source *)
        apply perform_read_spec in H; [|exact Hok].
        destruct H as (Ho & Ht & Hb & Hbl' & Hbp & [HP1 Hnt1]).
        assert (Hnil : buf st = []) by (destruct (buf st); [reflexivity|simpl in Hl; lia]).
        unfold ProofsDefs.abs, InvP, ProofsDefs.Inv. rewrite Hb, Hbl', Hbp, Hnil, Ht.
        rewrite !skipn_nil. simpl. repeat split; auto. }
    all: destruct (Nat.leb_spec cs (n - avail S st)) as [Hcr|Hcr].
    all: try match type of H with
         | context [perform_read S rd ?x ?y] =>
           destruct (perform_read S rd x y) as [c st1] eqn:Epr;
           apply perform_read_spec in Epr; [|exact Hok];
           destruct Epr as (Hc & Ht & Hb & Hbl' & Hbp & [HP1 Hnt1])
         end.
    all: inversion H; subst out st'; clear H.
    all: unfold ProofsDefs.abs, InvP, ProofsDefs.Inv.
    all: try change (tail (mk [] 0 0 (rem st) (src st))) with (tail st) in *.
    all: try change (tail (mk c (length c) (Nat.min (n - avail S st) (length c)) (rem st1) (src st1)))
           with (tail st1).
    all: unfold ProofsSync.srcok.
    all: cbn [buf blen bpos] in *.
    all: rewrite firstn_app_r by lia; rewrite skipn_app_r by lia; rewrite Hbl.
    all: try (rewrite Hb, Hbl', Hbp, Ht, Hc; rewrite skipn_nil; simpl; repeat split; auto; fail).
    all: rewrite Ht; rewrite skipn_min_len; rewrite Hc; rewrite firstn_firstn;
      rewrite Nat.min_l by lia; rewrite skipn_firstn_glue by lia;
      repeat split; auto; lia.
Qed.

(* ------------------------------------------------------------------ 5. _normalize_size *)
Lemma normalize_size_spec : forall st size, Inv st ->
  firstn (normalize_size S st size) (abs st) = firstn (lim size (abs st)) (abs st) /\
  skipn (normalize_size S st size) (abs st) = skipn (lim size (abs st)) (abs st).
Proof using.
  clear cs_pos.
  intros st size HI. pose proof (abs_length_le st HI) as Hle.
  unfold normalize_size, lim.
  remember (abs st) as l eqn:Heql. remember (rem st + avail S st) as M eqn:HeqM.
  destruct size as [n|].
  - rewrite firstn_min_len, skipn_min_len. destruct (Nat.ltb_spec M n) as [Hlt|Hge].
    + rewrite !firstn_all2, !skipn_all2 by lia. auto.
    + auto.
  - rewrite firstn_all2, skipn_all2 by lia. rewrite firstn_all, skipn_all. auto.
Qed.

(* ------------------------------------------------------------------ 6. read *)
Lemma read_spec : forall st size out st', Inv st -> read S rd cs true st size = (out, st') ->
  (out, abs st') = sp_read size (abs st) /\ Inv st'.
Proof using Hsrc.
  clear cs_pos.
  intros st size out st' HI H. unfold read in H.
  apply read__spec in H; [|exact HI]. destruct H as (Ho & Ha & HI').
  destruct (normalize_size_spec st size HI) as [Hf Hs].
  split; [|exact HI']. unfold sp_read. rewrite Ho, Ha, Hf, Hs. reflexivity.
Qed.

(* ------------------------------------------------------------------ 7. pipe *)
Lemma pipe_loop_spec : forall fuel st acc out st', Inv st -> length (abs st) < fuel ->
  pipe_loop S rd cs true fuel st acc = (out, st') ->
  out = acc ++ abs st /\ abs st' = [] /\ Inv st'.
Proof using Hsrc cs_pos.
  induction fuel as [|f IH]; intros st acc out st' HI Hf H; [lia|].
  cbn [pipe_loop] in H.
  destruct (read S rd cs true st (Some cs)) as [chunk st1] eqn:Erd.
  apply read_spec in Erd; [|exact HI]. destruct Erd as [Hr HI1].
  unfold sp_read in Hr. cbn [lim] in Hr. injection Hr as Hch Ha1.
  destruct chunk as [|b chunk'].
  - inversion H; subst out st'. clear H.
    assert (Hnil : abs st = []).
    { destruct (abs st) as [|a l]; [reflexivity|].
      destruct cs as [|c]; [lia|]. simpl in Hch. discriminate. }
    rewrite Ha1, Hnil, skipn_nil, app_nil_r. auto.
  - assert (Hpos : 0 < Nat.min cs (length (abs st))).
    { apply (f_equal (@length N)) in Hch. rewrite firstn_length in Hch. simpl in Hch. lia. }
    apply IH in H; [|exact HI1|rewrite Ha1, skipn_length; lia].
    destruct H as (Ho & He & HI'). split; [|auto].
    rewrite Ho, Ha1, Hch, <- app_assoc, firstn_skipn. reflexivity.
Qed.

Lemma pipe_spec : forall st out st', Inv st -> pipe S rd cs true st = (out, st') ->
  out = abs st /\ abs st' = [] /\ Inv st'.
Proof using Hsrc cs_pos.
  intros st out st' HI H. unfold pipe in H.
  apply pipe_loop_spec in H; [exact H|exact HI|].
  pose proof (abs_length_le st HI). lia.
Qed.

(* ------------------------------------------------------------------ 8. the basic operations *)
Lemma refine_op_basic : forall st o r st', basic_op o = true -> Inv st ->
  run_op S rd cs true st o = (r, st') ->
  sp_op cs o (abs st) = (r, abs st') /\ Inv st'.
Proof using Hsrc cs_pos.
  intros st o r st' Hb HI H.
  destruct o; try discriminate Hb; cbn [run_op sp_op] in *.
  - destruct (read S rd cs true st size) as [b st1] eqn:E. inversion H; subst r st'.
    apply read_spec in E; [|exact HI]. destruct E as [E HI']. split; [|exact HI'].
    rewrite <- E. reflexivity.
  - destruct (peek S rd cs st size) as [b st1] eqn:E. inversion H; subst r st'.
    apply peek_spec in E; [|exact HI]. destruct E as (Ho & Ha & HI'). split; [|exact HI'].
    rewrite Ho, Ha. reflexivity.
  - destruct (pipe S rd cs true st) as [b st1] eqn:E. inversion H; subst r st'.
    apply pipe_spec in E; [|exact HI]. destruct E as (Ho & Ha & HI'). split; [|exact HI'].
    rewrite Ho, Ha. reflexivity.
  - destruct (pipe S rd cs true st) as [b st1] eqn:E. inversion H; subst r st'.
    apply pipe_spec in E; [|exact HI]. destruct E as (Ho & Ha & HI'). split; [|exact HI'].
    rewrite Ha. reflexivity.
Qed.

End SyncProofs.

(* ================================================================== unconditional contract *)
(* the statements for a source that conforms in every state ([P] trivial, [NT] off) *)
Lemma perform_read_spec_total : forall S rd sabs, good_source S rd sabs ->
  forall st n out st', perform_read S rd st n = (out, st') ->
  out = firstn n (tail S sabs st) /\ tail S sabs st' = skipn n (tail S sabs st) /\
  buf st' = buf st /\ blen st' = blen st /\ bpos st' = bpos st.
Proof.
  intros S rd sabs H st n out st' E.
  assert (Hok : srcok S sabs (fun _ => True) False st) by (split; [exact I | intros []]).
  destruct (perform_read_spec S rd sabs (fun _ => True) False (good_source_total S rd sabs H)
              st n out st' Hok E) as (H1 & H2 & H3 & H4 & H5 & _).
  auto.
Qed.

Lemma refine_op_basic_total : forall S rd sabs cs, good_source S rd sabs -> 0 < cs ->
  forall st o r st', basic_op o = true -> ProofsDefs.Inv S st ->
  run_op S rd cs true st o = (r, st') ->
  sp_op cs o (abs S sabs st) = (r, abs S sabs st') /\ ProofsDefs.Inv S st'.
Proof.
  intros S rd sabs cs H Hcs st o r st' Hb HI E.
  apply (proj2 (InvP_total S sabs st)) in HI.
  destruct (refine_op_basic S rd sabs cs (fun _ => True) False (good_source_total S rd sabs H)
              Hcs st o r st' Hb HI E) as [Hsp HI'].
  split; [exact Hsp|]. apply (proj1 (InvP_total S sabs st')). exact HI'.
Qed.

(* ================================================================== the scripted source *)
Lemma src_read_good : good_source source src_read sdata.
Proof.
  intros s n Hn. unfold src_read.
  set (k := match sched s with [] => n | c :: _ => Nat.min n (S c) end).
  exists k. cbn [fst snd sdata]. repeat split.
  - subst k. destruct (sched s); lia.
  - intros _. subst k. destruct (sched s); lia.
Qed.

Definition flat (ops : list op) : list hop := map HOp ops.

(* a basic operation leaves a suffix of its input *)
Lemma sp_op_suffix : forall cs o v r v', basic_op o = true -> sp_op cs o v = (r, v') ->
  v' = skipn (length v - length v') v.
Proof.
  intros cs o v r v' Hb H.
  destruct o; try discriminate Hb; cbn [sp_op] in H.
  - unfold sp_read in H. inversion H; subst r v'. rewrite skipn_length.
    assert (Hm : lim size v <= length v) by (unfold lim; destruct size; lia).
    replace (length v - (length v - lim size v)) with (lim size v) by lia. reflexivity.
  - inversion H; subst r v'. rewrite Nat.sub_diag. reflexivity.
  - inversion H; subst r v'. simpl. rewrite Nat.sub_0_r, skipn_all. reflexivity.
  - inversion H; subst r v'. simpl. rewrite Nat.sub_0_r, skipn_all. reflexivity.
Qed.

Lemma refine_run_basic : forall cs, 0 < cs -> forall ops st t,
  forallb basic_op ops = true -> ProofsDefs.Inv source st ->
  sync_run cs (K0 st) (flat ops) =
  map o_res (sp_run cs [] [t] (ProofsDefs.abs source sdata st) (flat ops)).
Proof.
  intros cs Hcs. induction ops as [|o ops IH]; intros st t Hb HI; [reflexivity|].
  cbn [forallb] in Hb. apply andb_true_iff in Hb as [Hbo Hbs].
  unfold flat. cbn [map sync_run sync_step sp_run view]. fold (flat ops).
  destruct (run_op source rd0 cs true st o) as [r st'] eqn:Erun.
  unfold rd0 in Erun.
  destruct (refine_op_basic_total source src_read sdata cs src_read_good Hcs st o r st' Hbo HI Erun)
    as [Hsp HI'].
  rewrite Hsp. cbn [map o_res]. f_equal.
  rewrite <- (sp_op_suffix cs o _ _ _ Hbo Hsp).
  apply IH; assumption.
Qed.

Lemma refine_history_basic : forall cs maxlen data sched ops, 0 < cs ->
  forallb basic_op ops = true ->
  sync_history cs maxlen data sched (flat ops) =
  map o_res (spec_history cs maxlen data (flat ops)).
Proof.
  intros cs maxlen data sched ops Hcs Hb. unfold sync_history, spec_history.
  apply (refine_run_basic cs Hcs ops (init source maxlen {| sdata := data; sched := sched |}) 0 Hb).
  split; simpl; lia.
Qed.
