(* C14 — the sync reader against the flat cursor for EVERY history: all operations, with
   nested delimited sub-readers (delimit() / exhaust-and-return), up to depth 2.

   A delimited child is the same reader model whose source is its parent reader.  The
   generic lemmas of ProofsSync.v / ProofsUntil.v apply to it through the relativised source
   contract [good_source_on]: the parent, in states satisfying its invariant, is a conforming
   source whose remaining bytes are the parent's cursor cut at the delimiter. *)
From Coq Require Import ZArith NArith List Bool Arith Lia.
From Falcon.lib Require Import PyStr.
From Falcon.C14 Require Import Spec Model ProofsDefs ProofsSync ProofsFind ProofsUntil.
Import ListNotations.
Local Open Scope nat_scope.

Definition buffered {T : Type} (s : state T) : bytes := skipn (bpos s) (buf s).

(* ================================================================== one level of nesting *)
Section Child.
(* the parent level *)
Variable S : Type.
Variable rd : S -> nat -> bytes * S.
Variable sabs : S -> bytes.
Variable cs : nat.
Variable P : S -> Prop.
Variable NT : Prop.
Hypothesis Hsrc : good_source_on P rd sabs.
Hypothesis cs_pos : 0 < cs.
Notation pabs := (abs S sabs).
Notation PInv := (InvP S sabs P NT).
(* whatever else must persist about the parent state while the child reads from it *)
Variable J : state S -> Prop.
Hypothesis HJ : forall p o r p', J p -> PInv p -> valid_op cs o = true ->
  run_op S rd cs true p o = (r, p') -> J p'.
(* the child's delimiter *)
Variable d : bytes.
Hypothesis Hd1 : 1 <= length d.
Hypothesis Hd2 : length d <= cs.
(* ghost: a reference cursor of the parent; the parent stays within its part before [d] *)
Variable W : bytes.

(* the child's source: the parent reader; what it will still deliver; what persists *)
Definition crd : state S -> nat -> bytes * state S := child_rd S rd cs true d.
Definition cabs (p : state S) : bytes := cut d (pabs p).
Definition cP (p : state S) : Prop :=
  PInv p /\ J p /\ exists t, t <= length (cut d W) /\ pabs p = skipn t W.

Lemma child_src : good_source_on cP crd cabs.
Proof.
  intros p n (HI & HJp & t & Ht & Hp) Hn. unfold crd, child_rd, cabs.
  destruct (read_until S rd cs true p d (Some n) false) as [rr p1] eqn:Eru.
  destruct (read_until_spec S rd sabs cs P NT Hsrc cs_pos _ _ _ _ _ _ HI Hd1 Hd2 Eru) as [Hs HI1].
  assert (HJ1 : J p1).
  { apply (HJ p (OReadUntil d (Some n) false) rr p1 HJp HI); [|exact Eru].
    cbn [valid_op]. apply negb_true_iff, bad_delim_false_iff. auto. }
  cbn [sp_op] in Hs. rewrite (proj2 (bad_delim_false_iff cs d) (conj Hd1 Hd2)) in Hs.
  unfold sp_until in Hs. injection Hs as Hrr Habs1. subst rr. cbn [fst snd].
  set (u := upto d (Some n) (pabs p)) in *.
  assert (Hcut : cut d (pabs p) = skipn t (cut d W)) by (rewrite Hp; apply cut_skipn; exact Ht).
  assert (Hu : u <= length (cut d W) - t).
  { pose proof (upto_le_cut d n (pabs p)) as H. fold u in H. rewrite Hcut, skipn_length in H.
    exact H. }
  exists u. split; [apply upto_le_size|]. split; [|split; [|split]].
  - symmetry. apply cut_upto_firstn. exact Hd1.
  - rewrite <- Habs1. apply cut_upto_skipn. exact Hd1.
  - apply cut_upto_pos; assumption.
  - split; [exact HI1|]. split; [exact HJ1|]. exists (t + u). split; [lia|].
    rewrite <- Habs1, Hp, skipn_add. reflexivity.
Qed.

(* the child level *)
Notation CInv := (InvP (state S) cabs cP True).
Notation chabs := (abs (state S) cabs).

(* the child's full stream: its buffer, then the parent's cursor (delimiter and beyond) *)
Definition fl (s : state (state S)) : bytes := buffered s ++ pabs (src s).

(* the simulation invariant of the child level *)
Definition CRel (s : state (state S)) : Prop :=
  CInv s /\ exists m, m + length (buffered s) <= length (cut d W) /\ fl s = skipn m W.

(* the child's cursor is its full stream cut at the delimiter; the rest is constant *)
Lemma CRel_view : forall s, CRel s ->
  chabs s = cut d (fl s) /\
  fl s = chabs s ++ skipn (length (cut d W)) W /\
  exists m, m <= length (cut d W) /\ chabs s = skipn m (cut d W).
Proof.
  intros s ((HI & Hok) & m & Hm & Hfl).
  pose proof Hok as ((HIp & HJp & t & Ht & Hp) & Hnt).
  assert (Htail : tail (state S) cabs s = skipn t (cut d W)).
  { rewrite (tail_notrunc (state S) cabs cP True s I Hok). unfold cabs. rewrite Hp.
    apply cut_skipn. exact Ht. }
  set (X := cut d W) in *. set (D := skipn (length X) W).
  assert (HW : W = X ++ D) by apply cut_app_rest.
  assert (Hmc : m <= length X) by lia.
  (* t = m + |B| *)
  assert (Ht' : t = m + length (buffered s)).
  { unfold fl in Hfl. rewrite Hp in Hfl. apply (f_equal (@length N)) in Hfl.
    rewrite app_length, !skipn_length in Hfl. pose proof (cut_length_le d W). fold X in H. lia. }
  (* B = firstn |B| (skipn m X) *)
  assert (HB : buffered s = firstn (length (buffered s)) (skipn m X)).
  { transitivity (firstn (length (buffered s)) (fl s)).
    - unfold fl. rewrite firstn_app_le by lia. rewrite firstn_all. reflexivity.
    - rewrite Hfl, (skipn_cut_split d m W Hmc). fold X. apply firstn_app_le.
      rewrite skipn_length. lia. }
  assert (Hch : chabs s = skipn m X).
  { unfold ProofsDefs.abs. fold (buffered s). rewrite Htail, Ht'. rewrite <- skipn_add.
    rewrite HB at 1. apply firstn_skipn. }
  split; [|split].
  - rewrite Hch, Hfl. symmetry. apply cut_skipn. exact Hmc.
  - rewrite Hch, Hfl. apply skipn_cut_split. exact Hmc.
  - exists m. auto.
Qed.

(* one operation on the child *)
Lemma child_step : forall s o r s', CRel s -> valid_op cs o = true ->
  run_op (state S) crd cs true s o = (r, s') ->
  CRel s' /\
  sp_op cs o (cut d (fl s)) = (r, cut d (fl s')) /\
  fl s' = skipn (length (cut d (fl s)) - length (cut d (fl s'))) (fl s).
Proof.
  intros s o r s' HR Hv H.
  destruct (CRel_view s HR) as (Hview & Hfull & m & Hm & Hch).
  destruct HR as (HCI & _).
  destruct (refine_op (state S) crd cabs cs cP True child_src cs_pos s o r s' Hv HCI H)
    as [Hsp HCI'].
  pose proof (sp_op_suffix_all cs o _ _ _ Hsp) as Hsuf.
  set (k := length (chabs s) - length (chabs s')) in *.
  pose proof HCI' as (HI' & Hok').
  pose proof Hok' as ((HIp' & HJp' & t' & Ht' & Hp') & Hnt').
  assert (Htail' : tail (state S) cabs s' = skipn t' (cut d W)).
  { rewrite (tail_notrunc (state S) cabs cP True s' I Hok'). unfold cabs. rewrite Hp'.
    apply cut_skipn. exact Ht'. }
  set (X := cut d W) in *. set (D := skipn (length X) W) in *.
  assert (HW : W = X ++ D) by apply cut_app_rest.
  assert (Hk : m + k <= length X).
  { unfold k. rewrite Hch, skipn_length. lia. }
  assert (Heq : buffered s' ++ skipn t' X = skipn (m + k) X).
  { rewrite <- skipn_add, <- Hch, <- Hsuf. unfold ProofsDefs.abs. fold (buffered s').
    rewrite Htail'. reflexivity. }
  destruct (ghost_step X D (buffered s') t' (m + k) Ht' Hk Heq) as [Hg1 Hg2].
  rewrite <- HW in Hg1.
  assert (Hfl' : fl s' = skipn (m + k) W) by (unfold fl; rewrite Hp'; exact Hg1).
  assert (HR' : CRel s').
  { split; [exact HCI'|]. exists (m + k). split; [fold X; lia | exact Hfl']. }
  destruct (CRel_view s' HR') as (Hview' & _).
  split; [exact HR'|]. rewrite <- Hview, <- Hview'. split; [exact Hsp|].
  fold k. rewrite Hfl', <- skipn_add. f_equal.
  (* fl s = skipn m W *)
  rewrite Hfull, Hch. exact (skipn_cut_split d m W Hm).
Qed.

(* delimit(): a fresh child over the parent state [p] *)
Lemma child_init : forall p, PInv p -> J p -> pabs p = W ->
  CRel (init (state S) (child_max S p) p).
Proof.
  intros p HI HJp HW. unfold init, child_max. split.
  - split; [split; cbn [buf blen bpos]; simpl; lia|]. split; cbn [src rem].
    + split; [exact HI|]. split; [exact HJp|]. exists 0. split; [lia | exact HW].
    + intros _. unfold cabs. pose proof (cut_length_le d (pabs p)).
      pose proof (abs_length_le S sabs P NT p HI). unfold normalize_size. lia.
  - exists 0. unfold fl, buffered. cbn [buf bpos src skipn app length]. split; [lia | exact HW].
Qed.

End Child.

(* ================================================================== histories *)
Definition valid_delim (cs : nat) (d : bytes) : bool := (1 <=? length d) && (length d <=? cs).

(* every operation has a valid delimiter, every delimit() one within [1, chunk_size], and the
   nesting depth stays within 2 ([depth]: the current one) *)
Fixpoint valid_hist (cs depth : nat) (h : list hop) : bool :=
  match h with
  | [] => true
  | HOp o :: h' => valid_op cs o && valid_hist cs depth h'
  | HDelimit d :: h' => (depth <? 2) && valid_delim cs d && valid_hist cs (Datatypes.S depth) h'
  | HPop :: h' => valid_hist cs (pred depth) h'
  end.

Lemma valid_delim_iff : forall cs d, valid_delim cs d = true <-> (1 <= length d /\ length d <= cs).
Proof.
  intros cs d. unfold valid_delim. rewrite andb_true_iff, !Nat.leb_le. reflexivity.
Qed.

Section History.
Variable cs : nat.
Hypothesis cs_pos : 0 < cs.

(* ---- level 0: the top-level reader over the scripted source *)
Definition P0 : source -> Prop := fun _ => True.
Definition J0 : st0 -> Prop := fun _ => True.
Notation Inv0 := (InvP source sdata P0 False).
Notation abs0 := (abs source sdata).

Lemma Hsrc0 : good_source_on P0 src_read sdata.
Proof. exact (good_source_total source src_read sdata src_read_good). Qed.

Lemma HJ0 : forall (p : st0) o r (p' : st0), J0 p -> Inv0 p -> valid_op cs o = true ->
  run_op source src_read cs true p o = (r, p') -> J0 p'.
Proof. intros. exact I. Qed.

(* ---- level 1: a child of the top-level reader, delimiter d1, ghost W1 *)
Definition cabs1 (d1 : bytes) : st0 -> bytes := cabs source sdata d1.
Definition cP1 (d1 W1 : bytes) : st0 -> Prop := cP source sdata P0 False J0 d1 W1.
Definition CRel1 (d1 W1 : bytes) : st1 -> Prop := CRel source sdata P0 False J0 d1 W1.
Definition fl1 : st1 -> bytes := fl source sdata.
Notation Inv1 d1 W1 := (InvP st0 (cabs1 d1) (cP1 d1 W1) True).
Notation abs1 d1 := (abs st0 (cabs1 d1)).

Lemma rd1_crd : forall d1, rd1 cs d1 = crd source src_read cs d1.
Proof. reflexivity. Qed.

Section L1.
Variables d1 W1 : bytes.
Hypothesis Hd1 : 1 <= length d1.
Hypothesis Hd2 : length d1 <= cs.

Lemma Hsrc1 : good_source_on (cP1 d1 W1) (rd1 cs d1) (cabs1 d1).
Proof. exact (child_src source src_read sdata cs P0 False Hsrc0 cs_pos J0 HJ0 d1 Hd1 Hd2 W1). Qed.

Lemma step1 : forall (s : st1) o r (s' : st1), CRel1 d1 W1 s -> valid_op cs o = true ->
  run_op st0 (rd1 cs d1) cs true s o = (r, s') ->
  CRel1 d1 W1 s' /\
  sp_op cs o (cut d1 (fl1 s)) = (r, cut d1 (fl1 s')) /\
  fl1 s' = skipn (length (cut d1 (fl1 s)) - length (cut d1 (fl1 s'))) (fl1 s).
Proof. exact (child_step source src_read sdata cs P0 False Hsrc0 cs_pos J0 HJ0 d1 Hd1 Hd2 W1). Qed.

Lemma view1 : forall s : st1, CRel1 d1 W1 s ->
  abs1 d1 s = cut d1 (fl1 s) /\
  fl1 s = abs1 d1 s ++ skipn (length (cut d1 W1)) W1 /\
  exists m, m <= length (cut d1 W1) /\ abs1 d1 s = skipn m (cut d1 W1).
Proof. exact (CRel_view source sdata cs P0 False cs_pos J0 d1 Hd1 Hd2 W1). Qed.

Lemma HJ1 : forall (p : st1) o r (p' : st1), CRel1 d1 W1 p -> Inv1 d1 W1 p ->
  valid_op cs o = true -> run_op st0 (rd1 cs d1) cs true p o = (r, p') -> CRel1 d1 W1 p'.
Proof. intros p o r p' HR _ Hv H. exact (proj1 (step1 p o r p' HR Hv H)). Qed.

(* ---- level 2: a child of a level-1 reader, delimiter d2, ghost W2 *)
Definition CRel2 (d2 W2 : bytes) : st2 -> Prop :=
  CRel st0 (cabs1 d1) (cP1 d1 W1) True (CRel1 d1 W1) d2 W2.
Definition fl2 : st2 -> bytes := fl st0 (cabs1 d1).
(* the level-2 reader's full stream, to the very end *)
Definition rest2 (q : st2) : bytes := buffered q ++ fl1 (src q).

Section L2.
Variables d2 W2 : bytes.
Hypothesis He1 : 1 <= length d2.
Hypothesis He2 : length d2 <= cs.

Lemma rest2_eq : forall (q : st2) x, CRel2 d2 W2 q -> fl2 q = skipn x (cut d1 W1) ->
  rest2 q = fl2 q ++ skipn (length (cut d1 W1)) W1 /\ cut d1 (rest2 q) = fl2 q.
Proof.
  intros q x HR Hx. pose proof HR as ((_ & (_ & HRp & _) & _) & _).
  destruct (view1 (src q) HRp) as (_ & Hfull & _).
  assert (E : rest2 q = fl2 q ++ skipn (length (cut d1 W1)) W1).
  { unfold rest2, fl2, fl. fold (buffered q). rewrite Hfull. apply app_assoc. }
  split; [exact E|]. rewrite E, Hx. apply cut_hidden.
Qed.

Lemma step2 : forall (q : st2) x o r (q' : st2), CRel2 d2 W2 q -> fl2 q = skipn x (cut d1 W1) ->
  valid_op cs o = true ->
  run_op st1 (rd2 cs d1 d2) cs true q o = (r, q') ->
  CRel2 d2 W2 q' /\ (exists x', fl2 q' = skipn x' (cut d1 W1)) /\
  sp_op cs o (cut d2 (cut d1 (rest2 q))) = (r, cut d2 (cut d1 (rest2 q'))) /\
  rest2 q' = skipn (length (cut d2 (cut d1 (rest2 q))) - length (cut d2 (cut d1 (rest2 q'))))
                   (rest2 q).
Proof.
  intros q x o r q' HR Hx Hv H.
  destruct (child_step st0 (rd1 cs d1) (cabs1 d1) cs (cP1 d1 W1) True Hsrc1 cs_pos
              (CRel1 d1 W1) HJ1 d2 He1 He2 W2 q o r q' HR Hv H) as (HR' & Hsp & Hfl).
  fold fl2 in Hsp, Hfl.
  set (k := length (cut d2 (fl2 q)) - length (cut d2 (fl2 q'))) in *.
  assert (Hk : k <= length (fl2 q)) by (pose proof (cut_length_le d2 (fl2 q)); lia).
  assert (Hx' : fl2 q' = skipn (x + k) (cut d1 W1)).
  { rewrite Hfl, Hx, skipn_add. reflexivity. }
  destruct (rest2_eq q x HR Hx) as [E Ec].
  destruct (rest2_eq q' _ HR' Hx') as [E' Ec'].
  rewrite Ec, Ec'. split; [exact HR'|]. split; [eexists; exact Hx'|]. split; [exact Hsp|].
  fold k. rewrite E', E, Hfl. symmetry. apply skipn_app_le. exact Hk.
Qed.

Lemma drained2 : forall (q : st2) x, CRel2 d2 W2 q -> fl2 q = skipn x (cut d1 W1) ->
  cut d2 (cut d1 (rest2 q)) = [] -> buffered q = [].
Proof.
  intros q x HR Hx Hnil. destruct (rest2_eq q x HR Hx) as [_ Ec]. rewrite Ec in Hnil.
  destruct (CRel_view st0 (cabs1 d1) cs (cP1 d1 W1) True cs_pos (CRel1 d1 W1) d2 He1 He2 W2 q HR)
    as (Hview & _).
  fold fl2 in Hview. rewrite Hnil in Hview. unfold ProofsDefs.abs in Hview.
  apply app_eq_nil in Hview. exact (proj1 Hview).
Qed.

End L2.

Lemma drained1 : forall s : st1, CRel1 d1 W1 s -> cut d1 (fl1 s) = [] -> buffered s = [].
Proof.
  intros s HR Hnil. destruct (view1 s HR) as (Hview & _). rewrite Hnil in Hview.
  unfold ProofsDefs.abs in Hview. apply app_eq_nil in Hview. exact (proj1 Hview).
Qed.

End L1.

(* ------------------------------------------------------------------ the simulation *)
(* reader stack  ~  (delimiters, flat rest of the whole byte string) *)
Inductive sim : sstack -> list bytes -> bytes -> Prop :=
| sim0 : forall s, Inv0 s -> sim (K0 s) [] (abs0 s)
| sim1 : forall d1 W1 s, 1 <= length d1 -> length d1 <= cs ->
    CRel1 d1 W1 s -> sim (K1 d1 s) [d1] (fl1 s)
| sim2 : forall d1 W1 d2 W2 x q, 1 <= length d1 -> length d1 <= cs ->
    1 <= length d2 -> length d2 <= cs ->
    CRel2 d1 W1 d2 W2 q -> fl2 d1 q = skipn x (cut d1 W1) ->
    sim (K2 d1 d2 q) [d1; d2] (rest2 q).

Lemma sim_op : forall k ds rest o, sim k ds rest -> valid_op cs o = true ->
  exists r k', sync_step cs k (HOp o) = (r, k') /\
  exists v', sp_op cs o (view ds rest) = (r, v') /\
             sim k' ds (skipn (length (view ds rest) - length v') rest).
Proof.
  intros k ds rest o Hsim Hv. destruct Hsim as [s HI | d1 W1 s Hd1 Hd2 HR
                                               | d1 W1 d2 W2 x q Hd1 Hd2 He1 He2 HR Hx].
  - cbn [sync_step view]. destruct (run_op source rd0 cs true s o) as [r s'] eqn:E.
    exists r, (K0 s'). split; [reflexivity|]. unfold rd0 in E.
    destruct (refine_op source src_read sdata cs P0 False Hsrc0 cs_pos s o r s' Hv HI E)
      as [Hsp HI'].
    exists (abs0 s'). split; [exact Hsp|].
    rewrite <- (sp_op_suffix_all _ _ _ _ _ Hsp). apply sim0. exact HI'.
  - cbn [sync_step view]. destruct (run_op st0 (rd1 cs d1) cs true s o) as [r s'] eqn:E.
    exists r, (K1 d1 s'). split; [reflexivity|].
    destruct (step1 d1 W1 Hd1 Hd2 s o r s' HR Hv E) as (HR' & Hsp & Hfl).
    exists (cut d1 (fl1 s')). split; [exact Hsp|]. rewrite <- Hfl. apply (sim1 d1 W1); assumption.
  - cbn [sync_step view]. destruct (run_op st1 (rd2 cs d1 d2) cs true q o) as [r q'] eqn:E.
    exists r, (K2 d1 d2 q'). split; [reflexivity|].
    destruct (step2 d1 W1 Hd1 Hd2 d2 W2 He1 He2 q x o r q' HR Hx Hv E)
      as (HR' & [x' Hx'] & Hsp & Hrest).
    exists (cut d2 (cut d1 (rest2 q'))). split; [exact Hsp|]. rewrite <- Hrest.
    apply (sim2 d1 W1 d2 W2 x'); assumption.
Qed.

Lemma sim_delimit : forall k ds rest d, sim k ds rest -> length ds < 2 ->
  1 <= length d -> length d <= cs ->
  exists k', sync_step cs k (HDelimit d) = (RBytes [], k') /\ sim k' (ds ++ [d]) rest.
Proof.
  intros k ds rest d Hsim Hdepth He1 He2.
  destruct Hsim as [s HI | d1 W1 s Hd1 Hd2 HR | d1 W1 d2 W2 x q Hd1 Hd2 Hf1 Hf2 HR Hx].
  - cbn [sync_step app]. eexists. split; [reflexivity|].
    change (abs0 s) with (fl1 (init st0 (child_max source s) s)).
    apply (sim1 d (abs0 s)); try assumption.
    exact (child_init source sdata cs P0 False cs_pos J0 d He1 He2 (abs0 s) s HI I eq_refl).
  - cbn [sync_step app]. eexists. split; [reflexivity|].
    change (fl1 s) with (rest2 (init st1 (child_max st0 s) s)).
    destruct (view1 d1 W1 Hd1 Hd2 s HR) as (_ & _ & m & Hm & Hch).
    apply (sim2 d1 W1 d (abs st0 (cabs1 d1) s) m); try assumption.
    exact (child_init st0 (cabs1 d1) cs (cP1 d1 W1) True cs_pos (CRel1 d1 W1) d He1 He2
             (abs st0 (cabs1 d1) s) s (proj1 HR) HR eq_refl).
  - simpl in Hdepth. lia.
Qed.

Lemma sim_pop : forall k ds rest, sim k ds rest ->
  exists k', sync_step cs k HPop = (RBytes [], k') /\
  match ds with
  | [] => sim k' [] rest
  | _ => sim k' (removelast ds) (skipn (length (view ds rest)) rest)
  end.
Proof.
  intros k ds rest Hsim.
  destruct Hsim as [s HI | d1 W1 s Hd1 Hd2 HR | d1 W1 d2 W2 x q Hd1 Hd2 He1 He2 HR Hx].
  - cbn [sync_step]. eexists. split; [reflexivity|]. apply sim0. exact HI.
  - cbn [sync_step view removelast]. destruct (pipe st0 (rd1 cs d1) cs true s) as [b s'] eqn:E.
    eexists. split; [reflexivity|].
    assert (Ho : run_op st0 (rd1 cs d1) cs true s OPipe = (RBytes b, s'))
      by (cbn [run_op]; rewrite E; reflexivity).
    destruct (step1 d1 W1 Hd1 Hd2 s OPipe _ s' HR eq_refl Ho) as (HR' & Hsp & Hfl).
    cbn [sp_op] in Hsp. injection Hsp as _ Hnil. rewrite <- Hnil in Hfl. cbn [length] in Hfl.
    rewrite Nat.sub_0_r in Hfl. rewrite <- Hfl.
    pose proof (drained1 d1 W1 Hd1 Hd2 s' HR' (eq_sym Hnil)) as HB.
    unfold fl1, fl.
    match goal with |- sim _ _ (?b ++ _) => replace b with (@nil N) by (symmetry; exact HB) end.
    cbn [app]. apply sim0.
    destruct HR' as ((_ & (HIp & _) & _) & _). exact HIp.
  - cbn [sync_step view removelast].
    destruct (pipe st1 (rd2 cs d1 d2) cs true q) as [b q'] eqn:E.
    eexists. split; [reflexivity|].
    assert (Ho : run_op st1 (rd2 cs d1 d2) cs true q OPipe = (RBytes b, q'))
      by (cbn [run_op]; rewrite E; reflexivity).
    destruct (step2 d1 W1 Hd1 Hd2 d2 W2 He1 He2 q x OPipe _ q' HR Hx eq_refl Ho)
      as (HR' & [x' Hx'] & Hsp & Hrest).
    cbn [sp_op] in Hsp. injection Hsp as _ Hnil. rewrite <- Hnil in Hrest. cbn [length] in Hrest.
    rewrite Nat.sub_0_r in Hrest. rewrite <- Hrest.
    pose proof (drained2 d1 W1 Hd1 Hd2 d2 W2 He1 He2 q' x' HR' Hx' (eq_sym Hnil)) as HB.
    unfold rest2.
    match goal with |- sim _ _ (?b ++ _) => replace b with (@nil N) by (symmetry; exact HB) end.
    cbn [app]. apply (sim1 d1 W1); try assumption.
    destruct HR' as ((_ & (_ & HRp & _) & _) & _). exact HRp.
Qed.

Lemma removelast_length : forall (A : Type) (l : list A), length (removelast l) = pred (length l).
Proof.
  induction l as [|a [|b l] IH]; [reflexivity | reflexivity |].
  change (removelast (a :: b :: l)) with (a :: removelast (b :: l)).
  cbn [length] in *. rewrite IH. reflexivity.
Qed.

Lemma refine_run : forall h k ds rest tells, sim k ds rest ->
  valid_hist cs (length ds) h = true ->
  sync_run cs k h = map o_res (sp_run cs ds tells rest h).
Proof.
  induction h as [|a h IH]; intros k ds rest tells Hsim Hv; [reflexivity|].
  destruct a as [o | d |]; cbn [valid_hist] in Hv.
  - apply andb_true_iff in Hv as [Hvo Hvh].
    destruct (sim_op k ds rest o Hsim Hvo) as (r & k' & Hstep & v' & Hsp & Hsim').
    cbn [sync_run]. rewrite Hstep. cbn [sp_run]. cbv zeta. rewrite Hsp.
    cbn [map o_res]. f_equal. apply IH; assumption.
  - apply andb_true_iff in Hv as [Hv1 Hvh]. apply andb_true_iff in Hv1 as [Hdep Hvd].
    apply Nat.ltb_lt in Hdep. apply valid_delim_iff in Hvd as [He1 He2].
    destruct (sim_delimit k ds rest d Hsim Hdep He1 He2) as (k' & Hstep & Hsim').
    cbn [sync_run]. rewrite Hstep. cbn [sp_run]. cbv zeta. cbn [map o_res]. f_equal.
    apply IH; [exact Hsim'|]. rewrite app_length. cbn [length]. rewrite Nat.add_1_r. exact Hvh.
  - destruct (sim_pop k ds rest Hsim) as (k' & Hstep & Hsim').
    cbn [sync_run]. rewrite Hstep. cbn [sp_run]. destruct ds as [|d0 ds0].
    + cbn [map o_res]. f_equal. apply IH; assumption.
    + cbv zeta. cbn [map o_res]. f_equal. apply IH; [exact Hsim'|].
      rewrite removelast_length. exact Hv.
Qed.

End History.

(* ================================================================== the theorems *)
Theorem refine_history : forall cs maxlen data sched h, 0 < cs ->
  valid_hist cs 0 h = true ->
  sync_history cs maxlen data sched h = map o_res (spec_history cs maxlen data h).
Proof.
  intros cs maxlen data sched h Hcs Hv. unfold sync_history, spec_history.
  change (firstn maxlen data)
    with (abs source sdata (init source maxlen {| sdata := data; sched := sched |})).
  apply (refine_run cs Hcs h _ [] _ [0]); [|exact Hv].
  apply sim0. split; [split; simpl; lia|]. split; [exact I | intros []].
Qed.

Lemma valid_hist_flat : forall cs ops,
  forallb (valid_op cs) ops = true -> valid_hist cs 0 (flat ops) = true.
Proof.
  intros cs. induction ops as [|o ops IH]; intro H; [reflexivity|].
  cbn [forallb] in H. apply andb_true_iff in H as [H1 H2].
  unfold flat. cbn [map valid_hist]. rewrite H1. apply IH. exact H2.
Qed.

(* all operations on the top-level reader, no delimit() *)
Theorem refine_history_flat : forall cs maxlen data sched ops, 0 < cs ->
  forallb (valid_op cs) ops = true ->
  sync_history cs maxlen data sched (flat ops) =
  map o_res (spec_history cs maxlen data (flat ops)).
Proof.
  intros cs maxlen data sched ops Hcs H. apply refine_history; [exact Hcs|].
  apply valid_hist_flat. exact H.
Qed.
