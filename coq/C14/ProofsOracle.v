(* C14 — the oracle of Oracle.v accepts every run that is step-wise the cursor's. *)
From Coq Require Import ZArith NArith List Bool Arith Lia.
From Falcon.lib Require Import PyStr.
From Falcon.C14 Require Import Spec Oracle Model ModelAsync ProofsDefs ProofsSync ProofsUntil ProofsHistory ProofsAsync ProofsAsyncUntil ProofsAsyncHistory.
Import ListNotations.
Local Open Scope nat_scope.

Lemma lines_eqb_refl l : lines_eqb l l = true.
Proof. induction l as [|x l IH]; simpl; [reflexivity|]. rewrite str_eqb_refl. exact IH. Qed.

Lemma result_eqb_refl r : result_eqb r r = true.
Proof. destruct r; simpl; auto using str_eqb_refl, lines_eqb_refl. Qed.

Lemma lines_eqb_eq a b : lines_eqb a b = true -> a = b.
Proof.
  revert b; induction a as [|x a IH]; intros [|y b] H; simpl in H; try discriminate; [reflexivity|].
  apply andb_true_iff in H as [H1 H2]. apply str_eqb_eq in H1. apply IH in H2. congruence.
Qed.

(* the oracle's comparison is exact equality of results *)
Lemma result_eqb_eq a b : result_eqb a b = true -> a = b.
Proof.
  destruct a, b; simpl; intro H; try discriminate; try reflexivity.
  - apply str_eqb_eq in H. congruence.
  - apply str_eqb_eq in H. congruence.
  - apply lines_eqb_eq in H. congruence.
Qed.

Lemma first_bad_sync_results : forall spec i,
  first_bad i true (map as_obs (map o_res spec)) spec = None.
Proof.
  induction spec as [|s spec IH]; intro i; simpl; [reflexivity|].
  unfold obs_okb. simpl. rewrite result_eqb_refl. simpl. apply IH.
Qed.

(* completeness direction: an accepted sync observation IS the cursor's result list *)
Lemma first_bad_sync_None : forall impl spec i,
  first_bad i true impl spec = None -> map o_res impl = map o_res spec.
Proof.
  induction impl as [|a impl IH]; intros [|s spec] i H; simpl in H; try discriminate; [reflexivity|].
  destruct (obs_okb true a s) eqn:E; [|discriminate].
  unfold obs_okb in E. apply andb_true_iff in E as [E _]. apply result_eqb_eq in E.
  simpl. rewrite E. f_equal. eapply IH. exact H.
Qed.

Lemma oracle_sound_sync_basic : forall cs maxlen data sched ops,
  0 < cs -> forallb basic_op ops = true ->
  oracle true cs maxlen data (flat ops)
         (map as_obs (sync_history cs maxlen data sched (flat ops))) = None.
Proof.
  intros cs maxlen data sched ops Hcs Hb. unfold oracle.
  rewrite (refine_history_basic cs maxlen data sched ops Hcs Hb).
  apply first_bad_sync_results.
Qed.

Lemma first_bad_async_ok : forall impl spec i,
  Forall2 obs_ok impl spec -> first_bad i false impl spec = None.
Proof.
  intros impl spec i H. revert i. induction H as [|a s impl spec Hok _ IH]; intro i; simpl; [reflexivity|].
  destruct Hok as (Hr & Ht & He). unfold obs_okb. rewrite Hr, result_eqb_refl, Ht, Nat.eqb_refl. simpl.
  destruct (o_end a) eqn:Ea; simpl; [rewrite (He eq_refl); simpl|]; apply IH.
Qed.

Lemma oracle_sound_async_basic : forall cs F chunks ops,
  0 < cs -> length chunks + 3 <= F -> forallb basic_op ops = true ->
  oracle false cs (length (concat chunks)) (concat chunks) (flat ops)
         (async_history cs true F chunks (flat ops)) = None.
Proof.
  intros cs F chunks ops Hcs HF Hb. unfold oracle.
  apply first_bad_async_ok. apply a_refine_history_basic; assumption.
Qed.

Lemma oracle_sound_sync : forall cs maxlen data sched h,
  0 < cs -> ProofsHistory.valid_hist cs 0 h = true ->
  oracle true cs maxlen data h (map as_obs (sync_history cs maxlen data sched h)) = None.
Proof.
  intros cs maxlen data sched h Hcs Hv. unfold oracle.
  rewrite (refine_history cs maxlen data sched h Hcs Hv).
  apply first_bad_sync_results.
Qed.

Lemma oracle_sound_async : forall cs F chunks h,
  0 < cs -> length chunks + 9 <= F -> ProofsAsyncHistory.valid_hist cs 0 h = true ->
  oracle false cs (length (concat chunks)) (concat chunks) h (async_history cs true F chunks h) = None.
Proof.
  intros cs F chunks h Hcs HF Hv. unfold oracle.
  apply first_bad_async_ok. apply a_refine_history_nested; assumption.
Qed.
