(* C14 — list-search lemmas about [Spec.find] (bytes.find: first occurrence), generic (no
   reader model).  [occ d l j] : the pattern [d] occurs in [l] at index [j]. *)
From Coq Require Import ZArith NArith List Bool Arith Lia.
From Falcon.lib Require Import PyStr.
From Falcon.C14 Require Import Spec.
Import ListNotations.
Local Open Scope nat_scope.

(* ------------------------------------------------------------------ firstn / skipn *)
Section ListAux.
Context {A : Type}.
Implicit Types l a b : list A.

Lemma skipn_add x y l : skipn x (skipn y l) = skipn (y + x) l.
Proof.
  revert l. induction y as [|y IH]; intros l.
  - reflexivity.
  - destruct l as [|h l].
    + rewrite !skipn_nil. reflexivity.
    + simpl. apply IH.
Qed.

Lemma firstn_app_le n a b : n <= length a -> firstn n (a ++ b) = firstn n a.
Proof.
  intros H. rewrite firstn_app. replace (n - length a) with 0 by lia.
  simpl. apply app_nil_r.
Qed.

Lemma skipn_app_le n a b : n <= length a -> skipn n (a ++ b) = skipn n a ++ b.
Proof.
  intros H. rewrite skipn_app. replace (n - length a) with 0 by lia. reflexivity.
Qed.

Lemma firstn_app_ge n a b : length a <= n -> firstn n (a ++ b) = a ++ firstn (n - length a) b.
Proof. intros H. rewrite firstn_app. rewrite firstn_all2 by lia. reflexivity. Qed.

Lemma skipn_app_ge n a b : length a <= n -> skipn n (a ++ b) = skipn (n - length a) b.
Proof. intros H. rewrite skipn_app. rewrite skipn_all2 by lia. reflexivity. Qed.

Lemma firstn_min_length n l : firstn (Nat.min n (length l)) l = firstn n l.
Proof.
  destruct (Nat.le_ge_cases n (length l)) as [H|H].
  - rewrite Nat.min_l by lia. reflexivity.
  - rewrite Nat.min_r by lia. rewrite firstn_all, firstn_all2 by lia. reflexivity.
Qed.

Lemma skipn_min_length n l : skipn (Nat.min n (length l)) l = skipn n l.
Proof.
  destruct (Nat.le_ge_cases n (length l)) as [H|H].
  - rewrite Nat.min_l by lia. reflexivity.
  - rewrite Nat.min_r by lia. rewrite skipn_all, skipn_all2 by lia. reflexivity.
Qed.

End ListAux.

(* ------------------------------------------------------------------ startswith *)
Lemma startswith_nil_r (s : bytes) : startswith s [] = true.
Proof. destruct s; reflexivity. Qed.

Lemma startswith_length (s p : bytes) : startswith s p = true -> length p <= length s.
Proof. intro H. apply startswith_app in H as [r ->]. rewrite app_length. lia. Qed.

Lemma startswith_firstn (s p : bytes) : startswith s p = true <-> firstn (length p) s = p.
Proof.
  split.
  - intro H. apply startswith_app in H as [r ->].
    rewrite firstn_app, Nat.sub_diag, firstn_all. simpl. apply app_nil_r.
  - intro H. apply startswith_app. exists (skipn (length p) s).
    transitivity (firstn (length p) s ++ skipn (length p) s).
    + symmetry. apply firstn_skipn.
    + rewrite H. reflexivity.
Qed.

Lemma startswith_app_l (s t p : bytes) : startswith s p = true -> startswith (s ++ t) p = true.
Proof.
  intro H. apply startswith_app in H as [r ->]. apply startswith_app.
  exists (r ++ t). rewrite app_assoc. reflexivity.
Qed.

(* only the first [length p] bytes matter *)
Lemma startswith_firstn_enough (s p : bytes) m :
  length p <= m -> startswith (firstn m s) p = startswith s p.
Proof.
  revert s m. induction p as [|y p IH]; intros s m Hm.
  - rewrite !startswith_nil_r. reflexivity.
  - simpl in Hm. destruct m as [|m]; [lia|]. destruct s as [|x s]; [reflexivity|].
    simpl. rewrite IH by lia. reflexivity.
Qed.

Lemma startswith_app_firstn (x y p : bytes) m :
  length p <= length x + m -> startswith (x ++ firstn m y) p = startswith (x ++ y) p.
Proof.
  intro H.
  rewrite <- (startswith_firstn_enough (x ++ y) p (length x + m)) by lia.
  rewrite firstn_app_2. reflexivity.
Qed.

Lemma startswith_app_inv (s t p : bytes) :
  length p <= length s -> startswith (s ++ t) p = startswith s p.
Proof.
  intro H. rewrite <- (startswith_firstn_enough (s ++ t) p (length s)) by lia.
  rewrite firstn_app_le by lia. rewrite firstn_all. reflexivity.
Qed.

(* ------------------------------------------------------------------ occurrences *)
Definition occ (d l : bytes) (j : nat) : Prop := startswith (skipn j l) d = true.

Lemma not_occ_false d l j : ~ occ d l j <-> startswith (skipn j l) d = false.
Proof. unfold occ. apply not_true_iff_false. Qed.

Lemma occ_bound d l j : 1 <= length d -> occ d l j -> j + length d <= length l.
Proof.
  intros Hd H. apply startswith_length in H. rewrite skipn_length in H. lia.
Qed.

Lemma occ_app_l d a b j : occ d a j -> occ d (a ++ b) j.
Proof.
  unfold occ. intro H. destruct (Nat.le_gt_cases j (length a)) as [Hj|Hj].
  - rewrite skipn_app_le by lia. apply startswith_app_l. exact H.
  - rewrite skipn_all2 in H by lia.
    destruct d as [|y d]; [apply startswith_nil_r | discriminate].
Qed.

Lemma occ_app_inv d a b j : j + length d <= length a -> occ d (a ++ b) j -> occ d a j.
Proof.
  unfold occ. intros Hj H. rewrite skipn_app_le in H by lia.
  rewrite startswith_app_inv in H; [exact H|]. rewrite skipn_length. lia.
Qed.

Lemma occ_app_iff d a b j : j + length d <= length a -> occ d (a ++ b) j <-> occ d a j.
Proof. intro H. split; [apply occ_app_inv; exact H | apply occ_app_l]. Qed.

Lemma occ_skipn d l k j : occ d (skipn k l) j <-> occ d l (k + j).
Proof. unfold occ. rewrite skipn_add. reflexivity. Qed.

(* an occurrence in [a ++ b] that starts after [a] is an occurrence in [b] *)
Lemma occ_app_r d a b j : occ d (a ++ b) (length a + j) <-> occ d b j.
Proof.
  unfold occ. rewrite skipn_app_ge by lia.
  replace (length a + j - length a) with j by lia. reflexivity.
Qed.

Lemma occ_firstn d l n j : occ d (firstn n l) j -> occ d l j.
Proof.
  intro H. rewrite <- (firstn_skipn n l). apply occ_app_l. exact H.
Qed.

Lemma occ_firstn_inv d l n j : j + length d <= n -> occ d l j -> occ d (firstn n l) j.
Proof.
  intros Hn H. destruct (Nat.le_gt_cases n (length l)) as [Hl|Hl].
  - rewrite <- (firstn_skipn n l) in H. apply occ_app_inv in H; [exact H|].
    rewrite firstn_length. lia.
  - rewrite firstn_all2 by lia. exact H.
Qed.

(* ------------------------------------------------------------------ find *)
Lemma find_eq d l :
  find d l = if startswith l d then Some 0
             else match l with
                  | [] => None
                  | _ :: tl => match find d tl with Some i => Some (S i) | None => None end
                  end.
Proof. destruct l; reflexivity. Qed.

Lemma find_nil_d l : find [] l = Some 0.
Proof. rewrite find_eq, startswith_nil_r. reflexivity. Qed.

Lemma find_spec d : forall l i,
  find d l = Some i <-> (occ d l i /\ forall j, j < i -> ~ occ d l j).
Proof.
  induction l as [|x tl IH]; intros i.
  - rewrite find_eq. unfold occ. split.
    + destruct (startswith [] d) eqn:E; [|discriminate].
      intros [= <-]. split; [exact E | intros j Hj; lia].
    + intros [Hi Hlt]. rewrite skipn_nil in Hi. rewrite Hi.
      destruct i as [|i]; [reflexivity|]. exfalso. apply (Hlt 0); [lia|]. exact Hi.
  - rewrite find_eq. destruct (startswith (x :: tl) d) eqn:E.
    + split.
      * intros [= <-]. split; [exact E | intros j Hj; lia].
      * intros [Hi Hlt]. destruct i as [|i]; [reflexivity|].
        exfalso. apply (Hlt 0); [lia | exact E].
    + split.
      * destruct (find d tl) as [k|] eqn:Ef; [|discriminate].
        intros [= <-]. destruct (proj1 (IH k) eq_refl) as [Hk Hlt]. split; [exact Hk|].
        intros [|j] Hj.
        -- unfold occ. cbn [skipn]. rewrite E. discriminate.
        -- apply (Hlt j). lia.
      * intros [Hi Hlt]. destruct i as [|i].
        -- unfold occ in Hi. cbn [skipn] in Hi. congruence.
        -- assert (Ef : find d tl = Some i).
           { apply IH. split; [exact Hi|]. intros j Hj. apply (Hlt (S j)). lia. }
           rewrite Ef. reflexivity.
Qed.

Lemma find_None_occ d : forall l, find d l = None <-> forall j, ~ occ d l j.
Proof.
  intro l. split.
  - induction l as [|x tl IH]; rewrite find_eq.
    + destruct (startswith [] d) eqn:E; [discriminate|]. intros _ j.
      unfold occ. rewrite skipn_nil, E. discriminate.
    + destruct (startswith (x :: tl) d) eqn:E; [discriminate|].
      destruct (find d tl) as [k|] eqn:Ef; [discriminate|]. intros _ [|j].
      * unfold occ. cbn [skipn]. rewrite E. discriminate.
      * apply (IH eq_refl j).
  - intro H. destruct (find d l) as [i|] eqn:Ef; [|reflexivity].
    apply find_spec in Ef as [Hi _]. exfalso. exact (H i Hi).
Qed.

(* --- the statements in boolean form *)
Lemma find_Some_startswith d l i : 1 <= length d ->
  find d l = Some i -> startswith (skipn i l) d = true /\ i + length d <= length l.
Proof.
  intros Hd H. apply find_spec in H as [Hi _]. split; [exact Hi | apply occ_bound; assumption].
Qed.

Lemma find_Some_first d l i :
  find d l = Some i -> forall j, j < i -> startswith (skipn j l) d = false.
Proof.
  intros H j Hj. apply find_spec in H as [_ Hlt]. apply not_occ_false. apply Hlt. exact Hj.
Qed.

Lemma find_None d l : find d l = None -> forall j, startswith (skipn j l) d = false.
Proof. intros H j. apply not_occ_false. revert j. apply find_None_occ. exact H. Qed.

Lemma find_None_iff d l : find d l = None <-> forall j, startswith (skipn j l) d = false.
Proof.
  split; [apply find_None|]. intro H. apply find_None_occ. intro j.
  apply not_occ_false. apply H.
Qed.

Lemma find_Some_iff d l i :
  find d l = Some i <->
  (startswith (skipn i l) d = true /\ forall j, j < i -> startswith (skipn j l) d = false).
Proof.
  rewrite find_spec. unfold occ. split; intros [H1 H2]; split; try exact H1; intros j Hj.
  - apply not_true_iff_false. apply H2. exact Hj.
  - apply not_true_iff_false. apply H2. exact Hj.
Qed.

(* an occurrence bounds the first one *)
Lemma find_occ_le d l j : occ d l j -> exists i, find d l = Some i /\ i <= j.
Proof.
  intro H. destruct (find d l) as [i|] eqn:Ef.
  - exists i. split; [reflexivity|]. apply find_spec in Ef as [_ Hlt].
    destruct (Nat.le_gt_cases i j) as [Hle|Hgt]; [exact Hle|].
    exfalso. exact (Hlt j Hgt H).
  - exfalso. exact (proj1 (find_None_occ d l) Ef j H).
Qed.

(* --- find across concatenation *)
Lemma find_app_Some d a b i : 1 <= length d ->
  find d a = Some i -> find d (a ++ b) = Some i.
Proof.
  intros Hd H. apply find_spec in H as [Hi Hlt]. apply find_spec. split.
  - apply occ_app_l. exact Hi.
  - intros j Hj Hc. apply (Hlt j Hj). pose proof (occ_bound d a i Hd Hi).
    apply occ_app_inv in Hc; [exact Hc | lia].
Qed.

Lemma find_app_Some_inv d a b i :
  find d (a ++ b) = Some i -> i + length d <= length a -> find d a = Some i.
Proof.
  intros H Hb. apply find_spec in H as [Hi Hlt]. apply find_spec. split.
  - apply occ_app_inv in Hi; assumption.
  - intros j Hj Hc. apply (Hlt j Hj). apply occ_app_l. exact Hc.
Qed.

(* no occurrence in [a]: an occurrence in [a ++ b] straddles the border or lies in [b] *)
Lemma find_None_app_occ d a b j :
  find d a = None -> occ d (a ++ b) j -> length a < j + length d.
Proof.
  intros Hn H. destruct (Nat.le_gt_cases (j + length d) (length a)) as [Hle|Hgt]; [|exact Hgt].
  exfalso. apply occ_app_inv in H; [|exact Hle].
  exact (proj1 (find_None_occ d a) Hn j H).
Qed.

Lemma find_None_app d a b i :
  find d a = None -> find d (a ++ b) = Some i -> length a - (length d - 1) <= i.
Proof.
  intros Hn H. apply find_spec in H as [Hi _].
  pose proof (find_None_app_occ d a b i Hn Hi). lia.
Qed.

(* --- prefix stability *)
Lemma find_firstn_Some d l n i : 1 <= length d ->
  find d (firstn n l) = Some i -> find d l = Some i.
Proof.
  intros Hd H. rewrite <- (firstn_skipn n l). apply find_app_Some; assumption.
Qed.

Lemma find_firstn_Some_inv d l n i :
  find d l = Some i -> i + length d <= n -> find d (firstn n l) = Some i.
Proof.
  intros H Hn. apply find_spec in H as [Hi Hlt]. apply find_spec. split.
  - apply occ_firstn_inv; assumption.
  - intros j Hj Hc. apply (Hlt j Hj). apply occ_firstn in Hc. exact Hc.
Qed.

(* --- find in a suffix *)
Lemma find_skipn_Some d l k i :
  find d (skipn k l) = Some i -> (forall j, j < k -> ~ occ d l j) -> find d l = Some (k + i).
Proof.
  intros H Hk. apply find_spec in H as [Hi Hlt]. apply find_spec. split.
  - apply occ_skipn. exact Hi.
  - intros j Hj Hc. destruct (Nat.lt_ge_cases j k) as [Hjk|Hjk].
    + exact (Hk j Hjk Hc).
    + apply (Hlt (j - k)); [lia|]. apply occ_skipn.
      replace (k + (j - k)) with j by lia. exact Hc.
Qed.

Lemma find_skipn_None d l k :
  find d (skipn k l) = None -> (forall j, j < k -> ~ occ d l j) -> find d l = None.
Proof.
  intros H Hk. apply find_None_occ. intros j Hc.
  destruct (Nat.lt_ge_cases j k) as [Hjk|Hjk].
  - exact (Hk j Hjk Hc).
  - apply (proj1 (find_None_occ d (skipn k l)) H (j - k)). apply occ_skipn.
    replace (k + (j - k)) with j by lia. exact Hc.
Qed.

Lemma find_skipn_Some_false d l k i :
  find d (skipn k l) = Some i -> (forall j, j < k -> startswith (skipn j l) d = false) ->
  find d l = Some (k + i).
Proof.
  intros H Hk. apply find_skipn_Some; [exact H|]. intros j Hj. apply not_occ_false. auto.
Qed.

(* --- upto / lim *)
Lemma upto_no_occ d size l :
  (forall k, occ d l k -> size <= k) -> upto d (Some size) l = Nat.min size (length l).
Proof.
  intro H. unfold upto, lim. destruct (find d l) as [i|] eqn:Ef; [|reflexivity].
  apply find_spec in Ef as [Hi _]. apply H in Hi. lia.
Qed.

Lemma upto_found d size l i : 1 <= length d ->
  find d l = Some i -> upto d (Some size) l = Nat.min size i.
Proof.
  intros Hd H. unfold upto, lim. rewrite H. apply find_spec in H as [Hi _].
  pose proof (occ_bound d l i Hd Hi). lia.
Qed.

Lemma upto_le_length d size l : upto d size l <= length l.
Proof.
  unfold upto, lim. destruct (find d l); destruct size; lia.
Qed.

Lemma find_nil_l (d : bytes) : 1 <= length d -> find d [] = None.
Proof. intros Hd. rewrite find_eq. destruct d; [simpl in Hd; lia | reflexivity]. Qed.

(* ------------------------------------------------------------------ the chunk border *)
(* [B]: the buffered bytes (delimiter-free), [nc]: the next chunk, [T]: what follows it.
   The fragment  B[len(B) - (len(d) - 1):] + nc[:len(d) - 1]  is searched for occurrences that
   straddle the border. *)
Lemma border_none d B nc T :
  1 <= length d -> find d B = None ->
  (length d - 1 = 0 \/
   find d (skipn (length B - (length d - 1)) B ++ firstn (length d - 1) nc) = None) ->
  (length nc < length d - 1 -> T = []) ->
  forall j, j < length B -> ~ occ d (B ++ nc ++ T) j.
Proof.
  intros Hd HB Hfr HT j Hj Hocc.
  pose proof (find_None_app_occ d B (nc ++ T) j HB Hocc) as Hst.
  destruct Hfr as [Hz|Hfr]; [lia|].
  set (dl1 := length d - 1) in *. set (o := length B - dl1) in *.
  apply (proj1 (find_None_occ d _) Hfr (j - o)).
  unfold occ in *. rewrite skipn_app_le by (rewrite skipn_length; lia).
  rewrite skipn_add. replace (o + (j - o)) with j by lia.
  rewrite skipn_app_le in Hocc by lia.
  assert (Hfn : firstn dl1 (nc ++ T) = firstn dl1 nc).
  { destruct (Nat.le_gt_cases dl1 (length nc)) as [Hle|Hgt].
    - apply firstn_app_le. exact Hle.
    - rewrite (HT Hgt). rewrite app_nil_r. reflexivity. }
  rewrite <- Hfn. rewrite startswith_app_firstn; [exact Hocc|].
  rewrite skipn_length. lia.
Qed.

Lemma border_found d B nc R q :
  1 <= length d -> find d B = None ->
  find d (skipn (length B - (length d - 1)) B ++ firstn (length d - 1) nc) = Some q ->
  find d (B ++ nc ++ R) = Some (length B - (length d - 1) + q).
Proof.
  intros Hd HB Hfr. set (dl1 := length d - 1) in *. set (o := length B - dl1) in *.
  apply find_skipn_Some.
  - rewrite skipn_app_le by lia.
    rewrite <- (firstn_skipn dl1 nc) at 1. rewrite <- app_assoc.
    rewrite app_assoc. apply find_app_Some; assumption.
  - intros j Hj Hocc. pose proof (find_None_app_occ d B (nc ++ R) j HB Hocc). lia.
Qed.

(* ------------------------------------------------------------------ more on find / upto / cut *)
Lemma firstn_add {A : Type} a b (l : list A) :
  firstn a l ++ firstn b (skipn a l) = firstn (a + b) l.
Proof.
  revert l. induction a as [|a IH]; intros l; [reflexivity|].
  destruct l as [|x l]; [rewrite skipn_nil, !firstn_nil; reflexivity|].
  simpl. rewrite IH. reflexivity.
Qed.

Lemma find_skipn_Some_le d l i k :
  find d l = Some i -> k <= i -> find d (skipn k l) = Some (i - k).
Proof.
  intros H Hk. apply find_spec in H as [Hi Hlt]. apply find_spec. split.
  - apply occ_skipn. replace (k + (i - k)) with i by lia. exact Hi.
  - intros j Hj Hc. apply occ_skipn in Hc. apply (Hlt (k + j)); [lia | exact Hc].
Qed.

Lemma find_skipn_None_all d l k : find d l = None -> find d (skipn k l) = None.
Proof.
  intro H. apply find_None_occ. intros j Hc. apply occ_skipn in Hc.
  exact (proj1 (find_None_occ d l) H _ Hc).
Qed.

Lemma lim_le size (l : bytes) : lim size l <= length l.
Proof. unfold lim. destruct size; lia. Qed.

Lemma upto_lim d s1 s2 l : lim s1 l = lim s2 l -> upto d s1 l = upto d s2 l.
Proof. intro H. unfold upto. rewrite H. reflexivity. Qed.

Lemma sp_until_lim d s1 s2 c l : lim s1 l = lim s2 l -> sp_until d s1 c l = sp_until d s2 c l.
Proof. intro H. unfold sp_until. rewrite (upto_lim d s1 s2 l H). reflexivity. Qed.

Lemma upto_le_size d size l : upto d (Some size) l <= size.
Proof. unfold upto, lim. destruct (find d l); lia. Qed.

(* nothing to return for one positive size: nothing for any size *)
Lemma upto_zero d a b l : upto d (Some a) l = 0 -> 0 < a -> upto d (Some b) l = 0.
Proof. unfold upto, lim. destruct (find d l); lia. Qed.

(* reading [min c R] bytes up to the delimiter, then [R - c] more, is reading [R] *)
Lemma upto_step d c R l : 1 <= length d -> 0 < c ->
  let m := upto d (Some (Nat.min c R)) l in
  upto d (Some R) l = m + upto d (Some (R - c)) (skipn m l).
Proof.
  intros Hd Hc. cbv zeta. destruct (find d l) as [i|] eqn:Ef.
  - pose proof (occ_bound d l i Hd (proj1 (proj1 (find_spec d l i) Ef))) as Hb.
    assert (Hm : upto d (Some (Nat.min c R)) l = Nat.min (Nat.min (Nat.min c R) (length l)) i)
      by (unfold upto, lim; rewrite Ef; reflexivity).
    assert (HR : upto d (Some R) l = Nat.min (Nat.min R (length l)) i)
      by (unfold upto, lim; rewrite Ef; reflexivity).
    rewrite Hm, HR. set (m := Nat.min (Nat.min (Nat.min c R) (length l)) i).
    assert (Hmi : m <= i) by lia.
    unfold upto, lim. rewrite (find_skipn_Some_le d l i m Ef Hmi). rewrite skipn_length. lia.
  - assert (Hm : upto d (Some (Nat.min c R)) l = Nat.min (Nat.min c R) (length l))
      by (unfold upto, lim; rewrite Ef; reflexivity).
    assert (HR : upto d (Some R) l = Nat.min R (length l))
      by (unfold upto, lim; rewrite Ef; reflexivity).
    rewrite Hm, HR. set (m := Nat.min (Nat.min c R) (length l)).
    unfold upto, lim. rewrite (find_skipn_None_all d l m Ef). rewrite skipn_length. lia.
Qed.

(* ------------------------------------------------------------------ cut *)
Lemma cut_upto_firstn d n l : 1 <= length d ->
  firstn (upto d (Some n) l) (cut d l) = firstn (upto d (Some n) l) l.
Proof.
  intro Hd. unfold cut, upto, lim. destruct (find d l) as [i|]; [|reflexivity].
  rewrite firstn_firstn. f_equal. lia.
Qed.

Lemma cut_upto_skipn d n l : 1 <= length d ->
  cut d (skipn (upto d (Some n) l) l) = skipn (upto d (Some n) l) (cut d l).
Proof.
  intro Hd. unfold cut at 2. unfold upto, lim. destruct (find d l) as [i|] eqn:Ef.
  - set (m := Nat.min (Nat.min n (length l)) i). assert (Hm : m <= i) by lia.
    unfold cut. rewrite (find_skipn_Some_le d l i m Ef Hm). rewrite skipn_firstn_comm.
    reflexivity.
  - unfold cut. rewrite (find_skipn_None_all d l _ Ef). reflexivity.
Qed.

Lemma cut_upto_pos d n l : 1 <= length d -> 0 < n -> cut d l <> [] -> 0 < upto d (Some n) l.
Proof.
  intros Hd Hn Hne. unfold cut in Hne. unfold upto, lim. destruct (find d l) as [i|] eqn:Ef.
  - destruct l as [|x l]; [rewrite firstn_nil in Hne; congruence|].
    destruct i as [|i]; [simpl in Hne; congruence|]. simpl. lia.
  - destruct l as [|x l]; [congruence|]. simpl. lia.
Qed.

(* ------------------------------------------------------------------ more on cut (nested readers) *)
Lemma cut_firstn d l : cut d l = firstn (length (cut d l)) l.
Proof.
  unfold cut. destruct (find d l) as [i|]; [|rewrite firstn_all; reflexivity].
  rewrite firstn_length, firstn_min_length. reflexivity.
Qed.

Lemma cut_length_le d l : length (cut d l) <= length l.
Proof. rewrite cut_firstn at 1. rewrite firstn_length. lia. Qed.

Lemma cut_app_rest d l : l = cut d l ++ skipn (length (cut d l)) l.
Proof. rewrite cut_firstn at 1. symmetry. apply firstn_skipn. Qed.

Lemma upto_le_cut d n l : upto d (Some n) l <= length (cut d l).
Proof.
  unfold upto, cut, lim. destruct (find d l) as [i|]; [rewrite firstn_length|]; lia.
Qed.

Lemma cut_skipn d t l : t <= length (cut d l) -> cut d (skipn t l) = skipn t (cut d l).
Proof.
  unfold cut at 1 3. destruct (find d l) as [i|] eqn:Ef.
  - rewrite firstn_length. intro Ht. assert (Hti : t <= i) by lia.
    unfold cut. rewrite (find_skipn_Some_le d l i t Ef Hti). rewrite skipn_firstn_comm. reflexivity.
  - intros _. unfold cut. rewrite (find_skipn_None_all d l t Ef). reflexivity.
Qed.

Lemma skipn_cut_split d t l : t <= length (cut d l) ->
  skipn t l = skipn t (cut d l) ++ skipn (length (cut d l)) l.
Proof.
  intro Ht. rewrite (cut_app_rest d l) at 1. apply skipn_app_le. exact Ht.
Qed.

(* the bytes up to the delimiter, followed by the rest from the delimiter on: cutting again
   gives back the first part *)
Lemma cut_hidden d W x :
  cut d (skipn x (cut d W) ++ skipn (length (cut d W)) W) = skipn x (cut d W).
Proof.
  rewrite <- (skipn_min_length x (cut d W)).
  set (x' := Nat.min x (length (cut d W))). assert (Hx : x' <= length (cut d W)) by lia.
  rewrite <- (skipn_cut_split d x' W Hx). apply cut_skipn. exact Hx.
Qed.

(* a reader's buffer [B'] followed by its source's view [skipn t' X]: if this is a suffix
   of the visible part [X], the same holds with the hidden part [D] appended *)
Lemma ghost_step {A : Type} (X D B' : list A) t' mk :
  t' <= length X -> mk <= length X -> B' ++ skipn t' X = skipn mk X ->
  B' ++ skipn t' (X ++ D) = skipn mk (X ++ D) /\ mk + length B' = t'.
Proof.
  intros Ht Hm H. split.
  - rewrite !skipn_app_le by lia. rewrite app_assoc, H. reflexivity.
  - apply (f_equal (@length A)) in H. rewrite app_length, !skipn_length in H. lia.
Qed.
